import YProofs.Lemmas.SchedFresh
/-! Sweep-level Hoare triples for the DMRG / TDVP schedules (C09 `dmrg_reads_fresh`, C10 `tdvp_reads_fresh`). -/
namespace YModel.Sched

theorem absSite_bounds (N : Nat) (to : Dir) (m : Nat) : m - 1 ≤ absSite N to m ∧ absSite N to m ≤ m := by
  unfold absSite; split <;> omega

theorem absSite_last_lt (N m : Nat) (h : m < N) : absSite N .last m = m := by
  unfold absSite; simp; omega

theorem absSite_first_pos (N m : Nat) (h : 1 ≤ m) : absSite N .first m = m - 1 := by
  unfold absSite; simp [h]

section
variable {N : Nat} {pre : Bool} {a b ad bd : Nat}

theorem T_clr1 (c : Option Nat) (n : Nat) {ad' bd' : Nat} (h1 : a ≤ n + 1) (h2 : n < b) (h3 : n < N)
    (hl : ad' ≤ ad ∨ (n + 1 ≤ ad ∧ ad' ≤ n + 2)) (hr : bd ≤ bd' ∨ (bd ≤ n + 1 ∧ n ≤ bd')) :
    Ev1 N pre (S N pre a b ad bd c) (.clr [n]) (S N pre a b ad' bd' c) := by
  apply T_clr
  · intro x hx; simp at hx; subst hx; omega
  · intro m h4 h5; exact ⟨n, by simp, by omega⟩
  · intro m h4 h5; simp; omega

theorem T_clr2 (c : Option Nat) (n : Nat) {ad' bd' : Nat} (h1 : a ≤ n + 1) (h2 : n + 1 < b) (h3 : n + 1 < N)
    (hl : ad' ≤ ad ∨ (n + 1 ≤ ad ∧ ad' ≤ n + 3)) (hr : bd ≤ bd' ∨ (bd ≤ n + 2 ∧ n ≤ bd')) :
    Ev1 N pre (S N pre a b ad bd c) (.clr [n, n + 1]) (S N pre a b ad' bd' c) := by
  apply T_clr
  · intro x hx; simp at hx; rcases hx with rfl | rfl <;> omega
  · intro m h4 h5
    by_cases e : m = n + 1
    · exact ⟨n, by simp, e⟩
    · exact ⟨n + 1, by simp, by omega⟩
  · intro m h4 h5; simp; omega

end

/-- the invariant between sweep steps: everything strictly left of `p` / from `p` on is fresh, no central block -/
abbrev I (N : Nat) (pre : Bool) (p : Nat) : St → Prop := S N pre p p p p none

theorem dmrg1_last (N : Nat) (pre : Bool) (n : Nat) (hn : n < N) :
    Tr N pre (I N pre (n + 1)) (dmrg1Step .last n) (I N pre (n + 2)) := by
  have hs := absSite_bounds N .last (n + 1)
  unfold dmrg1Step
  refine Tr.cons (T_h1 none n (by omega) (by omega) (by omega) (by omega)) ?_
  refine Tr.cons (T_w1 n (a' := n + 1) (b' := n + 1) (ad' := n + 1) (bd' := n + 1) (by omega) (by omega) (by omega) (by omega)) ?_
  refine Tr.cons (T_orth n .last (a' := n + 1) (b' := n + 1) (ad' := n + 1) (bd' := n + 1) (by omega) (by omega) (by omega) (by omega)) ?_
  refine Tr.cons (T_abs .last (n + 1) (a' := n + 1) (b' := n + 2) (ad' := n + 1) (bd' := n + 2)
    (by omega) (by omega) (by omega) (by omega)) ?_
  refine Tr.cons (T_clr1 none n (ad' := n + 2) (bd' := n + 2) (by omega) (by omega) hn (by omega) (by omega)) ?_
  refine Tr.cons (T_updLast none n (a' := n + 2) (by omega) (by omega) (by omega)) ?_
  exact Tr.nil (fun st h => h)

theorem dmrg1_first (N : Nat) (pre : Bool) (j : Nat) (hj : j < N) :
    Tr N pre (I N pre (j + 1)) (dmrg1Step .first j) (I N pre j) := by
  have hs := absSite_bounds N .first j
  unfold dmrg1Step
  refine Tr.cons (T_h1 none j (by omega) (by omega) (by omega) (by omega)) ?_
  refine Tr.cons (T_w1 j (a' := j + 1) (b' := j + 1) (ad' := j + 1) (bd' := j + 1) (by omega) (by omega) (by omega) (by omega)) ?_
  refine Tr.cons (T_orth j .first (a' := j + 1) (b' := j + 1) (ad' := j + 1) (bd' := j + 1) (by omega) (by omega) (by omega) (by omega)) ?_
  refine Tr.cons (T_abs .first j (a' := j) (b' := j + 1) (ad' := j) (bd' := j + 1)
    (by omega) (by omega) (by omega) (by omega)) ?_
  refine Tr.cons (T_clr1 none j (ad' := j) (bd' := j) (by omega) (by omega) hj (by omega) (by omega)) ?_
  refine Tr.cons (T_updFirst none j (b' := j) (by omega) (by omega) hj (by omega)) ?_
  exact Tr.nil (fun st h => h)

theorem dmrg2_last (N : Nat) (pre : Bool) (n : Nat) (hn : n + 1 < N) :
    Tr N pre (I N pre (n + 1)) (dmrg2Step .last 0 n) (I N pre (n + 2)) := by
  have hs := absSite_bounds N .last (n + 1)
  simp only [dmrg2Step, Nat.add_zero]
  refine Tr.cons (T_h2 none n (by omega) (by omega) (by omega) (by omega) (by omega)) ?_
  refine Tr.cons (T_w2 n (a' := n + 1) (b' := n + 2) (ad' := n + 1) (bd' := n + 2) (by omega) (by omega) (by omega) (by omega)) ?_
  refine Tr.cons (T_abs .last (n + 1) (a' := n + 1) (b' := n + 2) (ad' := n + 1) (bd' := n + 2)
    (by omega) (by omega) (by omega) (by omega)) ?_
  refine Tr.cons (T_clr2 none n (ad' := n + 2) (bd' := n + 2) (by omega) (by omega) hn (by omega) (by omega)) ?_
  refine Tr.cons (T_updLast none n (a' := n + 2) (by omega) (by omega) (by omega)) ?_
  exact Tr.nil (fun st h => h)

theorem dmrg2_first (N : Nat) (pre : Bool) (n : Nat) (hn : n + 1 < N) :
    Tr N pre (I N pre (n + 2)) (dmrg2Step .first 1 n) (I N pre (n + 1)) := by
  have hs := absSite_bounds N .first (n + 1)
  simp only [dmrg2Step]
  refine Tr.cons (T_h2 none n (by omega) (by omega) (by omega) (by omega) (by omega)) ?_
  refine Tr.cons (T_w2 n (a' := n + 1) (b' := n + 2) (ad' := n + 1) (bd' := n + 2) (by omega) (by omega) (by omega) (by omega)) ?_
  refine Tr.cons (T_abs .first (n + 1) (a' := n + 1) (b' := n + 2) (ad' := n + 1) (bd' := n + 2)
    (by omega) (by omega) (by omega) (by omega)) ?_
  refine Tr.cons (T_clr2 none n (ad' := n + 1) (bd' := n + 1) (by omega) (by omega) hn (by omega) (by omega)) ?_
  refine Tr.cons (T_updFirst none (n + 1) (b' := n + 1) (by omega) (by omega) hn (by omega)) ?_
  exact Tr.nil (fun st h => h)

/-- the state between sweeps: all right environments and the left edge fresh (`measure` at bond (-1,0) is legal) -/
abbrev B (N : Nat) (pre : Bool) : St → Prop := S N pre 1 0 1 1 none

theorem S_edgeL {N pre b ad bd c st} (h : S N pre 0 b ad bd c st) : S N pre 1 b (max ad 1) bd c st := by
  obtain ⟨hg, hc⟩ := h
  refine ⟨⟨?_, hg.r, ?_, hg.dr, hg.l0, hg.rN, hg.dl0, hg.drN, hg.nod⟩, hc⟩
  · intro m hm; have : m = 0 := by omega
    subst this; exact hg.l0
  · intro m hm hp
    by_cases e : m < ad
    · exact hg.dl m e hp
    · have : m = 0 := by omega
      subst this; exact hg.dl0 hp

theorem S_edgeR {N pre a ad bd c st} (h : S N pre a (N + 1) ad bd c st) : S N pre a N ad (min bd N) c st := by
  obtain ⟨hg, hc⟩ := h
  refine ⟨⟨hg.l, ?_, hg.dl, ?_, hg.l0, hg.rN, hg.dl0, hg.drN, hg.nod⟩, hc⟩
  · intro m hm hN; have : m = N := by omega
    subst this; exact hg.rN
  · intro m hm hN hp
    by_cases e : bd ≤ m
    · exact hg.dr m e hN hp
    · have : m = N := by omega
      subst this; exact hg.drN hp

theorem S_mono {N pre a b ad bd a' b' ad' bd' c st} (h : S N pre a b ad bd c st) (ha : a' ≤ a) (hb : b ≤ b')
    (had : ad' ≤ ad) (hbd : bd ≤ bd') : S N pre a' b' ad' bd' c st := ⟨h.1.mono ha hb had hbd, h.2⟩

theorem I_to_B {N pre st} (h : I N pre 0 st) : B N pre st :=
  S_mono (S_edgeL h) (by omega) (by omega) (by omega) (by omega)

theorem B_to_I1 {N pre st} (h : B N pre st) : I N pre 1 st := S_mono h (by omega) (by omega) (by omega) (by omega)

theorem I_top {N pre st} (h : I N pre (N + 1) st) : I N pre N st := by
  have h1 : S N pre N (N + 1) N (N + 1) none st := S_mono h (by omega) (by omega) (by omega) (by omega)
  exact S_mono (S_edgeR h1) (by omega) (by omega) (by omega) (by omega)

theorem dmrg1Sweep_ok (N : Nat) (pre : Bool) : Tr N pre (B N pre) (dmrg1Sweep N) (B N pre) := by
  unfold dmrg1Sweep
  have up : Tr N pre (I N pre 1) ((List.range N).flatMap (dmrg1Step .last)) (I N pre (N + 1)) := by
    have := Tr.loopUp (N := N) (pre := pre) (fun i => I N pre (i + 1)) (dmrg1Step .last) N 0
      (fun i _ hi => dmrg1_last N pre i (by omega))
    rw [← List.range_eq_range'] at this
    simpa using this
  have down : Tr N pre (I N pre N) ((List.range N).reverse.flatMap (dmrg1Step .first)) (I N pre 0) :=
    Tr.loopDown (N := N) (pre := pre) (fun i => I N pre i) (dmrg1Step .first) N (fun i hi => dmrg1_first N pre i hi)
  exact Tr.append (up.weaken (fun st h => B_to_I1 h) (fun st h => I_top h)) (down.weaken (fun st h => h) (fun st h => I_to_B h))

theorem dmrg2Sweep_ok (N : Nat) (pre : Bool) (hN : 1 ≤ N) : Tr N pre (B N pre) (dmrg2Sweep N) (B N pre) := by
  unfold dmrg2Sweep
  have up : Tr N pre (I N pre 1) ((List.range (N - 1)).flatMap (dmrg2Step .last 0)) (I N pre N) := by
    have := Tr.loopUp (N := N) (pre := pre) (fun i => I N pre (i + 1)) (dmrg2Step .last 0) (N - 1) 0
      (fun i _ hi => dmrg2_last N pre i (by omega))
    rw [← List.range_eq_range'] at this
    have e : 0 + (N - 1) + 1 = N := by omega
    simp only [e] at this
    simpa using this
  have down : Tr N pre (I N pre N) ((List.range (N - 1)).reverse.flatMap (dmrg2Step .first 1)) (I N pre 1) := by
    have := Tr.loopDown (N := N) (pre := pre) (fun i => I N pre (i + 1)) (dmrg2Step .first 1) (N - 1)
      (fun i hi => dmrg2_first N pre i (by omega))
    have e : N - 1 + 1 = N := by omega
    simp only [e] at this
    simpa using this
  have last : Tr N pre (I N pre 1) [.upd 0 .first] (B N pre) :=
    Tr.cons (T_updFirst none 0 (b' := 0) (by omega) (by omega) (by omega) (by omega)) (Tr.nil (fun st h => h))
  exact Tr.append (Tr.append (up.weaken (fun st h => B_to_I1 h) (fun st h => h)) down) last

theorem meas_ok (N : Nat) (pre : Bool) : Tr N pre (B N pre) [.meas 0] (B N pre) :=
  Tr.cons (T_meas none 0 (by omega) (by omega) (by omega)) (Tr.nil (fun st h => h))

theorem init_S (N : Nat) (pre canon : Bool) : S N pre 1 N 1 0 none (init N canon) := by
  refine ⟨⟨?_, ?_, ?_, ?_, ?_, ?_, ?_, ?_, ?_⟩, rfl⟩
  · intro m hm; have : m = 0 := by omega
    subst this; simp [FreshK, init, expect_L_zero]
  · intro m hm hN; have : m = N := by omega
    subst this; simp [FreshK, init, expect_R_N]
  · intro m _ hp; simp [init] at hp
  · intro m _ _ hp; simp [init] at hp
  · simp [FreshK, init, expect_L_zero]
  · simp [FreshK, init, expect_R_N]
  · intro hp; simp [init] at hp
  · intro hp; simp [init] at hp
  · intro _ m; simp [init]

theorem setup_ok (N : Nat) (pre : Bool) : Tr N pre (S N pre 1 N 1 0 none) (setupFirst N) (B N pre) := by
  unfold setupFirst
  have e : (List.range N).reverse.map (fun n => Ev.upd n .first) = (List.range N).reverse.flatMap (fun n => [Ev.upd n .first]) := by
    induction (List.range N).reverse with
    | nil => rfl
    | cons x xs ih => simp [ih]
  rw [e]
  have := Tr.loopDown (N := N) (pre := pre) (fun i => S N pre 1 i 1 0 none) (fun n => [Ev.upd n .first]) N
    (fun i hi => Tr.cons (T_updFirst none i (b' := i) (by omega) (by omega) hi (by omega)) (Tr.nil (fun st h => h)))
  exact this.weaken (fun st h => h) (fun st h => S_mono h (by omega) (by omega) (by omega) (by omega))

theorem dmrgSweep_ok (N : Nat) (pre : Bool) (hN : 1 ≤ N) (m : Method) : Tr N pre (B N pre) (dmrgSweep m N) (B N pre) := by
  cases m with
  | one => exact dmrg1Sweep_ok N pre
  | two => exact dmrg2Sweep_ok N pre hN
  | onetwo => exact dmrg2Sweep_ok N pre hN

theorem dmrgSweeps_ok (N : Nat) (pre : Bool) (hN : 1 ≤ N) (ms : List Method) :
    Tr N pre (B N pre) (ms.flatMap (fun m => dmrgSweep m N ++ [.meas 0])) (B N pre) := by
  induction ms with
  | nil => exact Tr.nil (fun st h => h)
  | cons m ms ih =>
    rw [List.flatMap_cons]
    exact Tr.append (Tr.append (dmrgSweep_ok N pre hN m) (meas_ok N pre)) ih

theorem dmrgTrace_ok (N : Nat) (pre : Bool) (hN : 1 ≤ N) (ms : List Method) :
    Tr N pre (S N pre 1 N 1 0 none) (dmrgTrace N ms) (B N pre) := by
  unfold dmrgTrace
  exact Tr.append (Tr.append (setup_ok N pre) (meas_ok N pre)) (dmrgSweeps_ok N pre hN ms)

end YModel.Sched
