import YProofs.Lemmas.TruncSel
/-! The two stages of `truncate` satisfy the specification `ValidA`. -/
namespace YModel.Trunc

theorem capBy_le (o : Option Nat) (n : Nat) : capBy o n ≤ n := by
  cases o <;> simp [capBy]; omega

theorem capBy_le_some (d n : Nat) : capBy (some d) n ≤ d := by
  simp [capBy]; omega

theorem maxAbs_nonneg (l : List Int) : 0 ≤ maxAbs l := by
  induction l with
  | nil => simp [maxAbs]
  | cons v r ih => simp only [maxAbs]; omega

theorem natAbs_le_maxAbs {l : List Int} {v : Int} (h : v ∈ l) : (v.natAbs : Int) ≤ maxAbs l := by
  induction l with
  | nil => cases h
  | cons a r ih =>
    simp only [maxAbs]
    rcases List.mem_cons.mp h with rfl | h
    · omega
    · have := ih h; omega

/-- the threshold test is upward closed -/
theorem above_mono (τ : Tol) (mx : Int) {a b : Int} (ha : above τ mx a = true) (hab : a ≤ b) :
    above τ mx b = true := by
  unfold above at *
  simp only [decide_eq_true_eq] at *
  have : a * (τ.den : Int) ≤ b * (τ.den : Int) := Int.mul_le_mul_of_nonneg_right hab (Int.natCast_nonneg _)
  omega

/-- with a non-negative tolerance only strictly positive values pass -/
theorem above_pos (τ : Tol) {mx v : Int} (hmx : 0 ≤ mx) (h : above τ mx v = true) : 0 < v := by
  unfold above at h
  simp only [decide_eq_true_eq] at h
  have h1 : 0 ≤ (τ.num : Int) * mx := Int.mul_nonneg (Int.natCast_nonneg _) hmx
  have h2 : 0 < v * (τ.den : Int) := by omega
  apply Classical.byContradiction
  intro hn
  have hv : v ≤ 0 := by omega
  have : v * (τ.den : Int) ≤ 0 := Int.mul_nonpos_of_nonpos_of_nonneg hv (Int.natCast_nonneg _)
  omega

/-! ### stage 1 -/

theorem blockStage_fst (L : Limits) (t : Sector) (vs : List Int) : (blockStage L t vs).map (·.1) = vs :=
  topSel_map_fst id _ vs

theorem blockStage_marked (L : Limits) (t : Sector) (vs : List Int) :
    marked (blockStage L t vs) = capBy (L.dB t) (vs.countP (above (L.tolB t) (maxAbs vs))) := by
  unfold blockStage
  simp only
  rw [topSel_marked]
  have h1 := capBy_le (L.dB t) (vs.countP (above (L.tolB t) (maxAbs vs)))
  have h2 : vs.countP (above (L.tolB t) (maxAbs vs)) ≤ vs.length := List.countP_le_length
  omega

theorem blockStage_sep (L : Limits) (t : Sector) (vs : List Int) : Sep id (blockStage L t vs) :=
  topSel_sep id _ vs

theorem countP_fst {α : Type} (P : α → Bool) (ps : List (α × Bool)) :
    ps.countP (fun p => P p.1) = (ps.map (·.1)).countP P := by
  rw [List.countP_map]; rfl

theorem blockStage_above (L : Limits) (t : Sector) (vs : List Int) :
    ∀ p ∈ blockStage L t vs, p.2 = true → above (L.tolB t) (maxAbs vs) p.1 = true := by
  apply sep_all_above id (blockStage_sep L t vs) (above (L.tolB t) (maxAbs vs))
  · intro a b ha hab; exact above_mono _ _ ha hab
  · rw [countP_fst, blockStage_fst, blockStage_marked]
    exact capBy_le _ _

/-! ### stage 2 -/

theorem maxAbs_temp (cells : List (Int × Bool)) :
    maxAbs (cells.map temp) = maxAbs ((cells.filter (·.2)).map (·.1)) := by
  induction cells with
  | nil => rfl
  | cons c r ih =>
    obtain ⟨v, b⟩ := c
    cases b with
    | true => simp only [List.map_cons, List.filter_cons, temp, if_true, maxAbs, ih]
    | false =>
      simp only [List.map_cons, List.filter_cons, temp, Bool.false_eq_true, if_false, maxAbs, ih]
      have := maxAbs_nonneg ((r.filter (·.2)).map (·.1))
      simp only [Int.natAbs_zero]; omega

theorem above_temp (τ : Tol) {mx : Int} (hmx : 0 ≤ mx) (c : Int × Bool) :
    above τ mx (temp c) = (c.2 && above τ mx c.1) := by
  obtain ⟨v, b⟩ := c
  cases b with
  | true => simp [temp]
  | false =>
    simp only [temp, Bool.false_eq_true, if_false, Bool.false_and]
    cases h : above τ mx 0 with
    | false => rfl
    | true => have := above_pos τ hmx h; omega

theorem countP_above_temp (τ : Tol) {mx : Int} (hmx : 0 ≤ mx) (cells : List (Int × Bool)) :
    (cells.map temp).countP (above τ mx) = ((cells.filter (·.2)).map (·.1)).countP (above τ mx) := by
  rw [List.countP_map, List.countP_map, List.countP_filter]
  apply List.countP_congr
  intro c _
  simp only [Function.comp, above_temp τ hmx c, Bool.and_comm]

/-- survivors of the block stage in a flat block-masked list -/
abbrev surv (cells : List (Int × Bool)) : List Int := (cells.filter (·.2)).map (·.1)

theorem globalStage_fst (L : Limits) (cells : List (Int × Bool)) : (globalStage L cells).map (·.1) = cells :=
  topSel_map_fst temp _ cells

theorem globalStage_marked (L : Limits) (cells : List (Int × Bool)) :
    marked (globalStage L cells) = capBy L.dTotal ((surv cells).countP (above L.tol (maxAbs (surv cells)))) := by
  unfold globalStage
  simp only
  rw [topSel_marked, maxAbs_temp, countP_above_temp _ (maxAbs_nonneg _)]
  have h1 := capBy_le L.dTotal ((surv cells).countP (above L.tol (maxAbs (surv cells))))
  have h2 : (surv cells).countP (above L.tol (maxAbs (surv cells))) ≤ (surv cells).length := List.countP_le_length
  have h3 : (surv cells).length ≤ cells.length := by
    simp only [surv, List.length_map]; exact List.length_filter_le _ _
  simp only [surv] at *
  omega

theorem globalStage_sep (L : Limits) (cells : List (Int × Bool)) : Sep temp (globalStage L cells) :=
  topSel_sep temp _ cells

theorem globalStage_above (L : Limits) (cells : List (Int × Bool)) :
    ∀ x ∈ globalStage L cells, x.2 = true →
      x.1.2 = true ∧ above L.tol (maxAbs (surv cells)) x.1.1 = true := by
  have hmx := maxAbs_nonneg (surv cells)
  have key : ∀ x ∈ globalStage L cells, x.2 = true → above L.tol (maxAbs (surv cells)) (temp x.1) = true := by
    apply sep_all_above temp (globalStage_sep L cells) (fun c => above L.tol (maxAbs (surv cells)) (temp c))
    · intro a b ha hab; exact above_mono _ _ ha hab
    · rw [countP_fst (fun c => above L.tol (maxAbs (surv cells)) (temp c)), globalStage_fst, globalStage_marked]
      have : cells.countP (fun c => above L.tol (maxAbs (surv cells)) (temp c))
          = (surv cells).countP (above L.tol (maxAbs (surv cells))) := by
        rw [← countP_above_temp _ hmx, List.countP_map]; rfl
      rw [this]
      exact capBy_le _ _
  intro x hx hx2
  have := key x hx hx2
  rw [above_temp _ hmx] at this
  simpa using this

/-! ### reshaping -/

theorem chunks_length {α : Type} (ns : List Nat) (xs : List α) : (chunks ns xs).length = ns.length := by
  induction ns generalizing xs with
  | nil => rfl
  | cons n ns ih => simp [chunks, ih]

theorem chunks_flatten {α : Type} (X : List (List α)) : chunks (X.map List.length) X.flatten = X := by
  induction X with
  | nil => rfl
  | cons l r ih => simp [chunks, ih]

theorem chunks_map {α β : Type} (f : α → β) (ns : List Nat) (xs : List α) :
    chunks ns (xs.map f) = (chunks ns xs).map (List.map f) := by
  induction ns generalizing xs with
  | nil => rfl
  | cons n ns ih => simp [chunks, ← ih, List.map_take, List.map_drop]

theorem flatten_chunks {α : Type} (ns : List Nat) (xs : List α) (h : ns.sum = xs.length) :
    (chunks ns xs).flatten = xs := by
  induction ns generalizing xs with
  | nil =>
    simp at h
    have : xs = [] := List.eq_nil_of_length_eq_zero h.symm
    simp [chunks, this]
  | cons n ns ih =>
    simp only [chunks, List.flatten_cons]
    rw [ih]
    · exact List.take_append_drop n xs
    · simp only [List.sum_cons] at h
      rw [List.length_drop]; omega

theorem zipWith_map_snd {σ ν : Type} (S : List σ) (N : List ν) (h : S.length = N.length) (f : σ → Sector) :
    (List.zipWith (fun s cs => (f s, cs)) S N).map (·.2) = N := by
  induction S generalizing N with
  | nil => cases N with
    | nil => rfl
    | cons _ _ => cases h
  | cons a r ih => cases N with
    | nil => cases h
    | cons b q => simp only [List.zipWith_cons_cons, List.map_cons]; rw [ih q (by simpa using h)]

theorem mem_zipWith_of_map_eq {σ ν β γ : Type} (g : ν → β) (h : σ → β) (f : σ → ν → γ) :
    ∀ (S : List σ) (N : List ν), N.map g = S.map h →
      ∀ x ∈ List.zipWith f S N, ∃ a ∈ S, ∃ b ∈ N, g b = h a ∧ x = f a b := by
  intro S
  induction S with
  | nil => intro N _ x hx; simp at hx
  | cons a r ih =>
    intro N heq x hx
    cases N with
    | nil => simp at hx
    | cons b q =>
      simp only [List.map_cons, List.cons.injEq] at heq
      simp only [List.zipWith_cons_cons] at hx
      rcases List.mem_cons.mp hx with rfl | hx
      · exact ⟨a, List.mem_cons_self, b, List.mem_cons_self, heq.1, rfl⟩
      · obtain ⟨a', ha', b', hb', h1, h2⟩ := ih q heq.2 x hx
        exact ⟨a', List.mem_cons_of_mem _ ha', b', List.mem_cons_of_mem _ hb', h1, h2⟩

theorem zipWith_map_of_map_eq {σ ν β : Type} (g : ν → β) (h : σ → β) (f : σ → ν → σ)
    (hf : ∀ a b, g b = h a → f a b = a) :
    ∀ (S : List σ) (N : List ν), N.map g = S.map h → List.zipWith f S N = S := by
  intro S
  induction S with
  | nil => intro N _; simp
  | cons a r ih =>
    intro N heq
    cases N with
    | nil => simp at heq
    | cons b q =>
      simp only [List.map_cons, List.cons.injEq] at heq
      simp only [List.zipWith_cons_cons]
      rw [hf a b heq.1, ih q heq.2]

/-! ### the model satisfies the specification -/

/-- `(value, block bit)` of a cell -/
def Cell.proj (c : Cell) : Int × Bool := (c.val, c.blk)

theorem validBlock_of_proj {L : Limits} {t : Sector} {vs : List Int} {cs : List Cell}
    (h : cs.map Cell.proj = blockStage L t vs) : ValidBlock L t cs := by
  have hv : cs.map Cell.val = vs := by
    have := congrArg (List.map (·.1)) h
    rw [blockStage_fst, List.map_map] at this
    exact this
  have hmem : ∀ c ∈ cs, c.proj ∈ blockStage L t vs := by
    intro c hc; rw [← h]; exact List.mem_map_of_mem hc
  refine ⟨?_, ?_, ?_⟩
  · rw [hv, ← blockStage_marked, ← h]
    unfold marked
    rw [List.countP_map]; rfl
  · intro c hc hb
    rw [hv]
    exact blockStage_above L t vs c.proj (hmem c hc) hb
  · intro c hc d hd hcb hdb
    exact blockStage_sep L t vs c.proj (hmem c hc) d.proj (hmem d hd) hcb hdb

theorem toCell_proj (x : (Int × Bool) × Bool) : (toCell x).proj = x.1 := rfl

/-- structure of `truncate`: sector labels from `S`, cells = reshaped global stage -/
theorem truncate_parts (L : Limits) (S : Spectrum) :
    let B := blockMasks L S
    let G := globalStage L B.flatten
    let N := chunks (B.map List.length) (G.map toCell)
    truncate L S = List.zipWith (fun s cs => (s.1, cs)) S N ∧
    N.map (List.map Cell.proj) = B ∧ N.flatten = G.map toCell ∧ N.length = S.length := by
  intro B G N
  have hG : (G.map toCell).map Cell.proj = B.flatten := by
    rw [List.map_map]
    have : (Cell.proj ∘ toCell) = (fun x : (Int × Bool) × Bool => x.1) := by funext x; rfl
    rw [this]; exact globalStage_fst L B.flatten
  refine ⟨rfl, ?_, ?_, ?_⟩
  · show (chunks (B.map List.length) (G.map toCell)).map (List.map Cell.proj) = B
    rw [← chunks_map, hG, chunks_flatten]
  · apply flatten_chunks
    have h1 : (G.map toCell).length = B.flatten.length := by
      have := congrArg List.length hG; simpa using this
    rw [h1, List.length_flatten]
  · show (chunks (B.map List.length) (G.map toCell)).length = S.length
    rw [chunks_length]; simp [B, blockMasks]

theorem truncate_cells (L : Limits) (S : Spectrum) :
    (truncate L S).cells = (globalStage L (blockMasks L S).flatten).map toCell := by
  obtain ⟨h1, _, h3, h4⟩ := truncate_parts L S
  unfold Annotated.cells
  rw [h1, zipWith_map_snd _ _ h4.symm (fun s => s.1), h3]

theorem cells_surv (G : List ((Int × Bool) × Bool)) :
    ((G.map toCell).filter Cell.blk).map Cell.val = surv (G.map (·.1)) := by
  simp only [surv, List.filter_map, List.map_map]
  rfl

/-- **the model's annotated spectrum satisfies the specification** -/
theorem truncate_validA (L : Limits) (S : Spectrum) : ValidA L (truncate L S) := by
  have hcells := truncate_cells L S
  obtain ⟨h1, h2, _, _⟩ := truncate_parts L S
  have hsurv : (truncate L S).survivors = surv (blockMasks L S).flatten := by
    unfold Annotated.survivors
    rw [hcells, cells_surv, globalStage_fst]
  refine ⟨?_, ?_, ?_, ?_, ?_⟩
  · intro c hc hk
    rw [hcells] at hc
    obtain ⟨x, _, rfl⟩ := List.mem_map.mp hc
    simp only [toCell, Bool.and_eq_true] at hk ⊢
    exact hk.1
  · intro s hs
    rw [h1] at hs
    obtain ⟨a, _, cs, _, hab, rfl⟩ :=
      mem_zipWith_of_map_eq (List.map Cell.proj) (fun s : Sector × List Int => blockStage L s.1 s.2)
        (fun s cs => (s.1, cs)) S _ h2 s hs
    exact validBlock_of_proj hab
  · rw [hsurv, hcells, ← globalStage_marked]
    unfold marked
    rw [List.countP_map]
    apply List.countP_congr
    intro x hx
    simp only [Function.comp, toCell, Bool.and_eq_true]
    constructor
    · exact fun h => h.2
    · intro h
      exact ⟨(globalStage_above L _ x hx h).1, h⟩
  · intro c hc hk
    rw [hcells] at hc
    obtain ⟨x, hx, rfl⟩ := List.mem_map.mp hc
    simp only [toCell, Bool.and_eq_true] at hk
    rw [hsurv]
    exact (globalStage_above L _ x hx hk.2).2
  · intro c hc d hd hck hdb hdk
    rw [hcells] at hc hd
    obtain ⟨x, hx, rfl⟩ := List.mem_map.mp hc
    obtain ⟨y, hy, rfl⟩ := List.mem_map.mp hd
    simp only [toCell, Bool.and_eq_true, Bool.and_eq_false_iff] at hck hdb hdk
    have hy2 : y.2 = false := by
      rcases hdk with h | h
      · rw [hdb] at h; cases h
      · exact h
    have := globalStage_sep L _ x hx y hy hck.2 hy2
    simp only [temp, hck.1, hdb, if_true] at this
    exact this

theorem truncate_spectrum (L : Limits) (S : Spectrum) : (truncate L S).spectrum = S := by
  obtain ⟨h1, h2, _, _⟩ := truncate_parts L S
  unfold Annotated.spectrum
  rw [h1]
  rw [List.map_zipWith]
  apply zipWith_map_of_map_eq (List.map Cell.proj) (fun s : Sector × List Int => blockStage L s.1 s.2) _ _ S _ h2
  intro a cs hab
  have := congrArg (List.map (·.1)) hab
  rw [blockStage_fst, List.map_map] at this
  have hv : cs.map Cell.val = a.2 := this
  simp only [hv]

end YModel.Trunc
