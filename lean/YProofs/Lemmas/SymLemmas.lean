import YModel.Sym
import YModel.SymGen
/-! Helper lemmas for C19 (group laws of `canonFuse`, reduction of generated rules to it). -/
namespace YModel

theorem rawComp_nil (ss : List Int) (j : Nat) : rawComp [] ss j = 0 := by
  simp [rawComp]

theorem rawComp_cons (c : Charge) (cs : List Charge) (s : Int) (ss : List Int) (j : Nat) :
    rawComp (c :: cs) (s :: ss) j = s * c.getD j 0 + rawComp cs ss j := by
  simp [rawComp]

theorem rawComp_append (cs₁ cs₂ : List Charge) (ss₁ ss₂ : List Int) (j : Nat)
    (h : cs₁.length = ss₁.length) :
    rawComp (cs₁ ++ cs₂) (ss₁ ++ ss₂) j = rawComp cs₁ ss₁ j + rawComp cs₂ ss₂ j := by
  unfold rawComp
  rw [List.zipWith_append h, List.sum_append]

/-- a generated rule in canonical shape computes the canonical component -/
theorem comp_eq_canon (e : SymExpr) (j m : Nat) (cs : List Charge) (ss : List Int) (sn : Int)
    (h : e.modulus? j = some m) : e.comp cs ss sn j = canonComp m cs ss sn j := by
  induction e generalizing m with
  | base =>
    simp [SymExpr.modulus?] at h; subst h
    simp [SymExpr.comp, canonComp]
  | baseNoScale => simp [SymExpr.modulus?] at h
  | modAll e k ih =>
    simp only [SymExpr.modulus?] at h
    split at h
    · rename_i h0
      split at h
      · simp at h; subst h
        have := ih 0 h0
        simp only [SymExpr.comp, this, canonComp]
        simp
      · simp at h
    · simp at h
  | modCol e i k ih =>
    simp only [SymExpr.modulus?] at h
    split at h
    · rename_i m' hm'
      have := ih m' hm'
      by_cases hji : j = i
      · simp only [hji, if_true] at h
        split at h
        · rename_i hc
          simp at h; subst h
          obtain ⟨hm0, _⟩ := hc
          subst hm0
          simp only [SymExpr.comp, hji, if_true]
          rw [← hji, this]; simp [canonComp]
        · simp at h
      · simp only [hji, if_false] at h
        simp at h; subst h
        simp only [SymExpr.comp, hji, if_false, this]
    · simp at h
  | unknown s => simp [SymExpr.modulus?] at h

theorem moduli_some {nsym : Nat} {e : SymExpr} {ms : List Nat} (h : e.moduli nsym = some ms) :
    ms.length = nsym ∧ ∀ j, j < nsym → e.modulus? j = some (ms.getD j 0) := by
  unfold SymExpr.moduli at h
  split at h
  · rename_i hall
    simp at h; subst h
    refine ⟨by simp, ?_⟩
    intro j hj
    have hs : (e.modulus? j).isSome := by
      have := List.all_eq_true.mp hall j (by simp [hj])
      simpa using this
    obtain ⟨m, hm⟩ := Option.isSome_iff_exists.mp hs
    simp [List.getD, hj, hm]
  · simp at h

theorem fuse_eq_canon (d : SymDef) (ms : List Nat) (h : d.expr.moduli d.nsym = some ms)
    (cs : List Charge) (ss : List Int) (sn : Int) :
    d.fuse cs ss sn = canonFuse ms cs ss sn := by
  obtain ⟨hl, hm⟩ := moduli_some h
  unfold SymDef.fuse SymExpr.eval canonFuse
  rw [hl]
  apply List.map_congr_left
  intro j hj
  simp at hj
  exact comp_eq_canon _ _ _ _ _ _ (hm j hj)

theorem canonFuse_length (ms : List Nat) (cs : List Charge) (ss : List Int) (sn : Int) :
    (canonFuse ms cs ss sn).length = ms.length := by simp [canonFuse]

theorem canonFuse_getD (ms : List Nat) (cs : List Charge) (ss : List Int) (sn : Int) (j : Nat) :
    (canonFuse ms cs ss sn).getD j 0 = if j < ms.length then canonComp (ms.getD j 0) cs ss sn j else 0 := by
  unfold canonFuse
  by_cases hj : j < ms.length
  · simp [List.getD, hj]
  · simp [List.getD, hj]

/-- two charges of equal length with equal components are equal -/
theorem charge_ext (a b : Charge) (hl : a.length = b.length)
    (h : ∀ j, j < a.length → a.getD j 0 = b.getD j 0) : a = b := by
  apply List.ext_getElem hl
  intro i h1 h2
  have := h i h1
  simpa [List.getD, h1, h2] using this

end YModel
