import YModel.Geometry
/-! Lemmas about the insertion-ordered dictionaries and the `Lattice` container model (C20). Core Lean only. -/
namespace YModel.Geo

theorem alGet_alSet {κ ν} [DecidableEq κ] (k k' : κ) (v : ν) (l : List (κ × ν)) :
    alGet k' (alSet k v l) = if k' = k then some v else alGet k' l := by
  induction l with
  | nil =>
    simp only [alSet, alGet]
    by_cases h : k = k'
    · subst h; simp
    · have : ¬ k' = k := fun e => h e.symm
      simp [h, this]
  | cons kv rest ih =>
    obtain ⟨k0, v0⟩ := kv
    simp only [alSet]
    by_cases h0 : k0 = k
    · subst h0
      simp only [if_true, alGet]
      by_cases h1 : k0 = k'
      · subst h1; simp
      · have : ¬ k' = k0 := fun e => h1 e.symm
        simp [h1, this]
    · simp only [h0, if_false, alGet]
      by_cases h1 : k0 = k'
      · subst h1
        have : ¬ k0 = k := h0
        simp [this]
      · simp only [h1, if_false]
        exact ih

/-- a site is in the patch -/
def Lat.isPatched (c : Lat) (s : Site) : Bool := (alGet s c.patch).isSome

/-- the value `apply_patch` writes to index `i`: that of the last patched site with this index -/
def lastPatch (G : Geom) : List (Site × Option Obj) → Index → Option (Option Obj)
  | [], _ => none
  | (s, v) :: rest, i =>
    match lastPatch G rest i with
    | some w => some w
    | none =>
      match G.site2index s with
      | .ok j => if i = j then some v else none
      | .error _ => none

theorem applyPatchGo_get (G : Geom) (patch : List (Site × Option Obj)) :
    ∀ (data data' : List (Index × Option Obj)) (i : Index), applyPatchGo G patch data = .ok data' →
      alGet i data' = match lastPatch G patch i with
        | some w => some w
        | none => alGet i data := by
  induction patch with
  | nil =>
    intro data data' i h
    simp only [applyPatchGo] at h
    cases h
    simp [lastPatch]
  | cons sv rest ih =>
    intro data data' i h
    obtain ⟨s, v⟩ := sv
    simp only [applyPatchGo] at h
    cases hj : G.site2index s with
    | error e => rw [hj] at h; exact absurd h (by simp)
    | ok j =>
      rw [hj] at h
      simp only at h
      rw [ih _ _ i h]
      simp only [lastPatch, hj]
      cases lastPatch G rest i with
      | some w => rfl
      | none => simp only [alGet_alSet]; split <;> rfl

end YModel.Geo
