import YModel.Ncon
/-! Soundness of the finite judgement over parity labellings (`Ncon.judge`), and the Z₂ identities
behind jump moves. Core Lean only. -/
namespace YModel.Ncon

theorem mem_allBools : ∀ l : List Bool, l ∈ allBools l.length := by
  intro l
  induction l with
  | nil => simp [allBools]
  | cons b bs ih =>
    simp only [List.length_cons, allBools, List.mem_flatMap]
    exact ⟨bs, ih, by cases b <;> simp⟩

theorem labOf_map (lab : Edge → Bool) (e : Edge) : ∀ edges : List Edge, e ∈ edges →
    labOf edges (edges.map lab) e = lab e := by
  intro edges
  induction edges with
  | nil => intro h; simp at h
  | cons x xs ih =>
    intro h
    unfold labOf
    simp only [List.map_cons, List.zip_cons_cons, List.lookup_cons]
    by_cases hx : e = x
    · subst hx; simp
    · have : (e == x) = false := by simpa using hx
      rw [this]
      have hin : e ∈ xs := by
        rcases List.mem_cons.mp h with h | h
        · exact absurd h hx
        · exact h
      exact ih hin

theorem initTen_congr (lab lab' : Edge → Bool) (ls : List Edge) (h : ∀ e ∈ ls, lab e = lab' e) :
    initTen lab ls = initTen lab' ls := by
  unfold initTen
  rw [List.map_congr_left (f := fun e => (e, lab e)) (g := fun e => (e, lab' e)) (fun e he => by rw [h e he]),
    List.map_congr_left (f := lab) (g := lab') h]

theorem initStateAux_congr (lab lab' : Edge → Bool) : ∀ (inds : List (List Edge)) (i : Nat),
    (∀ e ∈ inds.flatten, lab e = lab' e) → initStateAux lab i inds = initStateAux lab' i inds := by
  intro inds
  induction inds with
  | nil => intro i _; rfl
  | cons ls rest ih =>
    intro i h
    unfold initStateAux
    rw [initTen_congr lab lab' ls (fun e he => h e (by simp [he])), ih (i + 1) (fun e he => h e (by
      simp only [List.flatten_cons, List.mem_append]; exact Or.inr he))]

/-- the executed sign depends on the labelling only through the edges of the network -/
theorem execOdd_congr (inds : List (List Edge)) (cmds : List Cmd) (lab lab' : Edge → Bool)
    (h : ∀ e ∈ inds.flatten, lab e = lab' e) : execOdd inds cmds lab = execOdd inds cmds lab' := by
  unfold execOdd initState
  rw [initStateAux_congr lab lab' inds 0 h]

theorem specOdd_congr (swaps : List (Edge × Edge)) (lab lab' : Edge → Bool)
    (h : ∀ s ∈ swaps, lab s.1 = lab' s.1 ∧ lab s.2 = lab' s.2) : specOdd lab swaps = specOdd lab' swaps := by
  unfold specOdd
  rw [List.map_congr_left (fun s hs => by rw [(h s hs).1, (h s hs).2])]

/-- **soundness of `judge`**: if the finite enumeration finds no disagreeing labelling, the command
list realises the requested swaps for EVERY parity labelling `Edge → Bool` of the network. -/
theorem judge_sound (inds : List (List Edge)) (swaps : List (Edge × Edge)) (cmds : List Cmd)
    (hj : judge inds swaps cmds = none) (lab : Edge → Bool) :
    execOdd inds cmds lab = .ok (specOdd lab swaps) := by
  unfold judge at hj
  simp only [] at hj
  split at hj
  · exact absurd hj (by simp)
  · rename_i hsw
    have hsw' : ∀ s ∈ swaps, s.1 ∈ edgesOf inds ∧ s.2 ∈ edgesOf inds := by
      have : swaps.all (fun s => (edgesOf inds).contains s.1 && (edgesOf inds).contains s.2) = true := by
        simpa using hsw
      intro s hs
      have := List.all_eq_true.mp this s hs
      simpa using this
    rw [List.find?_eq_none] at hj
    have hmem := mem_allBools ((edgesOf inds).map lab)
    rw [List.length_map] at hmem
    have hag := hj _ hmem
    have hag' : agrees inds swaps cmds (labOf (edgesOf inds) ((edgesOf inds).map lab)) = true := by
      simpa using hag
    have hedge : ∀ e ∈ inds.flatten, labOf (edgesOf inds) ((edgesOf inds).map lab) e = lab e := by
      intro e he
      exact labOf_map lab e _ (by unfold edgesOf; exact List.mem_eraseDups.mpr he)
    have hedge' : ∀ e ∈ edgesOf inds, labOf (edgesOf inds) ((edgesOf inds).map lab) e = lab e :=
      fun e he => labOf_map lab e _ he
    unfold agrees at hag'
    rw [execOdd_congr inds cmds _ lab hedge,
      specOdd_congr swaps _ lab (fun s hs => ⟨hedge' _ (hsw' s hs).1, hedge' _ (hsw' s hs).2⟩)] at hag'
    cases hex : execOdd inds cmds lab with
    | error e => rw [hex] at hag'; exact absurd hag' (by simp)
    | ok s =>
      rw [hex] at hag'
      have : s = specOdd lab swaps := by simpa using hag'
      rw [this]

/-! ### Z₂ identities behind the jump move -/

theorem xorAll_append (a b : List Bool) : xorAll (a ++ b) = xor (xorAll a) (xorAll b) := by
  induction a with
  | nil => simp [xorAll]
  | cons x xs ih => simp only [List.cons_append, xorAll, List.foldr_cons] at *; rw [ih]; cases x <;> simp

/-- AND distributes over the XOR of a list -/
theorem and_xorAll (n : Bool) (l : List Bool) : (xorAll l && n) = xorAll (l.map (· && n)) := by
  induction l with
  | nil => simp [xorAll]
  | cons x xs ih =>
    simp only [List.map_cons, xorAll, List.foldr_cons] at *
    rw [← ih]; cases x <;> cases n <;> simp

end YModel.Ncon
