import YProofs.Lemmas.NconLemmas
/-! Invariants and per-command semantics of the ncon command executor (`Ncon.step`): re-indexing
commands only move legs around (`step_consistent`), a `swap_gate` command contributes exactly the
specified sign of the edge pairs it stands for (`swapOdd_spec`). Core Lean only. -/
namespace YModel.Ncon

theorem removeIdxsAux_sublist {α} (ax : List Nat) : ∀ (l : List α) (i : Nat), (removeIdxsAux ax i l).Sublist l := by
  intro l
  induction l with
  | nil => intro i; exact List.Sublist.slnil
  | cons x xs ih =>
    intro i
    unfold removeIdxsAux
    split
    · exact List.Sublist.cons _ (ih _)
    · exact List.Sublist.cons_cons _ (ih _)

theorem removeIdxs_sublist {α} (ax : List Nat) (l : List α) : (removeIdxs ax l).Sublist l :=
  removeIdxsAux_sublist ax l 0

/-- every leg carries the parity that the labelling gives to its edge -/
def Consistent (lab : Edge → Bool) (st : State) : Prop := ∀ p ∈ st, ∀ leg ∈ p.2.legs, leg.2 = lab leg.1

theorem pop_ok {st : State} {k : Nat} {t : Ten} {st' : State} (h : pop st k = .ok (t, st')) :
    (k, t) ∈ st ∧ ∀ p ∈ st', p ∈ st := by
  unfold pop at h
  split at h
  · rename_i t' hl
    injection h with h
    injection h with h1 h2
    subst h1 h2
    refine ⟨?_, fun p hp => (List.mem_filter.mp hp).1⟩
    induction st with
    | nil => simp at hl
    | cons q qs ih =>
      obtain ⟨k', t'⟩ := q
      rw [List.lookup_cons] at hl
      split at hl
      · rename_i hk
        injection hl with hl
        have : k = k' := by simpa using hk
        subst this; subst hl; exact List.mem_cons_self ..
      · exact List.mem_cons_of_mem _ (ih hl)
  · exact absurd h (by simp)

theorem initState_consistent (lab : Edge → Bool) (inds : List (List Edge)) : Consistent lab (initState lab inds) := by
  unfold initState
  suffices h : ∀ i, Consistent lab (initStateAux lab i inds) from h 0
  induction inds with
  | nil => intro i p hp; simp [initStateAux] at hp
  | cons ls rest ih =>
    intro i p hp
    unfold initStateAux at hp
    rcases List.mem_cons.mp hp with rfl | hp
    · intro leg hleg
      simp only [initTen, List.mem_map] at hleg
      obtain ⟨e, _, rfl⟩ := hleg
      rfl
    · exact ih (i + 1) p hp

end YModel.Ncon
namespace YModel.Ncon

theorem mapM_getLeg_mem (a : Ten) : ∀ (axes : List Nat) (legs : List PLeg), axes.mapM (getLeg a) = .ok legs →
    ∀ leg ∈ legs, leg ∈ a.legs := by
  intro axes
  induction axes with
  | nil =>
    intro legs h leg hleg
    simp [List.mapM_nil, pure, Except.pure] at h
    subst h; simp at hleg
  | cons x xs ih =>
    intro legs h leg hleg
    rw [List.mapM_cons] at h
    cases h1 : getLeg a x with
    | error e => simp [h1, bind, Except.bind] at h
    | ok p =>
      cases h2 : xs.mapM (getLeg a) with
      | error e => simp [h1, h2, bind, Except.bind] at h
      | ok ps =>
        simp [h1, h2, bind, Except.bind, pure, Except.pure] at h
        subst h
        rcases List.mem_cons.mp hleg with rfl | hleg
        · unfold getLeg at h1
          split at h1
          · rename_i y hy
            injection h1 with h1; subst h1
            exact List.mem_of_getElem? hy
          · exact absurd h1 (by simp)
        · exact ih ps h2 leg hleg

/-- **re-indexing commands only move legs around**: every command keeps, for every leg of every
tensor, the parity that the labelling gives to its edge (so a swap executed after a `tensordot`,
`trace` or `transpose` sees the same parities as before it). -/
theorem step_consistent (lab : Edge → Bool) (st st' : State) (c : Cmd) (s : Bool)
    (hc : Consistent lab st) (h : step st c = .ok (s, st')) : Consistent lab st' := by
  cases c with
  | tensordot tout t1 t2 ax1 ax2 =>
    simp only [step] at h
    cases h1 : pop st t1 with
    | error e => simp [h1, bind, Except.bind] at h
    | ok r1 =>
      obtain ⟨a, st1⟩ := r1
      cases h2 : pop st1 t2 with
      | error e => simp [h1, h2, bind, Except.bind] at h
      | ok r2 =>
        obtain ⟨b, st2⟩ := r2
        cases h3 : checkMatch a b ax1 ax2 with
        | error e => simp [h1, h2, h3, bind, Except.bind] at h
        | ok u =>
          simp [h1, h2, h3, bind, Except.bind, pure, Except.pure] at h
          obtain ⟨_, rfl⟩ := h
          have ⟨ha, hs1⟩ := pop_ok h1
          have ⟨hb, hs2⟩ := pop_ok h2
          intro p hp
          rcases List.mem_cons.mp hp with rfl | hp
          · intro leg hleg
            rcases List.mem_append.mp hleg with hl | hl
            · exact hc _ ha leg ((removeIdxs_sublist _ _).subset hl)
            · exact hc _ (hs1 _ hb) leg ((removeIdxs_sublist _ _).subset hl)
          · exact hc p (hs1 _ (hs2 _ hp))
  | swapGate tout tin axes =>
    simp only [step] at h
    cases h1 : pop st tin with
    | error e => simp [h1, bind, Except.bind] at h
    | ok r1 =>
      obtain ⟨a, st1⟩ := r1
      cases h2 : swapOdd a axes with
      | error e => simp [h1, h2, bind, Except.bind] at h
      | ok u =>
        simp [h1, h2, bind, Except.bind, pure, Except.pure] at h
        obtain ⟨_, rfl⟩ := h
        have ⟨ha, hs1⟩ := pop_ok h1
        intro p hp
        rcases List.mem_cons.mp hp with rfl | hp
        · exact fun leg hleg => hc (tin, a) ha leg hleg
        · exact hc p (hs1 _ hp)
  | paritySign jumped d dlegs =>
    simp only [step] at h
    cases h1 : pop st jumped with
    | error e => simp [h1, bind, Except.bind] at h
    | ok r1 =>
      cases h2 : pop st d with
      | error e => simp [h1, h2, bind, Except.bind] at h
      | ok r2 =>
        cases h3 : chargeOdd r2.1 r1.1.par dlegs with
        | error e => simp [h1, h2, h3, bind, Except.bind] at h
        | ok u =>
          simp [h1, h2, h3, bind, Except.bind, pure, Except.pure] at h
          obtain ⟨_, rfl⟩ := h
          exact hc
  | trace tout tin ax1 ax2 =>
    simp only [step] at h
    cases h1 : pop st tin with
    | error e => simp [h1, bind, Except.bind] at h
    | ok r1 =>
      obtain ⟨a, st1⟩ := r1
      cases h2 : checkMatch a a ax1 ax2 with
      | error e => simp [h1, h2, bind, Except.bind] at h
      | ok u =>
        simp [h1, h2, bind, Except.bind, pure, Except.pure] at h
        obtain ⟨_, rfl⟩ := h
        have ⟨ha, hs1⟩ := pop_ok h1
        intro p hp
        rcases List.mem_cons.mp hp with rfl | hp
        · intro leg hleg
          exact hc _ ha leg ((removeIdxs_sublist _ _).subset hleg)
        · exact hc p (hs1 _ hp)
  | transpose tout tin axes =>
    simp only [step] at h
    cases h1 : pop st tin with
    | error e => simp [h1, bind, Except.bind] at h
    | ok r1 =>
      obtain ⟨a, st1⟩ := r1
      by_cases hperm : (axes.length == a.legs.length && isPermOfRange axes) = true
      · cases h2 : axes.mapM (getLeg a) with
        | error e => simp [h1, h2, hperm, bind, Except.bind] at h
        | ok legs =>
          simp [h1, h2, hperm, bind, Except.bind, pure, Except.pure] at h
          obtain ⟨_, rfl⟩ := h
          have ⟨ha, hs1⟩ := pop_ok h1
          intro p hp
          rcases List.mem_cons.mp hp with rfl | hp
          · intro leg hleg
            exact hc _ ha leg (mapM_getLeg_mem a axes legs h2 leg hleg)
          · exact hc p (hs1 _ hp)
      · simp [h1, hperm, bind, Except.bind, throw, throwThe, MonadExceptOf.throw] at h

theorem runFrom_consistent (lab : Edge → Bool) : ∀ (cmds : List Cmd) (acc : Bool) (st : State) (s : Bool) (st' : State),
    Consistent lab st → runFrom acc st cmds = .ok (s, st') → Consistent lab st' := by
  intro cmds
  induction cmds with
  | nil =>
    intro acc st s st' hc h
    simp [runFrom] at h
    obtain ⟨_, rfl⟩ := h; exact hc
  | cons c cs ih =>
    intro acc st s st' hc h
    simp only [runFrom] at h
    cases h1 : step st c with
    | error e => simp [h1, bind, Except.bind] at h
    | ok r =>
      obtain ⟨s1, st1⟩ := r
      simp [h1, bind, Except.bind] at h
      exact ih _ _ _ _ (step_consistent lab st st1 c s1 hc h1) h

end YModel.Ncon
namespace YModel.Ncon

/-- pointwise relation between two lists of equal length -/
inductive Forall2 {α β : Type} (R : α → β → Prop) : List α → List β → Prop
  | nil : Forall2 R [] []
  | cons {a b as bs} : R a b → Forall2 R as bs → Forall2 R (a :: as) (b :: bs)

/-- leg `x` of `t` belongs to edge `e` -/
def legEdge (t : Ten) (x : Nat) (e : Edge) : Prop := (t.legs[x]?).map (·.1) = some e

theorem getLeg_ok {t : Ten} {x : Nat} {p : PLeg} (h : getLeg t x = .ok p) : t.legs[x]? = some p := by
  unfold getLeg at h
  split at h
  · rename_i y hy; injection h with h; subst h; exact hy
  · exact absurd h (by simp)

theorem swapFold_spec (lab : Edge → Bool) (t : Ten) (hc : ∀ leg ∈ t.legs, leg.2 = lab leg.1) :
    ∀ (ps : List (Nat × Nat)) (acc s : Bool),
      ps.foldlM (fun acc (p : Nat × Nat) => do
        let a ← getLeg t p.1
        let b ← getLeg t p.2
        pure (xor acc (a.2 && b.2))) acc = .ok s →
      ∃ es : List (Edge × Edge), Forall2 (fun p e => legEdge t p.1 e.1 ∧ legEdge t p.2 e.2) ps es ∧
        s = xor acc (specOdd lab es) := by
  intro ps
  induction ps with
  | nil =>
    intro acc s h
    simp [List.foldlM, pure, Except.pure] at h
    exact ⟨[], Forall2.nil, by simp [specOdd, xorAll, h]⟩
  | cons p ps ih =>
    intro acc s h
    rw [List.foldlM_cons] at h
    cases h1 : getLeg t p.1 with
    | error e => simp [h1, bind, Except.bind] at h
    | ok a =>
      cases h2 : getLeg t p.2 with
      | error e => simp [h1, h2, bind, Except.bind] at h
      | ok b =>
        simp only [h1, h2, bind, Except.bind, pure, Except.pure] at h
        obtain ⟨es, hes, hs⟩ := ih _ _ h
        have ha := getLeg_ok h1
        have hb := getLeg_ok h2
        refine ⟨(a.1, b.1) :: es, Forall2.cons ⟨by simp [legEdge, ha], by simp [legEdge, hb]⟩ hes, ?_⟩
        rw [hs, hc a (List.mem_of_getElem? ha), hc b (List.mem_of_getElem? hb)]
        simp only [specOdd, List.map_cons, xorAll, List.foldr_cons, Bool.xor_assoc]

/-- **semantics of the `swap_gate` command = the specification of the swaps it stands for**: on a
tensor whose legs carry the parities of their edges, `swap_gate(t, axes)` contributes exactly
`∏ (−1)^{p(e₁)p(e₂)}` over the edge pairs `(e₁, e₂)` that the listed leg pairs belong to. -/
theorem swapOdd_spec (lab : Edge → Bool) (t : Ten) (hc : ∀ leg ∈ t.legs, leg.2 = lab leg.1)
    (axes : List Nat) (s : Bool) (h : swapOdd t axes = .ok s) :
    ∃ ps es, pairUp axes = some ps ∧
      Forall2 (fun (p : Nat × Nat) (e : Edge × Edge) => legEdge t p.1 e.1 ∧ legEdge t p.2 e.2) ps es ∧
      s = specOdd lab es := by
  unfold swapOdd at h
  cases hp : pairUp axes with
  | none => simp [hp] at h
  | some ps =>
    simp only [hp] at h
    obtain ⟨es, hes, hs⟩ := swapFold_spec lab t hc ps false s h
    exact ⟨ps, es, rfl, hes, by simpa using hs⟩

/-- semantics of `parity_sign`: the factor `(−1)^{P_T · p(d)}` for every listed leg `d` -/
theorem chargeOdd_spec (t : Ten) (pn : Bool) : ∀ (dlegs : List Nat) (acc s : Bool),
    dlegs.foldlM (fun acc l => do
      let a ← getLeg t l
      pure (xor acc (a.2 && pn))) acc = .ok s →
    ∃ ls : List PLeg, Forall2 (fun l p => t.legs[l]? = some p) dlegs ls ∧
      s = xor acc (xorAll (ls.map (fun p => p.2 && pn))) := by
  intro dlegs
  induction dlegs with
  | nil =>
    intro acc s h
    simp [List.foldlM, pure, Except.pure] at h
    exact ⟨[], Forall2.nil, by simp [xorAll, h]⟩
  | cons l ls ih =>
    intro acc s h
    rw [List.foldlM_cons] at h
    cases h1 : getLeg t l with
    | error e => simp [h1, bind, Except.bind] at h
    | ok a =>
      simp only [h1, bind, Except.bind, pure, Except.pure] at h
      obtain ⟨ps, hps, hs⟩ := ih _ _ h
      refine ⟨a :: ps, Forall2.cons (getLeg_ok h1) hps, ?_⟩
      rw [hs]
      simp only [List.map_cons, xorAll, List.foldr_cons, Bool.xor_assoc]

end YModel.Ncon
