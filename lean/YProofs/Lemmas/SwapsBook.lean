import YModel.ExpectSpec
/-! Lemmas about the bookkeeping model of `DoublePepsTensor.add_charge_swaps_` (C12).  Core Lean only. -/
namespace YModel.Expect
open YModel

/-! ### reduction -/

theorem red_idem (m : Nat) (x : Int) : red m (red m x) = red m x := by
  unfold red; split
  · rfl
  · exact Int.emod_emod_of_dvd x (Int.dvd_refl _)

theorem red_zero (m : Nat) : red m 0 = 0 := by unfold red; split <;> simp

theorem red_add_congr (m : Nat) {x y : Int} (c : Int) (h : red m x = red m y) : red m (x + c) = red m (y + c) := by
  unfold red at *
  split
  · rename_i hm; simp only [hm, if_true] at h; rw [h]
  · rename_i hm; simp only [hm, if_false] at h
    rw [Int.add_emod, h, ← Int.add_emod]

theorem red_add_red (m : Nat) (x c : Int) : red m (red m x + c) = red m (x + c) :=
  red_add_congr m c (red_idem m x)

/-! ### lookup in the association list -/

theorem lookup_filter_ne (sw : Swaps) (ax a : String) (h : a ≠ ax) :
    (sw.filter (fun e => e.1 != ax)).lookup a = sw.lookup a := by
  induction sw with
  | nil => rfl
  | cons e sw ih =>
    obtain ⟨k, t⟩ := e
    by_cases hk : k = ax
    · subst hk
      have : (a == k) = false := by simpa using h
      simp [List.lookup_cons, this, ih]
    · have hk' : (k != ax) = true := by simpa using hk
      simp only [List.filter_cons, hk', if_true, List.lookup_cons, ih]

theorem lookup_filter_self (sw : Swaps) (ax : String) :
    (sw.filter (fun e => e.1 != ax)).lookup ax = none := by
  induction sw with
  | nil => rfl
  | cons e sw ih =>
    obtain ⟨k, t⟩ := e
    by_cases hk : k = ax
    · subst hk; simp [ih]
    · have hk' : (k != ax) = true := by simpa using hk
      have : (ax == k) = false := by simpa using fun h : ax = k => hk h.symm
      simp only [List.filter_cons, hk', if_true, List.lookup_cons, this, ih]

theorem lookup_append_single (sw : Swaps) (ax a : String) (t : Charge) :
    (sw ++ [(ax, t)]).lookup a = match sw.lookup a with
      | some x => some x
      | none => if a = ax then some t else none := by
  induction sw with
  | nil =>
    by_cases h : a = ax
    · subst h; simp
    · have : (a == ax) = false := by simpa using h
      simp [List.lookup_cons, this, h]
  | cons e sw ih =>
    obtain ⟨k, x⟩ := e
    simp only [List.cons_append, List.lookup_cons]
    cases hak : a == k
    · simpa using ih
    · rfl

/-- the entry of another axis is untouched -/
theorem val_addOne_ne (ms : List Nat) (sw : Swaps) (ax a : String) (ch : Charge) (h : a ≠ ax) :
    val ms (addOne ms sw ax ch) a = val ms sw a := by
  unfold val addOne
  split
  · rw [lookup_append_single, lookup_filter_ne _ _ _ h]
    cases sw.lookup a <;> simp [h]
  · rw [lookup_filter_ne _ _ _ h]

theorem getD_replicate_zero (n j : Nat) : (List.replicate n (0 : Int)).getD j 0 = 0 := by
  simp only [List.getD_eq_getElem?_getD, List.getElem?_replicate]
  split <;> rfl

theorem addMod_getD (ms : List Nat) (a b : Charge) (j : Nat) (hj : j < ms.length) :
    (addMod ms a b).getD j 0 = red (ms.getD j 0) (a.getD j 0 + b.getD j 0) := by
  unfold addMod
  simp [List.getD_eq_getElem?_getD, List.getElem?_map, List.getElem?_range hj]

/-- **the touched axis accumulates the charge** (componentwise, up to the reduction of the symmetry) -/
theorem val_addOne_self (ms : List Nat) (sw : Swaps) (ax : String) (ch : Charge) (j : Nat) (hj : j < ms.length) :
    red (ms.getD j 0) ((val ms (addOne ms sw ax ch) ax).getD j 0) =
      red (ms.getD j 0) ((val ms sw ax).getD j 0 + ch.getD j 0) := by
  have hz0 : (zeroCharge ms).getD j 0 = 0 := by unfold zeroCharge; exact getD_replicate_zero _ _
  -- the new charge is the accumulated one, up to reduction
  have key : red (ms.getD j 0) ((newCharge ms sw ax ch).getD j 0) =
      red (ms.getD j 0) ((val ms sw ax).getD j 0 + ch.getD j 0) := by
    unfold newCharge val
    cases hl : sw.lookup ax with
    | some t => simp only [Option.getD_some]; rw [addMod_getD ms t ch j hj, red_idem]
    | none => simp only [Option.getD_none]; rw [hz0]; simp
  rw [← key]
  unfold val addOne
  by_cases hz : newCharge ms sw ax ch = zeroCharge ms
  · have : (newCharge ms sw ax ch != zeroCharge ms) = false := by simp [hz]
    simp only [this, Bool.false_eq_true, if_false, lookup_filter_self, Option.getD_none]
    rw [hz]
  · have : (newCharge ms sw ax ch != zeroCharge ms) = true := by simp [hz]
    simp only [this, if_true, lookup_append_single, lookup_filter_self, Option.getD_some]

/-! ### zero entries are never stored -/

def NoZero (ms : List Nat) (sw : Swaps) : Prop := ∀ e ∈ sw, e.2 ≠ zeroCharge ms

theorem addOne_noZero (ms : List Nat) (sw : Swaps) (ax : String) (ch : Charge) (h : NoZero ms sw) :
    NoZero ms (addOne ms sw ax ch) := by
  unfold addOne
  intro e he
  split at he
  · rename_i hne
    rcases List.mem_append.mp he with h1 | h1
    · exact h e (List.mem_filter.mp h1).1
    · simp only [List.mem_singleton] at h1
      subst h1
      simpa using hne
  · exact h e (List.mem_filter.mp he).1

/-- keys stay distinct (`swaps` is a dict) -/
theorem addOne_nodup (ms : List Nat) (sw : Swaps) (ax : String) (ch : Charge) (h : (sw.map (·.1)).Nodup) :
    ((addOne ms sw ax ch).map (·.1)).Nodup := by
  unfold addOne
  have hf : ((sw.filter (fun e => e.1 != ax)).map (·.1)).Nodup :=
    (List.filter_sublist.map _).nodup h
  split
  · rw [List.map_append, List.nodup_append]
    refine ⟨hf, by simp, ?_⟩
    intro a ha b hb
    simp only [List.map_cons, List.map_nil, List.mem_singleton] at hb
    subst hb
    obtain ⟨e, he, rfl⟩ := List.mem_map.mp ha
    have := (List.mem_filter.mp he).2
    simpa using this
  · exact hf

/-! ### one call -/

theorem addChargeSwaps_valid (ms : List Nat) (ch : Charge) :
    ∀ (axes : List String) (sw : Swaps), (∀ ax ∈ axes, validAxes.contains ax = true) →
      (addChargeSwaps ms sw ch axes).2 = false
  | [], _, _ => rfl
  | ax :: rest, sw, h => by
    have h1 : validAxes.contains ax = true := h ax (List.mem_cons_self)
    simp only [addChargeSwaps, h1, if_true]
    exact addChargeSwaps_valid ms ch rest _ (fun a ha => h a (List.mem_cons_of_mem _ ha))

/-- **Z-module accumulation per axis**: after `add_charge_swaps_(charge, axes)` every axis `a` holds (up to the
reduction of the symmetry) its previous charge plus `charge` times the number of times `a` is listed. -/
theorem addChargeSwaps_accumulate (ms : List Nat) (ch : Charge) (a : String) (j : Nat) (hj : j < ms.length) :
    ∀ (axes : List String) (sw : Swaps), (∀ ax ∈ axes, validAxes.contains ax = true) →
      red (ms.getD j 0) ((val ms (addChargeSwaps ms sw ch axes).1 a).getD j 0) =
        red (ms.getD j 0) ((val ms sw a).getD j 0 + (axes.count a : Int) * ch.getD j 0)
  | [], sw, _ => by simp [addChargeSwaps]
  | ax :: rest, sw, h => by
    have h1 : validAxes.contains ax = true := h ax (List.mem_cons_self)
    have ih := addChargeSwaps_accumulate ms ch a j hj rest (addOne ms sw ax ch)
      (fun b hb => h b (List.mem_cons_of_mem _ hb))
    simp only [addChargeSwaps, h1, if_true]
    rw [ih]
    by_cases hax : a = ax
    · subst hax
      rw [List.count_cons_self]
      have := red_add_congr (ms.getD j 0) ((List.count a rest : Int) * ch.getD j 0) (val_addOne_self ms sw a ch j hj)
      rw [this]
      congr 1
      push_cast
      rw [Int.add_mul, Int.one_mul]
      omega
    · have hne : ax ≠ a := fun h => hax h.symm
      rw [val_addOne_ne ms sw ax a ch hax, List.count_cons_of_ne hne]

theorem addChargeSwaps_noZero (ms : List Nat) (ch : Charge) :
    ∀ (axes : List String) (sw : Swaps), NoZero ms sw → NoZero ms (addChargeSwaps ms sw ch axes).1
  | [], _, h => h
  | ax :: rest, sw, h => by
    simp only [addChargeSwaps]
    split
    · exact addChargeSwaps_noZero ms ch rest _ (addOne_noZero ms sw ax ch h)
    · exact h

theorem addChargeSwaps_nodup (ms : List Nat) (ch : Charge) :
    ∀ (axes : List String) (sw : Swaps), (sw.map (·.1)).Nodup → ((addChargeSwaps ms sw ch axes).1.map (·.1)).Nodup
  | [], _, h => h
  | ax :: rest, sw, h => by
    simp only [addChargeSwaps]
    split
    · exact addChargeSwaps_nodup ms ch rest _ (addOne_nodup ms sw ax ch h)
    · exact h

end YModel.Expect
