import YModel.Trunc
/-! Lemmas about the selection primitive `topSel` of `YModel/Trunc.lean`:
shape, exact count, separation (every marked key ≥ every unmarked key). -/
namespace YModel.Trunc

/-! ### counting helpers -/

theorem countP_lt_of_imp_of_exists {α : Type} (P Q : α → Bool) (l : List α)
    (himp : ∀ y ∈ l, P y = true → Q y = true) (hex : ∃ x ∈ l, Q x = true ∧ P x = false) :
    l.countP P < l.countP Q := by
  induction l with
  | nil => obtain ⟨x, hx, _⟩ := hex; cases hx
  | cons a r ih =>
    obtain ⟨x, hx, hq, hp⟩ := hex
    have hmono : r.countP P ≤ r.countP Q :=
      List.countP_mono_left (fun y hy => himp y (List.mem_cons_of_mem _ hy))
    simp only [List.countP_cons]
    rcases List.mem_cons.mp hx with rfl | hxr
    · simp only [hq, hp, if_true]
      simp; omega
    · have := ih (fun y hy => himp y (List.mem_cons_of_mem _ hy)) ⟨x, hxr, hq, hp⟩
      by_cases hpa : P a = true
      · have hqa := himp a (List.mem_cons_self) hpa
        simp [hpa, hqa]; omega
      · by_cases hqa : Q a = true
        · simp [hpa, hqa]; omega
        · simp [hpa, hqa]; omega

section sel
variable {α : Type} (key : α → Int)

/-- every marked key is ≥ every unmarked key -/
def Sep (ps : List (α × Bool)) : Prop :=
  ∀ x ∈ ps, ∀ y ∈ ps, x.2 = true → y.2 = false → key y.1 ≤ key x.1

abbrev marked (ps : List (α × Bool)) : Nat := ps.countP (·.2)

theorem maxUnmarked_none {ps : List (α × Bool)} (h : maxUnmarked key ps = none) :
    ∀ p ∈ ps, p.2 = true := by
  induction ps with
  | nil => intro p hp; cases hp
  | cons a r ih =>
    obtain ⟨a, b⟩ := a
    unfold maxUnmarked at h
    cases b with
    | true =>
      simp only [if_true] at h
      intro p hp
      rcases List.mem_cons.mp hp with rfl | hp
      · rfl
      · exact ih h p hp
    | false =>
      simp only [Bool.false_eq_true, if_false] at h
      split at h <;> cases h

theorem maxUnmarked_some {ps : List (α × Bool)} {m : Int} (h : maxUnmarked key ps = some m) :
    (∀ p ∈ ps, p.2 = false → key p.1 ≤ m) ∧ (∃ p ∈ ps, p.2 = false ∧ key p.1 = m) := by
  induction ps generalizing m with
  | nil => cases h
  | cons a r ih =>
    obtain ⟨a, b⟩ := a
    unfold maxUnmarked at h
    cases b with
    | true =>
      simp only [if_true] at h
      obtain ⟨h1, p, hp, h2⟩ := ih h
      refine ⟨?_, p, List.mem_cons_of_mem _ hp, h2⟩
      intro q hq hq2
      rcases List.mem_cons.mp hq with rfl | hq
      · cases hq2
      · exact h1 q hq hq2
    | false =>
      simp only [Bool.false_eq_true, if_false] at h
      split at h
      · rename_i hn
        cases h
        have hall := maxUnmarked_none key hn
        refine ⟨?_, (a, false), List.mem_cons_self, rfl, rfl⟩
        intro q hq hq2
        rcases List.mem_cons.mp hq with rfl | hq
        · exact Int.le_refl _
        · rw [hall q hq] at hq2; cases hq2
      · rename_i m' hm'
        obtain ⟨h1, p, hp, h2, h3⟩ := ih hm'
        cases h
        by_cases hle : m' ≤ key a
        · simp only [hle, if_true]
          refine ⟨?_, (a, false), List.mem_cons_self, rfl, rfl⟩
          intro q hq hq2
          rcases List.mem_cons.mp hq with rfl | hq
          · exact Int.le_refl _
          · exact Int.le_trans (h1 q hq hq2) hle
        · simp only [hle, if_false]
          refine ⟨?_, p, List.mem_cons_of_mem _ hp, h2, h3⟩
          intro q hq hq2
          rcases List.mem_cons.mp hq with rfl | hq
          · simp only; omega
          · exact h1 q hq hq2

theorem markFirst_map_fst (m : Int) (ps : List (α × Bool)) :
    (markFirst key m ps).map (·.1) = ps.map (·.1) := by
  induction ps with
  | nil => rfl
  | cons a r ih =>
    obtain ⟨a, b⟩ := a
    unfold markFirst
    split
    · rfl
    · simp only [List.map_cons, ih]

theorem markFirst_marked (m : Int) (ps : List (α × Bool))
    (hex : ∃ p ∈ ps, p.2 = false ∧ key p.1 = m) :
    marked (markFirst key m ps) = marked ps + 1 := by
  induction ps with
  | nil => obtain ⟨p, hp, _⟩ := hex; cases hp
  | cons a r ih =>
    obtain ⟨a, b⟩ := a
    unfold markFirst
    split
    · rename_i hc
      obtain ⟨hb, _⟩ := hc
      subst hb
      simp [marked]
    · rename_i hc
      obtain ⟨p, hp, hp2, hp3⟩ := hex
      have hex' : ∃ p ∈ r, p.2 = false ∧ key p.1 = m := by
        rcases List.mem_cons.mp hp with rfl | hp
        · exact absurd ⟨hp2, hp3⟩ hc
        · exact ⟨p, hp, hp2, hp3⟩
      have := ih hex'
      simp only [marked, List.countP_cons] at this ⊢
      omega

/-- entries after marking: old entries, or the newly marked one (which was unmarked with key `m`) -/
theorem markFirst_mem (m : Int) (ps : List (α × Bool)) (z : α × Bool) (hz : z ∈ markFirst key m ps) :
    z ∈ ps ∨ (z.2 = true ∧ key z.1 = m ∧ (z.1, false) ∈ ps) := by
  induction ps with
  | nil => cases hz
  | cons a r ih =>
    obtain ⟨a, b⟩ := a
    unfold markFirst at hz
    split at hz
    · rename_i hc
      obtain ⟨hb, hk⟩ := hc
      subst hb
      rcases List.mem_cons.mp hz with rfl | hz
      · exact Or.inr ⟨rfl, hk, List.mem_cons_self⟩
      · exact Or.inl (List.mem_cons_of_mem _ hz)
    · rcases List.mem_cons.mp hz with rfl | hz
      · exact Or.inl List.mem_cons_self
      · rcases ih hz with h | ⟨h1, h2, h3⟩
        · exact Or.inl (List.mem_cons_of_mem _ h)
        · exact Or.inr ⟨h1, h2, List.mem_cons_of_mem _ h3⟩

theorem markFirst_unmarked (m : Int) (ps : List (α × Bool)) (z : α × Bool) (hz : z ∈ markFirst key m ps)
    (hz2 : z.2 = false) : z ∈ ps := by
  rcases markFirst_mem key m ps z hz with h | ⟨h1, _, _⟩
  · exact h
  · rw [h1] at hz2; cases hz2

theorem pick_map_fst (ps : List (α × Bool)) : (pick key ps).map (·.1) = ps.map (·.1) := by
  unfold pick
  split
  · rfl
  · exact markFirst_map_fst key _ ps

theorem marked_le_length (ps : List (α × Bool)) : marked ps ≤ ps.length := List.countP_le_length

theorem marked_eq_length {ps : List (α × Bool)} (h : ∀ p ∈ ps, p.2 = true) : marked ps = ps.length := by
  unfold marked
  rw [List.countP_eq_length]
  exact h

theorem exists_unmarked {ps : List (α × Bool)} (h : marked ps < ps.length) : ∃ p ∈ ps, p.2 = false := by
  apply Classical.byContradiction
  intro hn
  have : ∀ p ∈ ps, p.2 = true := by
    intro p hp
    cases hb : p.2 with
    | true => rfl
    | false => exact absurd ⟨p, hp, hb⟩ hn
  have := marked_eq_length this
  omega

theorem pick_marked (ps : List (α × Bool)) :
    marked (pick key ps) = min (marked ps + 1) ps.length := by
  unfold pick
  split
  · rename_i h
    have := marked_eq_length (maxUnmarked_none key h)
    omega
  · rename_i m h
    obtain ⟨_, hex⟩ := maxUnmarked_some key h
    rw [markFirst_marked key m ps hex]
    obtain ⟨p, hp, hp2, _⟩ := hex
    have : marked ps < ps.length := by
      have hle := marked_le_length ps
      apply Classical.byContradiction
      intro hn
      have heq : ps.countP (·.2) = ps.length := by unfold marked at hle hn; omega
      have := List.countP_eq_length.mp heq p hp
      rw [hp2] at this; cases this
    omega

theorem pick_sep (ps : List (α × Bool)) (h : Sep key ps) : Sep key (pick key ps) := by
  unfold pick
  split
  · exact h
  · rename_i m hm
    obtain ⟨hle, _⟩ := maxUnmarked_some key hm
    intro x hx y hy hx2 hy2
    have hy' := markFirst_unmarked key m ps y hy hy2
    rcases markFirst_mem key m ps x hx with hx' | ⟨_, hk, _⟩
    · exact h x hx' y hy' hx2 hy2
    · rw [hk]; exact hle y hy' hy2

theorem picks_map_fst (k : Nat) (ps : List (α × Bool)) : (picks key k ps).map (·.1) = ps.map (·.1) := by
  induction k generalizing ps with
  | zero => rfl
  | succ k ih => unfold picks; rw [ih, pick_map_fst]

theorem length_of_map_fst {ps qs : List (α × Bool)} (h : ps.map (·.1) = qs.map (·.1)) : ps.length = qs.length := by
  have := congrArg List.length h
  simpa using this

theorem picks_marked (k : Nat) (ps : List (α × Bool)) :
    marked (picks key k ps) = min (marked ps + k) ps.length := by
  induction k generalizing ps with
  | zero => unfold picks; have := marked_le_length ps; omega
  | succ k ih =>
    unfold picks
    rw [ih, pick_marked, length_of_map_fst (pick_map_fst key ps)]
    omega

theorem picks_sep (k : Nat) (ps : List (α × Bool)) (h : Sep key ps) : Sep key (picks key k ps) := by
  induction k generalizing ps with
  | zero => exact h
  | succ k ih => unfold picks; exact ih _ (pick_sep key ps h)

theorem fresh_marked (xs : List α) : marked (xs.map (fun a => (a, false))) = 0 := by
  unfold marked
  rw [List.countP_eq_zero]
  intro p hp
  obtain ⟨a, _, rfl⟩ := List.mem_map.mp hp
  simp

theorem fresh_sep (xs : List α) : Sep key (xs.map (fun a => (a, false))) := by
  intro x hx _ _ hx2 _
  obtain ⟨a, _, rfl⟩ := List.mem_map.mp hx
  cases hx2

theorem topSel_map_fst (D : Nat) (xs : List α) : (topSel key D xs).map (·.1) = xs := by
  unfold topSel
  rw [picks_map_fst, List.map_map]
  simp [Function.comp_def]

theorem topSel_length (D : Nat) (xs : List α) : (topSel key D xs).length = xs.length := by
  have := congrArg List.length (topSel_map_fst key D xs)
  simpa using this

/-- exactly `min D n` entries are selected -/
theorem topSel_marked (D : Nat) (xs : List α) : marked (topSel key D xs) = min D xs.length := by
  unfold topSel
  rw [picks_marked, fresh_marked, List.length_map]
  omega

/-- maximality: no unselected key exceeds a selected key -/
theorem topSel_sep (D : Nat) (xs : List α) : Sep key (topSel key D xs) :=
  picks_sep key D _ (fresh_sep key xs)

/-- source branch `D_bl == 0`: everything `False` -/
theorem topSel_zero (xs : List α) : topSel key 0 xs = xs.map (fun a => (a, false)) := rfl

/-- source branch `D_bl == Dp` (no truncation): everything stays `True` -/
theorem topSel_all (D : Nat) (xs : List α) (h : xs.length ≤ D) : ∀ p ∈ topSel key D xs, p.2 = true := by
  have hm := topSel_marked key D xs
  have hl := topSel_length key D xs
  unfold marked at hm
  have : (topSel key D xs).countP (·.2) = (topSel key D xs).length := by omega
  exact List.countP_eq_length.mp this

/-- If no more entries are selected than satisfy an upward-closed predicate, every selected entry
satisfies it (this is why `D = min(D, D_tol)` implements the tolerance). -/
theorem sep_all_above {ps : List (α × Bool)} (hsep : Sep key ps) (P : α → Bool)
    (hup : ∀ a b, P a = true → key a ≤ key b → P b = true)
    (hcnt : marked ps ≤ ps.countP (fun p => P p.1)) :
    ∀ x ∈ ps, x.2 = true → P x.1 = true := by
  intro x hx hx2
  apply Classical.byContradiction
  intro hnp
  have hpx : P x.1 = false := by cases h : P x.1 <;> simp_all
  have : ps.countP (fun p => P p.1) < ps.countP (·.2) := by
    apply countP_lt_of_imp_of_exists
    · intro y hy hpy
      cases hy2 : y.2 with
      | true => rfl
      | false =>
        have := hup y.1 x.1 hpy (hsep x hx y hy hx2 hy2)
        rw [hpx] at this; cases this
    · exact ⟨x, hx, hx2, hpx⟩
  unfold marked at hcnt
  omega

/-- counting form of "the selected multiset is determined": the number of selected keys above any
bound `b` is `min(#selected, #keys above b)` -/
theorem sep_count_gt {ps : List (α × Bool)} (hsep : Sep key ps) (b : Int) :
    ps.countP (fun p => p.2 && decide (b < key p.1)) = min (marked ps) (ps.countP (fun p => decide (b < key p.1))) := by
  by_cases hex : ∃ y ∈ ps, y.2 = true ∧ key y.1 ≤ b
  · -- some selected key is ≤ b: then every key > b is selected
    obtain ⟨y, hy, hy2, hyb⟩ := hex
    have h1 : ps.countP (fun p => p.2 && decide (b < key p.1)) = ps.countP (fun p => decide (b < key p.1)) := by
      apply List.countP_congr
      intro p hp
      simp only [Bool.and_eq_true, decide_eq_true_eq]
      constructor
      · exact fun h => h.2
      · intro h
        refine ⟨?_, h⟩
        cases hp2 : p.2 with
        | true => rfl
        | false => have := hsep y hy p hp hy2 hp2; omega
    have h2 : ps.countP (fun p => p.2 && decide (b < key p.1)) ≤ marked ps :=
      List.countP_mono_left (fun p _ h => by simp only [Bool.and_eq_true] at h; exact h.1)
    omega
  · -- every selected key is > b
    have h1 : ps.countP (fun p => p.2 && decide (b < key p.1)) = marked ps := by
      apply List.countP_congr
      intro p hp
      simp only [Bool.and_eq_true, decide_eq_true_eq]
      constructor
      · exact fun h => h.1
      · intro h
        refine ⟨h, ?_⟩
        apply Classical.byContradiction
        intro hn
        exact hex ⟨p, hp, h, by omega⟩
    have h2 : ps.countP (fun p => p.2 && decide (b < key p.1)) ≤ ps.countP (fun p => decide (b < key p.1)) :=
      List.countP_mono_left (fun p _ h => by simp only [Bool.and_eq_true] at h; exact h.2)
    omega

end sel
end YModel.Trunc
