import YModel.Gates
import YProofs.Lemmas.GateExp
/-!
# The integer matrices of `YModel.Gates` as `Matrix (Fin n) (Fin n) 𝕂`, and the exponential lemmas for matrices

`toM 𝕂 n A` casts the list-based integer matrix `A` of the executable model entrywise; algebraic relations are
decided over `ℤ` and transported along `Int.castRingHom`.
-/
open NormedSpace

namespace YModel.Gates

/-- the model's integer matrix `A` as an `n × n` matrix over `R` (entries outside `A` read as `0`) -/
def toM (R : Type*) [IntCast R] (n : ℕ) (A : IMat) : Matrix (Fin n) (Fin n) R :=
  Matrix.of fun i j => ((entry A i j : ℤ) : R)

theorem toM_map (R : Type*) [Ring R] (n : ℕ) (A : IMat) :
    toM R n A = (Int.castRingHom R).mapMatrix (toM ℤ n A) := by
  ext i j; simp [toM]

section transfer
variable (R : Type*) [Ring R] {n : ℕ} {A B C : IMat}

theorem toM_mul_of (h : toM ℤ n A * toM ℤ n B = toM ℤ n C) : toM R n A * toM R n B = toM R n C := by
  rw [toM_map R n A, toM_map R n B, toM_map R n C, ← map_mul, h]

theorem toM_mul_zero_of (h : toM ℤ n A * toM ℤ n B = 0) : toM R n A * toM R n B = 0 := by
  rw [toM_map R n A, toM_map R n B, ← map_mul, h, map_zero]

theorem toM_mul_one_of (h : toM ℤ n A * toM ℤ n B = 1) : toM R n A * toM R n B = 1 := by
  rw [toM_map R n A, toM_map R n B, ← map_mul, h, map_one]

theorem toM_add_of (h : toM ℤ n A + toM ℤ n B = toM ℤ n C) : toM R n A + toM R n B = toM R n C := by
  rw [toM_map R n A, toM_map R n B, toM_map R n C, ← map_add, h]

theorem toM_one_of (h : toM ℤ n A = 1) : toM R n A = 1 := by
  rw [toM_map R n A, h, map_one]

end transfer

/-! ## the integer relations of the model's matrices, over any ring -/

/-- the list product of the model is the matrix product (on the matrices used) -/
theorem toM_mmul_KK : toM ℤ 4 (mmul K K) = toM ℤ 4 K * toM ℤ 4 K := by decide

section relations
variable (R : Type*) [Ring R]

theorem toM_I4 : toM R 4 I4 = 1 := toM_one_of R (by decide)
theorem toM_I2 : toM R 2 I2 = 1 := toM_one_of R (by decide)
theorem K_sq : toM R 4 K * toM R 4 K = toM R 4 NH := toM_mul_of R (by decide)
theorem K_cube : toM R 4 K * toM R 4 K * toM R 4 K = toM R 4 K := by
  rw [K_sq]; exact toM_mul_of R (by decide)
theorem XX_sq : toM R 4 XX * toM R 4 XX = 1 := toM_mul_one_of R (by decide)
theorem X_sq : toM R 2 X * toM R 2 X = 1 := toM_mul_one_of R (by decide)
theorem n_idem : toM R 2 nOcc * toM R 2 nOcc = toM R 2 nOcc := toM_mul_of R (by decide)
theorem Pdn_idem : toM R 4 Pdn * toM R 4 Pdn = toM R 4 Pdn := toM_mul_of R (by decide)
theorem Pup_idem : toM R 4 Pup * toM R 4 Pup = toM R 4 Pup := toM_mul_of R (by decide)
theorem Pud_idem : toM R 4 Pud * toM R 4 Pud = toM R 4 Pud := toM_mul_of R (by decide)
theorem P00_idem : toM R 4 P00 * toM R 4 P00 = toM R 4 P00 := toM_mul_of R (by decide)
theorem Pdn_Pup : toM R 4 Pdn * toM R 4 Pup = 0 := toM_mul_zero_of R (by decide)
theorem Pdn_Pud : toM R 4 Pdn * toM R 4 Pud = 0 := toM_mul_zero_of R (by decide)
theorem Pup_Pdn : toM R 4 Pup * toM R 4 Pdn = 0 := toM_mul_zero_of R (by decide)
theorem Pup_Pud : toM R 4 Pup * toM R 4 Pud = 0 := toM_mul_zero_of R (by decide)
theorem Pud_Pdn : toM R 4 Pud * toM R 4 Pdn = 0 := toM_mul_zero_of R (by decide)
theorem Pud_Pup : toM R 4 Pud * toM R 4 Pup = 0 := toM_mul_zero_of R (by decide)
theorem nUp_split : toM R 4 Pup + toM R 4 Pud = toM R 4 nUp := toM_add_of R (by decide)
theorem nDn_split : toM R 4 Pdn + toM R 4 Pud = toM R 4 nDn := toM_add_of R (by decide)
theorem nUpDn_eq : toM R 4 nUpDn = toM R 4 Pud := by
  rw [toM_map R 4 nUpDn, toM_map R 4 Pud, show toM ℤ 4 nUpDn = toM ℤ 4 Pud by decide]
theorem nUp_mul_nDn : toM R 4 nUp * toM R 4 nDn = toM R 4 nUpDn := toM_mul_of R (by decide)

end relations

end YModel.Gates

namespace Matrix
variable {n : Type*} [Fintype n] [DecidableEq n] {𝕂 : Type*} [RCLike 𝕂]

set_option backward.isDefEq.respectTransparency false in
/-- `exp_sum_orth_idem` for matrices (the normed structure is only used inside the proof) -/
theorem exp_sum_orth_idem' {ι : Type*} [DecidableEq ι] (s : Finset ι) (E : ι → Matrix n n 𝕂) (a : ι → 𝕂)
    (hidem : ∀ i ∈ s, E i * E i = E i) (horth : ∀ i ∈ s, ∀ j ∈ s, i ≠ j → E i * E j = 0) :
    exp (∑ i ∈ s, a i • E i) = 1 + ∑ i ∈ s, (exp (a i) - 1) • E i := by
  open scoped Matrix.Norms.Operator in
  exact YModel.GateExp.exp_sum_orth_idem s E a hidem horth

set_option backward.isDefEq.respectTransparency false in
theorem exp_smul_idem' (P : Matrix n n 𝕂) (hP : P * P = P) (a : 𝕂) :
    exp (a • P) = 1 + (exp a - 1) • P := by
  open scoped Matrix.Norms.Operator in
  exact YModel.GateExp.exp_smul_idem P hP a

set_option backward.isDefEq.respectTransparency false in
theorem exp_smul_of_sq_one' (X : Matrix n n 𝕂) (hX : X * X = 1) (θ : 𝕂) :
    exp (θ • X) = ((exp θ + exp (-θ)) / 2) • (1 : Matrix n n 𝕂) + ((exp θ - exp (-θ)) / 2) • X := by
  open scoped Matrix.Norms.Operator in
  exact YModel.GateExp.exp_smul_of_sq_one X hX θ

set_option backward.isDefEq.respectTransparency false in
theorem exp_smul_of_cube_eq' (K : Matrix n n 𝕂) (hK : K * K * K = K) (θ : 𝕂) :
    exp (θ • K) = 1 + ((exp θ + exp (-θ)) / 2 - 1) • (K * K) + ((exp θ - exp (-θ)) / 2) • K := by
  open scoped Matrix.Norms.Operator in
  exact YModel.GateExp.exp_smul_of_cube_eq K hK θ

end Matrix
