import YProofs.Lemmas.ChargeLemmas
import YProofs.Lemmas.PermLemmas
import Mathlib.Data.Int.ModEq
/-! Lemmas for `tensordot` / `trace`: axis complements, charge conservation of a contraction. -/
namespace YModel
open Int

theorem complement_perm (rank : Nat) (axs : List Nat) (hnd : axs.Nodup) (hlt : ∀ p ∈ axs, p < rank) :
    (complementAxes rank axs ++ axs).Perm (List.range rank) := by
  have h1 : (List.range rank).filter (fun i => axs.contains i) |>.Perm axs := by
    apply (List.perm_ext_iff_of_nodup (List.nodup_range.filter _) hnd).mpr
    intro x
    simp only [List.mem_filter, List.mem_range, List.contains_iff_mem]
    exact ⟨fun h => h.2, fun h => ⟨hlt x h, h⟩⟩
  have h2 := List.filter_append_perm (fun i => !axs.contains i) (List.range rank)
  unfold complementAxes
  refine List.Perm.trans ?_ h2
  apply List.Perm.append_left
  have : (List.filter (fun x => !(fun i => !axs.contains i) x) (List.range rank))
      = (List.range rank).filter (fun i => axs.contains i) := by
    congr 1; funext x; simp
  rw [this]
  exact h1.symm

theorem mem_complement {rank : Nat} {axs : List Nat} {p : Nat} (h : p ∈ complementAxes rank axs) : p < rank := by
  unfold complementAxes at h
  exact List.mem_range.mp (List.mem_filter.mp h).1

theorem pick_append {α} [Inhabited α] (l : List α) (p q : List Nat) : pick l (p ++ q) = pick l p ++ pick l q := by
  simp [pick]

theorem emod_cancel (x y z : Int) (m : Int) : ((x + y) % m + (z - y) % m) % m = (x + z) % m := by
  have h1 : (x + y) % m ≡ x + y [ZMOD m] := Int.mod_modEq _ _
  have h2 : (z - y) % m ≡ z - y [ZMOD m] := Int.mod_modEq _ _
  have := h1.add h2
  have h3 : x + y + (z - y) = x + z := by ring
  rw [h3] at this
  exact this

/-- **charge conservation of a contraction**: if the contracted charges agree and the contracted
signatures are opposite, the remaining leg charges combine to the group sum of the two total charges. -/
theorem contract_rule {d : SymDef} {ms : List Nat} (hd : WSym d ms) (ka kb : Key) (sa sb : List Int)
    (outA inA outB inB : List Nat)
    (hka : ka.length = sa.length) (hkb : kb.length = sb.length)
    (hpa : (outA ++ inA).Perm (List.range ka.length)) (hpb : (outB ++ inB).Perm (List.range kb.length))
    (hmatch : pick ka inA = pick kb inB) (hsig : pick sa inA = (pick sb inB).map (fun x => -x)) :
    d.fuse (pick ka outA ++ pick kb outB) (pick sa outA ++ pick sb outB) 1
      = gadd d (d.fuse ka sa 1) (d.fuse kb sb 1) := by
  apply charge_ext _ _ (by rw [fuse_length hd, fuse_length hd])
  intro j hj
  rw [fuse_length hd] at hj
  rw [gadd_getD hd _ _ _ hj]
  rw [fuse_eq_canon d ms hd, fuse_eq_canon d ms hd, fuse_eq_canon d ms hd,
    canonFuse_getD, canonFuse_getD, canonFuse_getD, if_pos hj, if_pos hj, if_pos hj]
  unfold canonComp
  simp only [Int.one_mul]
  have ea : rawComp ka sa j = rawComp (pick ka outA) (pick sa outA) j + rawComp (pick ka inA) (pick sa inA) j := by
    rw [← rawComp_perm ka sa (outA ++ inA) j hka hpa, pick_append, pick_append,
      rawComp_append _ _ _ _ _ (by simp [pick_length])]
  have eb : rawComp kb sb j = rawComp (pick kb outB) (pick sb outB) j + rawComp (pick kb inB) (pick sb inB) j := by
    rw [← rawComp_perm kb sb (outB ++ inB) j hkb hpb, pick_append, pick_append,
      rawComp_append _ _ _ _ _ (by simp [pick_length])]
  have ec : rawComp (pick ka inA) (pick sa inA) j = - rawComp (pick kb inB) (pick sb inB) j := by
    rw [hmatch, hsig, rawComp_neg_sigs]
  rw [rawComp_append _ _ _ _ _ (by simp [pick_length]), ea, eb, ec]
  generalize rawComp (pick ka outA) (pick sa outA) j = x
  generalize rawComp (pick kb outB) (pick sb outB) j = z
  generalize rawComp (pick kb inB) (pick sb inB) j = y
  have := emod_cancel x (-y) z (ms.getD j 0 : Int)
  rw [show z - -y = z + y by ring] at this
  exact this.symm

/-! `sumBlocks` keeps the shape of its first summand -/
theorem sumBlocks_shape {R} [Zero R] [Add R] (b : Block R) (bs : List (Block R)) :
    (sumBlocks (b :: bs)).shape = b.shape := rfl

end YModel
