import YProofs.Lemmas.MatmulForm
/-! Helper lemmas for `toDense_matmul`: sums over `flatMap`, lookup sums, value of `sumBlocks`. -/
namespace YModel
variable {R : Type} [CommRing R]

theorem sum_flatMap_map {α β : Type} (l : List α) (f : α → List β) (g : β → R) :
    ((l.flatMap f).map g).sum = (l.map (fun x => ((f x).map g).sum)).sum := by
  induction l with
  | nil => rfl
  | cons x xs ih => simp [List.flatMap_cons, List.sum_append, ih]

theorem sum_filter_support {α : Type} (l : List α) (P : α → Bool) (G : α → R) (hz : ∀ x ∈ l, P x = false → G x = 0) :
    (l.map G).sum = ((l.filter P).map G).sum := by
  induction l with
  | nil => rfl
  | cons x xs ih =>
    have ih' := ih (fun y hy => hz y (List.mem_cons_of_mem _ hy))
    by_cases hp : P x = true
    · simp [List.filter_cons, hp, ih']
    · have hp' : P x = false := by simpa using hp
      simp [List.filter_cons, hp', ih', hz x (by simp) hp']

/-- summing `F` over the blocks with a given key picks the looked-up block (keys are unique) -/
theorem sum_filter_key (T : Tensor R) (hs : T.keys.Pairwise (fun a b => keyLt a b = true)) (k : Key)
    (F : Key × Block R → R) :
    ((T.blocks.filter (fun kb => kb.1 == k)).map F).sum = match T.get? k with
      | some B => F (k, B)
      | none => 0 := by
  have hnd : (T.blocks.map (·.1)).Nodup := nodup_of_pairwise_lt keyLt_strictTotal hs
  unfold Tensor.get?
  generalize T.blocks = l at hnd
  induction l with
  | nil => rfl
  | cons x xs ih =>
    rw [List.map_cons, List.nodup_cons] at hnd
    by_cases hx : x.1 = k
    · have hxk : (x.1 == k) = true := by simpa using hx
      have hrest : xs.filter (fun kb => kb.1 == k) = [] := by
        apply List.filter_eq_nil_iff.mpr
        intro y hy hyk
        apply hnd.1
        have : y.1 = k := by simpa using hyk
        rw [hx, ← this]
        exact List.mem_map_of_mem (f := (·.1)) hy
      simp only [List.filter_cons, hxk, if_true, hrest, List.map_cons, List.map_nil, List.sum_cons, List.sum_nil,
        List.find?_cons, Option.map_some]
      cases x with
      | mk k' B' => simp only at hx; subst hx; simp
    · have hxk : (x.1 == k) = false := by simpa using hx
      simp only [List.filter_cons, hxk, Bool.false_eq_true, if_false, List.find?_cons]
      exact ih hnd.2

theorem sumBlocks_val (b : Block R) (bs : List (Block R)) (x : List Nat) :
    (sumBlocks (b :: bs)).val x = ((b :: bs).map (fun B => B.val x)).sum := by
  simp only [sumBlocks, List.map_cons, List.sum_cons]
  rw [foldl_blocks]
where
  foldl_blocks : bs.foldl (fun acc B => acc + B.val x) (b.val x) = b.val x + (bs.map (fun B => B.val x)).sum := by
    induction bs generalizing b with
    | nil => simp
    | cons y ys ih =>
      simp only [List.foldl_cons, List.map_cons, List.sum_cons]
      have := @ih ⟨b.shape, fun z => b.val z + y.val z⟩
      simp only at this
      rw [this]; ring

theorem sumBlocks_val_list (bs : List (Block R)) (x : List Nat) (h : bs ≠ []) :
    (sumBlocks bs).val x = (bs.map (fun B => B.val x)).sum := by
  cases bs with
  | nil => exact absurd rfl h
  | cons b rest => exact sumBlocks_val b rest x

/-- lookup in a tensor built as `sortDedup keys ↦ f key` -/
theorem get?_sortDedup_map (T : Tensor R) (ks : List Key) (f : Key → Block R)
    (hT : T.blocks = (sortDedup keyLt ks).map (fun k => (k, f k))) (k : Key) :
    T.get? k = if k ∈ ks then some (f k) else none := by
  have hkeys : T.keys = sortDedup keyLt ks := by
    simp [Tensor.keys, hT, List.map_map, Function.comp_def]
  have hsorted : T.keys.Pairwise (fun a b => keyLt a b = true) := by
    rw [hkeys]; exact pairwise_sortDedup keyLt_strictTotal ks
  by_cases hk : k ∈ ks
  · rw [if_pos hk]
    apply Tensor.get?_of_mem hsorted
    rw [hT]
    exact List.mem_map.mpr ⟨k, (mem_sortDedup keyLt_strictTotal k ks).mpr hk, rfl⟩
  · rw [if_neg hk, Tensor.get?_none_iff, hkeys, mem_sortDedup keyLt_strictTotal]
    exact hk

end YModel
