import YModel.DMps
import Mathlib.Algebra.BigOperators.Ring.Finset
import Mathlib.Algebra.BigOperators.Intervals
import Mathlib.Tactic.Ring
/-! Basic lemmas of the dense MPS model: `sumN` is a `Finset.range` sum, materialised vectors read back
their generating function, `run` is linear in the boundary vector. -/
namespace YModel.DMps
open Finset

variable {K : Type} [CommRing K]

theorem sumN_eq (n : Nat) (f : Nat → K) : sumN n f = ∑ i ∈ range n, f i := by
  induction n with
  | zero => simp [sumN]
  | succ n ih => rw [sumN, ih, sum_range_succ]

theorem mkVec_get (n : Nat) (f : Nat → K) (i : Nat) :
    (mkVec n f).get i = if i < n then f i else 0 := by
  unfold Vec.get mkVec
  by_cases h : i < n
  · simp [h, Array.getD]
  · simp [h, Array.getD]

theorem mkVec_get_lt {n : Nat} (f : Nat → K) {i : Nat} (h : i < n) : (mkVec n f).get i = f i := by
  rw [mkVec_get, if_pos h]

theorem mkVec_size (n : Nat) (f : Nat → K) : (mkVec n f).size = n := by simp [mkVec]

theorem mkMat_get (m n : Nat) (f : Nat → Nat → K) (i j : Nat) :
    (mkMat m n f).get i j = if i < m ∧ j < n then f i j else 0 := by
  unfold Mat.get mkMat
  by_cases h : i < m
  · have : (mkVec m (fun i => mkVec n (f i))).getD i #[] = mkVec n (f i) := by
      simp [mkVec, Array.getD, h]
    rw [this, mkVec_get]; simp [h]
  · have : (mkVec m (fun i => mkVec n (f i))).getD i #[] = #[] := by
      simp [mkVec, Array.getD, h]
    rw [this]; simp [h, Vec.get]

theorem stepV_get (v : Vec K) (A : Site K) (s t r : Nat) :
    (stepV v A s t).get r = if r < A.Dr then ∑ l ∈ range A.Dl, v.get l * A.a s t l r else 0 := by
  unfold stepV
  rw [mkVec_get, sumN_eq]

end YModel.DMps

namespace YModel.DMps
open Finset
variable {K : Type} [CommRing K]

/-! ### function-level semantics of `run` -/

/-- one transfer step on index functions -/
def stepF (v : Nat → K) (A : Site K) (s t : Nat) : Nat → K :=
  fun r => if r < A.Dr then ∑ l ∈ range A.Dl, v l * A.a s t l r else 0

def runF : List (Site K) → Config → (Nat → K) → (Nat → K)
  | [], _, v => v
  | A :: As, c, v => runF As c.tail (stepF v A (c.headD (0, 0)).1 (c.headD (0, 0)).2)

theorem stepV_get_fun (v : Vec K) (A : Site K) (s t : Nat) :
    (stepV v A s t).get = stepF v.get A s t := by
  funext r; rw [stepV_get]; rfl

theorem run_get (sites : List (Site K)) (c : Config) (v : Vec K) :
    (run sites c v).get = runF sites c v.get := by
  induction sites generalizing c v with
  | nil => rfl
  | cons A As ih => rw [run, runF, ih, stepV_get_fun]

theorem unitV_get (D α : Nat) : (unitV D α : Vec K).get = fun i => if i < D then delta i α else 0 := by
  funext i; rw [unitV, mkVec_get]

/-- `e₀` of dimension one -/
def e0 : Nat → K := fun i => if i = 0 then 1 else 0

theorem unitV_one_zero : (unitV 1 0 : Vec K).get = e0 := by
  rw [unitV_get]; funext i; unfold e0 delta
  by_cases h : i = 0
  · simp [h]
  · have : ¬ i < 1 := by omega
    simp [h, this]

theorem coef_eq (ψ : State K) (c : Config) : coef ψ c = runF ψ.sites c e0 0 := by
  unfold coef; rw [run_get, unitV_one_zero]

theorem stepF_congr {v w : Nat → K} (A : Site K) (s t : Nat) (h : ∀ l, l < A.Dl → v l = w l) :
    stepF v A s t = stepF w A s t := by
  funext r; unfold stepF
  by_cases hr : r < A.Dr
  · simp only [hr, if_true]
    exact sum_congr rfl (fun l hl => by rw [h l (mem_range.mp hl)])
  · simp [hr]

theorem stepF_add (v w : Nat → K) (A : Site K) (s t : Nat) :
    stepF (fun i => v i + w i) A s t = fun r => stepF v A s t r + stepF w A s t r := by
  funext r; unfold stepF
  by_cases hr : r < A.Dr
  · simp only [hr, if_true, add_mul, sum_add_distrib]
  · simp [hr]

theorem stepF_smul (a : K) (v : Nat → K) (A : Site K) (s t : Nat) :
    stepF (fun i => a * v i) A s t = fun r => a * stepF v A s t r := by
  funext r; unfold stepF
  by_cases hr : r < A.Dr
  · simp only [hr, if_true, mul_sum, mul_assoc]
  · simp [hr]

theorem stepF_zero (A : Site K) (s t : Nat) : stepF (fun _ => (0 : K)) A s t = fun _ => 0 := by
  funext r; unfold stepF; simp

theorem runF_add (sites : List (Site K)) (c : Config) (v w : Nat → K) :
    runF sites c (fun i => v i + w i) = fun r => runF sites c v r + runF sites c w r := by
  induction sites generalizing c v w with
  | nil => rfl
  | cons A As ih => simp only [runF]; rw [stepF_add, ih]

theorem runF_smul (sites : List (Site K)) (c : Config) (a : K) (v : Nat → K) :
    runF sites c (fun i => a * v i) = fun r => a * runF sites c v r := by
  induction sites generalizing c v with
  | nil => rfl
  | cons A As ih => simp only [runF]; rw [stepF_smul, ih]

theorem runF_zero (sites : List (Site K)) (c : Config) : runF sites c (fun _ => (0 : K)) = fun _ => 0 := by
  induction sites generalizing c with
  | nil => rfl
  | cons A As ih => simp only [runF]; rw [stepF_zero, ih]

theorem runF_sum {ι : Type} (S : Finset ι) (sites : List (Site K)) (c : Config) (v : ι → Nat → K) :
    runF sites c (fun i => ∑ j ∈ S, v j i) = fun r => ∑ j ∈ S, runF sites c (v j) r := by
  classical
  induction S using Finset.induction_on with
  | empty => simp only [sum_empty]; exact runF_zero sites c
  | insert a S ha ih =>
    simp only [sum_insert ha]
    rw [runF_add, ih]

end YModel.DMps
