import YProofs.Lemmas.GeoBonds
/-! Counting the listed bonds of the square lattice (C20). Core Lean only. -/
namespace YModel.Geo

theorem count_succ_lt (m n : Nat) : List.countP (fun k => decide (k + 1 < m)) (List.range n) = min n (m - 1) := by
  induction n with
  | zero => simp
  | succ n ih =>
    rw [List.range_succ, List.countP_append, ih, List.countP_singleton]
    by_cases h : n + 1 < m
    · simp only [h, decide_true, if_true]; omega
    · simp only [h, decide_false]; simp; omega

theorem count_true (n : Nat) : List.countP (fun _ : Nat => true) (List.range n) = n := by
  induction n with
  | zero => simp
  | succ n ih => rw [List.range_succ, List.countP_append, ih, List.countP_singleton]; simp

theorem count_false (n : Nat) : List.countP (fun _ : Nat => false) (List.range n) = 0 := by
  induction n with
  | zero => simp
  | succ n ih => rw [List.range_succ, List.countP_append, ih, List.countP_singleton]; simp

theorem sum_const_range (c n : Nat) : ((List.range n).map (fun _ => c)).sum = n * c := by
  rw [List.map_const', List.sum_replicate_nat, List.length_range]

theorem sum_ite_range (c m n : Nat) :
    ((List.range n).map (fun k => if k + 1 < m then c else 0)).sum = min n (m - 1) * c := by
  induction n with
  | zero => simp
  | succ n ih =>
    rw [List.range_succ, List.map_append, List.sum_append_nat, ih]
    by_cases h : n + 1 < m
    · have e1 : min (n + 1) (m - 1) = n + 1 := by omega
      have e2 : min n (m - 1) = n := by omega
      simp only [List.map_cons, List.map_nil, h, if_true, List.sum_cons, List.sum_nil, e1, e2]
      rw [Nat.add_mul]; omega
    · have e1 : min (n + 1) (m - 1) = min n (m - 1) := by omega
      simp [h, e1]

theorem Sq.length_bondsTo (g : Sq) (d : Dir) :
    (g.bondsTo d g.sites).length =
      ((List.range g.Ny).map fun (ny : Nat) => List.countP (fun (nx : Nat) => (g.nnSite ((nx : Int), (ny : Int)) d.vec).isSome) (List.range g.Nx)).sum := by
  unfold Sq.bondsTo Sq.sites
  rw [List.filterMap_flatMap, List.length_flatMap]
  congr 1
  apply List.map_congr_left
  intro ny _
  rw [List.length_filterMap_eq_countP, List.countP_map]
  apply List.countP_congr
  intro nx _
  simp [Option.isSome_map]

/-- number of listed bonds per boundary type -/
theorem Sq.length_bondsH (g : Sq) (hx : 0 < g.Nx) :
    g.bondsH.length = match g.bd with
      | .infinite => g.Nx * g.Ny
      | .obc => g.Nx * (g.Ny - 1)
      | .cylinder => g.Nx * (g.Ny - 1) := by
  unfold Sq.bondsH
  rw [Sq.length_bondsTo]
  have hv : Dir.r.vec = (0, 1) := rfl
  cases hb : g.bd with
  | infinite =>
    simp only [Sq.nnSite_infinite hb, Option.isSome_some, count_true, sum_const_range]
    exact Nat.mul_comm _ _
  | obc =>
    simp only []
    have : ∀ ny : Nat, List.countP (fun nx : Nat => (g.nnSite ((nx : Int), (ny : Int)) Dir.r.vec).isSome) (List.range g.Nx)
        = if ny + 1 < g.Ny then g.Nx else 0 := by
      intro ny
      by_cases h : ny + 1 < g.Ny
      · rw [if_pos h]
        refine (List.countP_congr ?_).trans (count_true g.Nx)
        intro nx hnx
        rw [List.mem_range] at hnx
        rw [Sq.nnSite_obc hb, hv, if_pos (by simp only []; omega)]
        simp
      · rw [if_neg h]
        refine (List.countP_congr ?_).trans (count_false g.Nx)
        intro nx hnx
        rw [Sq.nnSite_obc hb, hv, if_neg (by simp only []; omega)]
        simp
    simp only [this, sum_ite_range]
    have : min g.Ny (g.Ny - 1) = g.Ny - 1 := by omega
    rw [this, Nat.mul_comm]
  | cylinder =>
    simp only []
    have : ∀ ny : Nat, List.countP (fun nx : Nat => (g.nnSite ((nx : Int), (ny : Int)) Dir.r.vec).isSome) (List.range g.Nx)
        = if ny + 1 < g.Ny then g.Nx else 0 := by
      intro ny
      by_cases h : ny + 1 < g.Ny
      · rw [if_pos h]
        refine (List.countP_congr ?_).trans (count_true g.Nx)
        intro nx hnx
        rw [Sq.nnSite_cylinder hb hx, hv, if_pos (by simp only []; omega)]
        simp
      · rw [if_neg h]
        refine (List.countP_congr ?_).trans (count_false g.Nx)
        intro nx hnx
        rw [Sq.nnSite_cylinder hb hx, hv, if_neg (by simp only []; omega)]
        simp
    simp only [this, sum_ite_range]
    have : min g.Ny (g.Ny - 1) = g.Ny - 1 := by omega
    rw [this, Nat.mul_comm]

theorem Sq.length_bondsV (g : Sq) (hx : 0 < g.Nx) :
    g.bondsV.length = match g.bd with
      | .infinite => g.Nx * g.Ny
      | .obc => (g.Nx - 1) * g.Ny
      | .cylinder => g.Nx * g.Ny := by
  unfold Sq.bondsV
  rw [Sq.length_bondsTo]
  have hv : Dir.b.vec = (1, 0) := rfl
  cases hb : g.bd with
  | infinite =>
    simp only [Sq.nnSite_infinite hb, Option.isSome_some, count_true, sum_const_range]
    exact Nat.mul_comm _ _
  | obc =>
    simp only []
    have : ∀ ny : Nat, ny ∈ List.range g.Ny → List.countP (fun nx : Nat => (g.nnSite ((nx : Int), (ny : Int)) Dir.b.vec).isSome) (List.range g.Nx)
        = g.Nx - 1 := by
      intro ny hny
      rw [List.mem_range] at hny
      have hm : min g.Nx (g.Nx - 1) = g.Nx - 1 := by omega
      refine (List.countP_congr ?_).trans ((count_succ_lt g.Nx g.Nx).trans hm)
      intro nx hnx
      rw [List.mem_range] at hnx
      rw [Sq.nnSite_obc hb, hv]
      by_cases h : nx + 1 < g.Nx
      · rw [if_pos (by simp only []; omega)]; simp [h]
      · rw [if_neg (by simp only []; omega)]; simp [h]
    rw [List.map_congr_left this, sum_const_range, Nat.mul_comm]
  | cylinder =>
    simp only []
    have : ∀ ny : Nat, ny ∈ List.range g.Ny → List.countP (fun nx : Nat => (g.nnSite ((nx : Int), (ny : Int)) Dir.b.vec).isSome) (List.range g.Nx)
        = g.Nx := by
      intro ny hny
      rw [List.mem_range] at hny
      refine (List.countP_congr ?_).trans (count_true g.Nx)
      intro nx hnx
      rw [Sq.nnSite_cylinder hb hx, hv, if_pos (by simp only []; omega)]
      simp
    rw [List.map_congr_left this, sum_const_range, Nat.mul_comm]

end YModel.Geo
