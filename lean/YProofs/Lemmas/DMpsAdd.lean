import YProofs.Lemmas.DMpsBasic
/-! Block direct sums: the transfer step through `hcat` / `bdiag` / `vcat` sites splits into the steps of the
summands; induction over the sites gives `runF (addTail …)` = sum of the individual runs. -/
namespace YModel.DMps
open Finset
variable {K : Type} [CommRing K]

/-- concatenation of index functions: `v` on `[0, D)`, `V` shifted behind it -/
def cat (D : Nat) (v V : Nat → K) : Nat → K := fun i => if i < D then v i else V (i - D)

/-- chain of matching bond dimensions that ends in a bond of dimension one -/
def ChainOK : List (Site K) → Prop
  | [] => True
  | [A] => A.Dr = 1
  | A :: B :: rest => A.Dr = B.Dl ∧ ChainOK (B :: rest)

theorem sum_cat (D n : Nat) (v V g : Nat → K) :
    ∑ l ∈ range (D + n), cat D v V l * g l = ∑ l ∈ range D, v l * g l + ∑ x ∈ range n, V x * g (D + x) := by
  rw [sum_range_add]
  congr 1
  · exact sum_congr rfl (fun l hl => by simp [cat, mem_range.mp hl])
  · exact sum_congr rfl (fun x _ => by simp [cat])

theorem heads_cons (X : List (Site K)) (cols : List (List (Site K))) : heads (X :: cols) = headSite X :: heads cols := rfl
theorem tails_cons (X : List (Site K)) (cols : List (List (Site K))) : tails (X :: cols) = X.tail :: tails cols := rfl
theorem totDl_cons (A : Site K) (As : List (Site K)) : totDl (A :: As) = A.Dl + totDl As := by simp [totDl]
theorem totDr_cons (A : Site K) (As : List (Site K)) : totDr (A :: As) = A.Dr + totDr As := by simp [totDr]

/-- middle site: block diagonal -/
theorem stepF_bdiag (A : Site K) (As : List (Site K)) (v V : Nat → K) (s t : Nat) :
    stepF (cat A.Dl v V) (bdiagSite (A :: As)) s t = cat A.Dr (stepF v A s t) (stepF V (bdiagSite As) s t) := by
  funext r
  unfold stepF cat
  simp only [bdiagSite, totDl_cons, totDr_cons]
  have key := sum_cat A.Dl (totDl As) v V (fun l => bdiag (A :: As) s t l r)
  unfold cat at key
  rw [key]
  by_cases hr : r < A.Dr
  · have hr2 : r < A.Dr + totDr As := by omega
    simp only [hr, hr2, if_true]
    have h1 : ∑ l ∈ range A.Dl, v l * bdiag (A :: As) s t l r = ∑ l ∈ range A.Dl, v l * A.a s t l r :=
      sum_congr rfl (fun l hl => by simp [bdiag, mem_range.mp hl, hr])
    have h2 : ∑ x ∈ range (totDl As), V x * bdiag (A :: As) s t (A.Dl + x) r = 0 :=
      sum_eq_zero (fun x _ => by simp [bdiag, hr])
    rw [h1, h2, add_zero]
  · simp only [hr, if_false]
    have h1 : ∑ l ∈ range A.Dl, v l * bdiag (A :: As) s t l r = 0 :=
      sum_eq_zero (fun l hl => by simp [bdiag, mem_range.mp hl, hr])
    have h2 : ∑ x ∈ range (totDl As), V x * bdiag (A :: As) s t (A.Dl + x) r
        = ∑ x ∈ range (totDl As), V x * bdiag As s t x (r - A.Dr) :=
      sum_congr rfl (fun x _ => by simp [bdiag, hr])
    rw [h1, h2, zero_add]
    by_cases h3 : r - A.Dr < totDr As
    · have : r < A.Dr + totDr As := by omega
      simp [h3, this]
    · have : ¬ r < A.Dr + totDr As := by omega
      simp [h3, this]

/-- last site: blocks stacked; only entry `0` of the result matters -/
theorem stepF_vcat_zero (A : Site K) (As : List (Site K)) (v V : Nat → K) (s t : Nat)
    (hA : A.Dr = 1) (hAs : As = [] ∨ (headSite As).Dr = 1) :
    stepF (cat A.Dl v V) (vcatSite (A :: As)) s t 0 = stepF v A s t 0 + stepF V (vcatSite As) s t 0 := by
  unfold stepF
  simp only [vcatSite, totDl_cons, headSite, hA]
  have key := sum_cat A.Dl (totDl As) v V (fun l => vcat (A :: As) s t l 0)
  rw [key]
  have h1 : ∑ l ∈ range A.Dl, v l * vcat (A :: As) s t l 0 = ∑ l ∈ range A.Dl, v l * A.a s t l 0 :=
    sum_congr rfl (fun l hl => by simp [vcat, mem_range.mp hl])
  have h2 : ∑ x ∈ range (totDl As), V x * vcat (A :: As) s t (A.Dl + x) 0
      = ∑ x ∈ range (totDl As), V x * vcat As s t x 0 :=
    sum_congr rfl (fun x _ => by simp [vcat])
  rw [h1, h2]
  simp only [Nat.lt_one_iff, if_true]
  rcases hAs with h | h
  · subst h; simp [totDl]
  · cases As with
    | nil => simp [totDl]
    | cons B Bs => simp only [headSite] at h; simp [h]

/-- first site: blocks side by side (all summands share the left boundary dimension) -/
theorem stepF_hcat (A : Site K) (As : List (Site K)) (v : Nat → K) (s t : Nat)
    (h : As = [] ∨ (headSite As).Dl = A.Dl) :
    stepF v (hcatSite (A :: As)) s t = cat A.Dr (stepF v A s t) (stepF v (hcatSite As) s t) := by
  funext r
  cases As with
  | nil =>
    unfold stepF cat
    have htot : totDr [A] = A.Dr := by simp [totDr]
    have htot0 : totDr ([] : List (Site K)) = 0 := by simp [totDr]
    simp only [hcatSite, headSite, htot, htot0]
    by_cases hr : r < A.Dr
    · simp only [hr, if_true]
      exact sum_congr rfl (fun l _ => by simp [hcat, hr])
    · simp [hr]
  | cons B Bs =>
    have hB : B.Dl = A.Dl := by
      rcases h with h | h
      · exact absurd h (by simp)
      · simpa [headSite] using h
    unfold stepF cat
    simp only [hcatSite, totDr_cons, headSite, hB]
    by_cases hr : r < A.Dr
    · have hr2 : r < A.Dr + (B.Dr + totDr Bs) := by omega
      simp only [hr, hr2, if_true]
      exact sum_congr rfl (fun l _ => by simp [hcat, hr])
    · simp only [hr, if_false]
      by_cases h3 : r - A.Dr < B.Dr + totDr Bs
      · have : r < A.Dr + (B.Dr + totDr Bs) := by omega
        simp only [h3, this, if_true]
        exact sum_congr rfl (fun l _ => by
          have : hcat (A :: B :: Bs) s t l r = hcat (B :: Bs) s t l (r - A.Dr) := by
            rw [hcat]; simp [hr]
          rw [this])
      · have : ¬ r < A.Dr + (B.Dr + totDr Bs) := by omega
        simp [h3, this]

/-- a remaining chain of `n` sites with matching bonds that ends in dimension one -/
def Good (n : Nat) (col : List (Site K)) : Prop := col.length = n ∧ ChainOK col

theorem Good.tail {n : Nat} {col : List (Site K)} (h : Good (n + 2) col) :
    Good (n + 1) col.tail ∧ (headSite col.tail).Dl = (headSite col).Dr := by
  obtain ⟨hl, hc⟩ := h
  match col, hl, hc with
  | A :: B :: rest, hl, hc =>
    simp only [ChainOK] at hc
    refine ⟨⟨by simpa using hl, hc.2⟩, ?_⟩
    simp [headSite, hc.1]

theorem Good.one {col : List (Site K)} (h : Good 1 col) : ∃ A, col = [A] ∧ A.Dr = 1 := by
  obtain ⟨hl, hc⟩ := h
  match col, hl, hc with
  | [A], _, hc => exact ⟨A, rfl, hc⟩

theorem Good.cons {n : Nat} {col : List (Site K)} (h : Good (n + 1) col) : col = headSite col :: col.tail := by
  obtain ⟨hl, _⟩ := h
  match col, hl with
  | A :: rest, _ => rfl

/-- splitting off the first summand of the tail of a sum -/
theorem runF_addTail_cons (n : Nat) : ∀ (X : List (Site K)) (cols : List (List (Site K))) (c : Config) (v V : Nat → K),
    Good (n + 1) X → (∀ col ∈ cols, Good (n + 1) col) →
    runF (addTail (n + 1) (X :: cols)) c (cat (headSite X).Dl v V) 0
      = runF X c v 0 + runF (addTail (n + 1) cols) c V 0 := by
  induction n with
  | zero =>
    intro X cols c v V hX hcols
    obtain ⟨A, rfl, hA⟩ := hX.one
    have hAs : heads cols = [] ∨ (headSite (heads cols)).Dr = 1 := by
      cases cols with
      | nil => left; rfl
      | cons Y _ =>
        right
        obtain ⟨B, rfl, hB⟩ := (hcols Y (by simp)).one
        simpa [heads, headSite] using hB
    simp only [addTail, heads_cons, headSite, runF]
    exact stepF_vcat_zero A (heads cols) v V _ _ hA hAs
  | succ n ih =>
    intro X cols c v V hX hcols
    have hXc := hX.cons
    obtain ⟨hXt, hXd⟩ := hX.tail
    have htl : ∀ col ∈ tails cols, Good (n + 1) col := by
      intro col hcol
      simp only [tails, List.mem_map] at hcol
      obtain ⟨Y, hY, rfl⟩ := hcol
      exact (hcols Y hY).tail.1
    have e1 : addTail (n + 1 + 1) (X :: cols) = bdiagSite (headSite X :: heads cols) :: addTail (n + 1) (X.tail :: tails cols) := rfl
    have e2 : addTail (n + 1 + 1) cols = bdiagSite (heads cols) :: addTail (n + 1) (tails cols) := rfl
    rw [e1, e2]
    simp only [runF]
    rw [stepF_bdiag, ← hXd, ih X.tail (tails cols) _ _ _ hXt htl]
    congr 1
    conv_rhs => rw [hXc]
    simp only [runF]

/-- direct sum of a list of boundary vectors -/
def catAll : List (Nat × (Nat → K)) → Nat → K
  | [] => fun _ => 0
  | p :: r => cat p.1 p.2 (catAll r)

theorem runF_addTail (n : Nat) (ps : List ((Nat → K) × List (Site K))) (c : Config)
    (h : ∀ p ∈ ps, Good (n + 1) p.2) :
    runF (addTail (n + 1) (ps.map Prod.snd)) c (catAll (ps.map (fun p => ((headSite p.2).Dl, p.1)))) 0
      = (ps.map (fun p => runF p.2 c p.1 0)).sum := by
  induction ps with
  | nil =>
    simp only [List.map_nil, catAll, List.sum_nil]
    rw [runF_zero]
  | cons p ps ih =>
    simp only [List.map_cons, catAll, List.sum_cons]
    rw [runF_addTail_cons n p.2 (ps.map Prod.snd) c p.1 _ (h p (by simp))
      (by intro col hcol; simp only [List.mem_map] at hcol; obtain ⟨q, hq, rfl⟩ := hcol; exact h q (by simp [hq]))]
    rw [ih (fun q hq => h q (by simp [hq]))]

/-- the first site of a sum: concatenation of the first steps -/
theorem stepF_hcat_all (As : List (Site K)) (D : Nat) (hD : ∀ A ∈ As, A.Dl = D) (v : Nat → K) (s t : Nat) :
    stepF v (hcatSite As) s t = catAll (As.map (fun A => (A.Dr, stepF v A s t))) := by
  induction As with
  | nil =>
    funext r
    simp [stepF, hcatSite, totDr, catAll]
  | cons A As ih =>
    have h : As = [] ∨ (headSite As).Dl = A.Dl := by
      cases As with
      | nil => left; rfl
      | cons B Bs => right; simp [headSite, hD A (by simp), hD B (by simp)]
    rw [stepF_hcat A As v s t h, ih (fun B hB => hD B (by simp [hB]))]
    rfl

theorem stepF_scale (a : K) (A : Site K) (v : Nat → K) (s t : Nat) :
    stepF v (scaleSite a A) s t = fun r => a * stepF v A s t r := by
  funext r
  unfold stepF scaleSite
  by_cases hr : r < A.Dr
  · simp only [hr, if_true, mul_sum]
    exact sum_congr rfl (fun l _ => by ring)
  · simp [hr]

theorem zipWith_scale_heads (qs : List (K × List (Site K))) :
    List.zipWith scaleSite (qs.map Prod.fst) (heads (qs.map Prod.snd)) = qs.map (fun q => scaleSite q.1 (headSite q.2)) := by
  induction qs with
  | nil => rfl
  | cons q qs ih => simp only [List.map_cons, heads_cons, List.zipWith_cons_cons, ih]

/-- **sum of chains, N ≥ 2** -/
theorem runF_addSites (n : Nat) (qs : List (K × List (Site K))) (c : Config)
    (h : ∀ q ∈ qs, Good (n + 2) q.2 ∧ (headSite q.2).Dl = 1) :
    runF (addSites (n + 2) (qs.map Prod.fst) (qs.map Prod.snd)) c e0 0 = (qs.map (fun q => q.1 * runF q.2 c e0 0)).sum := by
  have e1 : addSites (n + 2) (qs.map Prod.fst) (qs.map Prod.snd)
      = hcatSite (List.zipWith scaleSite (qs.map Prod.fst) (heads (qs.map Prod.snd))) :: addTail (n + 1) (tails (qs.map Prod.snd)) := rfl
  rw [e1, zipWith_scale_heads]
  simp only [runF]
  rw [stepF_hcat_all _ 1 (by
    intro A hA
    simp only [List.mem_map] at hA
    obtain ⟨q, hq, rfl⟩ := hA
    simpa [scaleSite] using (h q hq).2)]
  set s := (c.headD (0, 0)).1
  set t := (c.headD (0, 0)).2
  -- the list of (vector, remaining chain) pairs
  let ps : List ((Nat → K) × List (Site K)) := qs.map (fun q => (stepF e0 (scaleSite q.1 (headSite q.2)) s t, q.2.tail))
  have hps1 : tails (qs.map Prod.snd) = ps.map Prod.snd := by
    simp [ps, tails, List.map_map, Function.comp_def]
  have hps2 : (qs.map (fun q => scaleSite q.1 (headSite q.2))).map (fun A => (A.Dr, stepF e0 A s t))
      = ps.map (fun p => ((headSite p.2).Dl, p.1)) := by
    simp only [ps, List.map_map]
    apply List.map_congr_left
    intro q hq
    simp only [Function.comp_def]
    rw [((h q hq).1.tail).2]
    rfl
  rw [hps1, hps2, runF_addTail n ps c.tail (by
    intro p hp
    simp only [ps, List.mem_map] at hp
    obtain ⟨q, hq, rfl⟩ := hp
    exact ((h q hq).1.tail).1)]
  simp only [ps, List.map_map]
  congr 1
  apply List.map_congr_left
  intro q hq
  simp only [Function.comp_def]
  rw [stepF_scale, runF_smul]
  conv_rhs => rw [((h q hq).1 : Good (n + 1 + 1) q.2).cons]
  simp only [runF]
  rfl

/-- **sum of chains, N = 1**: weighted sum of the single tensors -/
theorem runF_addSites_one (qs : List (K × List (Site K))) (c : Config)
    (h : ∀ q ∈ qs, Good 1 q.2 ∧ (headSite q.2).Dl = 1) :
    runF (addSites 1 (qs.map Prod.fst) (qs.map Prod.snd)) c e0 0 = (qs.map (fun q => q.1 * runF q.2 c e0 0)).sum := by
  have e1 : addSites 1 (qs.map Prod.fst) (qs.map Prod.snd)
      = [sumSite (List.zipWith scaleSite (qs.map Prod.fst) (heads (qs.map Prod.snd)))] := rfl
  rw [e1, zipWith_scale_heads]
  simp only [runF]
  clear e1
  induction qs with
  | nil => simp [stepF, sumSite, headSite]
  | cons q qs ih =>
    obtain ⟨A, hA, hAr⟩ := (h q (by simp)).1.one
    have hAl : A.Dl = 1 := by have := (h q (by simp)).2; rw [hA] at this; simpa [headSite] using this
    have ih' := ih (fun q' hq' => h q' (by simp [hq']))
    simp only [List.map_cons, List.sum_cons]
    rw [← ih', hA]
    simp only [runF, headSite]
    unfold stepF
    simp only [sumSite, headSite, scaleSite, hAr, hAl, List.map_cons, sumA]
    cases qs with
    | nil => simp [sumA]; ring
    | cons q2 qs2 =>
      obtain ⟨B, hB, hBr⟩ := (h q2 (by simp)).1.one
      have hBl : B.Dl = 1 := by have := (h q2 (by simp)).2; rw [hB] at this; simpa [headSite] using this
      simp only [List.map_cons, hB, headSite, hBr, hBl]
      simp only [Nat.lt_one_iff, if_true, sum_range_one]
      ring

end YModel.DMps
