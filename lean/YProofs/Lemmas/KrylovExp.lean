import YProofs.Lemmas.KrylovMatrix
import Mathlib.Analysis.Normed.Algebra.MatrixExponential
import Mathlib.Analysis.RCLike.Basic
/-!
# The analytic limit of `aeval_apply_comb`: `exp(f) (V y) = V (exp(T) y)`

`𝕂 = ℝ` or `ℂ` (`RCLike`), `E` a complete normed space (e.g. finite-dimensional), `f` a continuous linear map with
`f V = V T` column-wise.  Both exponentials are the limits of their power series; the partial sums agree by
`pow_apply_comb`, and `y ↦ V y`, evaluation at a vector and `M ↦ M y` are continuous.
-/
namespace YModel.Krylov
open NormedSpace

variable {𝕂 E : Type} [RCLike 𝕂] [NormedAddCommGroup E] [NormedSpace 𝕂 E] {m : Nat}

set_option backward.isDefEq.respectTransparency false in
theorem matrix_exp_hasSum (T : Matrix (Fin m) (Fin m) 𝕂) :
    HasSum (fun n : ℕ => ((n.factorial : 𝕂)⁻¹) • T ^ n) (exp T) :=
  open scoped Matrix.Norms.Operator in exp_series_hasSum_exp' (𝕂 := 𝕂) T

theorem clm_exp_hasSum [CompleteSpace E] (f : E →L[𝕂] E) (x : E) :
    HasSum (fun n : ℕ => (((n.factorial : 𝕂)⁻¹) • f ^ n) x) ((exp f) x) :=
  (exp_series_hasSum_exp' (𝕂 := 𝕂) f).map (ContinuousLinearMap.apply 𝕂 E x) (ContinuousLinearMap.continuous _)

theorem comb_mulVec_continuous (V : Fin m → E) (y : Fin m → 𝕂) :
    Continuous fun M : Matrix (Fin m) (Fin m) 𝕂 => comb V (M.mulVec y) := by
  unfold comb
  exact continuous_finsetSum _ fun j _ =>
    ((continuous_apply j).comp (continuous_id.matrix_mulVec continuous_const)).smul continuous_const

/-- `exp(f) (V y) = V (exp(T) y)` -/
theorem exp_apply_comb [CompleteSpace E] (f : E →L[𝕂] E) (V : Fin m → E) (T : Matrix (Fin m) (Fin m) 𝕂)
    (hFV : ∀ j, f (V j) = ∑ i, T i j • V i) (y : Fin m → 𝕂) :
    (exp f) (comb V y) = comb V ((exp T).mulVec y) := by
  have h1 := clm_exp_hasSum f (comb V y)
  have h2 := (matrix_exp_hasSum T).map
    (AddMonoidHom.mk' (fun M : Matrix (Fin m) (Fin m) 𝕂 => comb V (M.mulVec y))
      (fun A B => by rw [Matrix.add_mulVec, comb_add])) (comb_mulVec_continuous V y)
  refine h1.unique (h2.congr_fun ?_)
  intro n
  show (((n.factorial : 𝕂)⁻¹) • f ^ n) (comb V y) = comb V ((((n.factorial : 𝕂)⁻¹) • T ^ n).mulVec y)
  rw [Matrix.smul_mulVec, comb_smul, _root_.smul_apply]
  congr 1
  have := pow_apply_comb (f : E →ₗ[𝕂] E) V T hFV n y
  rw [← this, ← ContinuousLinearMap.toLinearMap_pow]
  rfl

/-- `exp(t f) (V y) = V (exp(t T) y)` -/
theorem exp_smul_apply_comb [CompleteSpace E] (f : E →L[𝕂] E) (V : Fin m → E) (T : Matrix (Fin m) (Fin m) 𝕂)
    (hFV : ∀ j, f (V j) = ∑ i, T i j • V i) (t : 𝕂) (y : Fin m → 𝕂) :
    (exp (t • f)) (comb V y) = comb V ((exp (t • T)).mulVec y) := by
  apply exp_apply_comb
  intro j
  rw [_root_.smul_apply, hFV, Finset.smul_sum]
  refine Finset.sum_congr rfl (fun i _ => ?_)
  rw [Matrix.smul_apply, smul_smul, smul_eq_mul]

end YModel.Krylov
