import Mathlib.Tactic.Ring
import Mathlib.Algebra.BigOperators.Group.List.Basic
import YModel.ExpectSpec
import YProofs.Props.C05
/-! Lemmas about the expectation-value specification `YModel/ExpectSpec.lean` (C12). -/
namespace YModel.Expect
open YModel

variable {R : Type}

/-! ### canonical order -/

theorem insertBy_comm (a b : Op R) (h : a.site ≠ b.site) :
    ∀ S : List (Op R), insertBy siteLe a (insertBy siteLe b S) = insertBy siteLe b (insertBy siteLe a S)
  | [] => by
      simp only [insertBy, siteLe, natLe]
      by_cases h1 : a.site ≤ b.site <;> by_cases h2 : b.site ≤ a.site <;> simp [h1, h2] <;> omega
  | y :: ys => by
      have ih := insertBy_comm a b h ys
      simp only [insertBy, siteLe, natLe]
      by_cases h1 : b.site ≤ y.site <;> by_cases h2 : a.site ≤ y.site <;> by_cases h3 : a.site ≤ b.site <;>
        by_cases h4 : b.site ≤ a.site <;> simp [insertBy, siteLe, natLe, h1, h2, h3, h4, ih] <;> omega

theorem isort_append (l1 l2 : List (Op R)) :
    isort siteLe (l1 ++ l2) = l1.foldr (insertBy siteLe) (isort siteLe l2) := by
  induction l1 with
  | nil => rfl
  | cons x xs ih => simp only [List.cons_append, isort, ih, List.foldr_cons]

/-- exchanging two adjacent operators on different sites does not change the canonical order
(operators on the same site are never exchanged: the sort is stable) -/
theorem canon_swap_adjacent (pre : List (Op R)) (a b : Op R) (post : List (Op R)) (h : a.site ≠ b.site) :
    canon (pre ++ a :: b :: post) = canon (pre ++ b :: a :: post) := by
  unfold canon
  rw [isort_append, isort_append]
  simp only [isort]
  rw [insertBy_comm a b h]

/-! ### sign of an order -/

theorem natLe_totalPreorder : TotalPreorder natLe := by
  constructor
  · intro a b; simp only [natLe, decide_eq_true_eq]; omega
  · intro a b c; simp only [natLe, decide_eq_true_eq]; omega

theorem dotAll_comm : ∀ a b : Charge, dotAll a b = dotAll b a
  | [], b => by cases b <;> rfl
  | _ :: _, [] => rfl
  | x :: a, y :: b => by
    have ih := dotAll_comm a b
    unfold dotAll at ih ⊢
    simp only [List.zipWith_cons_cons, List.sum_cons, ih, Int.mul_comm]

theorem weight_comm (f : Fermionic) (a b : Charge) : f.weight a b = f.weight b a := by
  cases f with
  | all => exact dotAll_comm a b
  | none => rfl
  | mask m => exact fdot_comm m a b

theorem specSign_cases (f : Fermionic) (ops : List (Op R)) : specSign f ops = 1 ∨ specSign f ops = -1 :=
  sgn_cases _

/-- exchanging two adjacent operators on different sites changes the sign of the order by `(−1)^{⟨n_a,n_b⟩}` -/
theorem specSign_swap_adjacent (f : Fermionic) (pre : List (Op R)) (a b : Op R) (post : List (Op R))
    (h : a.site ≠ b.site) :
    specSign f (pre ++ a :: b :: post) = sgn (f.weight a.charge b.charge) * specSign f (pre ++ b :: a :: post) := by
  unfold specSign
  simp only [List.map_append, List.map_cons]
  by_cases hle : a.site ≤ b.site
  · have hba : natLe (Op.key b).1 (Op.key a).1 = false := by
      simp only [natLe, Op.key]; exact decide_eq_false (by omega)
    have := invSign_swap_adjacent f natLe_totalPreorder (pre.map Op.key) (Op.key b) (Op.key a) (post.map Op.key) hba
    rw [this, ← Int.mul_assoc]
    have hw : f.weight (Op.key b).2 (Op.key a).2 = f.weight a.charge b.charge := weight_comm f _ _
    rw [hw, sgn_mul_self, Int.one_mul]
  · have hab : natLe (Op.key a).1 (Op.key b).1 = false := by
      simp only [natLe, Op.key]; exact decide_eq_false (by omega)
    exact invSign_swap_adjacent f natLe_totalPreorder (pre.map Op.key) (Op.key a) (Op.key b) (post.map Op.key) hab

theorem zsign_mul [Ring R] (s t : Int) (hs : s = 1 ∨ s = -1) (ht : t = 1 ∨ t = -1) (x : R) :
    zsign (s * t) x = zsign s (zsign t x) := by
  rcases hs with rfl | rfl <;> rcases ht with rfl | rfl <;> simp [zsign]

theorem zsign_one [Neg R] (x : R) : zsign 1 x = x := by simp [zsign]

/-! ### linearity in the ket -/

section Linear
variable [CommRing R] (f : Fermionic) (basis : List Charge) (d : Nat) (conj : R → R)

theorem vdot_append (u w1 w2 : State R) : vdot conj u (w1 ++ w2) = vdot conj u w1 + vdot conj u w2 := by
  simp [vdot, List.map_append, List.sum_append]

theorem vdot_nil (u : State R) : vdot conj u [] = 0 := rfl

theorem applyOp_append (o : Op R) (v w : State R) :
    applyOp f basis d o (v ++ w) = applyOp f basis d o v ++ applyOp f basis d o w := by
  simp [applyOp, List.flatMap_append]

theorem applyAll_append (ops : List (Op R)) (v w : State R) :
    applyAll f basis d ops (v ++ w) = applyAll f basis d ops v ++ applyAll f basis d ops w := by
  induction ops with
  | nil => rfl
  | cons o ops ih => simp only [applyAll, List.foldr_cons] at ih ⊢; rw [ih, applyOp_append]

theorem pair_scale (c : R) (u : State R) (σ : Config) (β : R) :
    pair conj u (σ, c * β) = c * pair conj u (σ, β) := by
  unfold pair
  induction u with
  | nil => simp
  | cons a u ih =>
    simp only [List.map_cons, List.sum_cons, ih]
    split <;> ring

theorem vdot_scale (c : R) (u w : State R) : vdot conj u (scale c w) = c * vdot conj u w := by
  unfold vdot scale
  induction w with
  | nil => simp
  | cons b w ih =>
    simp only [List.map_cons, List.sum_cons, ih, pair_scale]
    ring

theorem zsign_scale (s : Int) (m c α : R) : zsign s (m * (c * α)) = c * zsign s (m * α) := by
  unfold zsign; split <;> ring

theorem applyTerm_scale (o : Op R) (c : R) (σ : Config) (α : R) :
    applyTerm f basis d o (σ, c * α) = scale c (applyTerm f basis d o (σ, α)) := by
  simp only [applyTerm, scale, List.map_map]
  apply List.map_congr_left
  intro a _
  simp only [Function.comp, zsign_scale]

theorem applyOp_scale (o : Op R) (c : R) (v : State R) :
    applyOp f basis d o (scale c v) = scale c (applyOp f basis d o v) := by
  induction v with
  | nil => rfl
  | cons t v ih =>
    have h1 : scale c (t :: v) = (t.1, c * t.2) :: scale c v := rfl
    have h2 : ∀ x y : State R, scale c (x ++ y) = scale c x ++ scale c y := by
      intro x y; simp [scale]
    rw [h1]
    simp only [applyOp, List.flatMap_cons] at ih ⊢
    rw [ih, h2, applyTerm_scale]

theorem applyAll_scale (ops : List (Op R)) (c : R) (v : State R) :
    applyAll f basis d ops (scale c v) = scale c (applyAll f basis d ops v) := by
  induction ops with
  | nil => rfl
  | cons o ops ih => simp only [applyAll, List.foldr_cons] at ih ⊢; rw [ih, applyOp_scale]

end Linear

end YModel.Expect

namespace YModel.Expect
open YModel
variable {R : Type}

/-! ### the identity operator -/

section Identity
variable [CommRing R] (f : Fermionic) (basis : List Charge) (d : Nat) (conj : R → R)

theorem pair_zero (u : State R) (σ : Config) : pair conj u (σ, 0) = 0 := by
  unfold pair
  induction u with
  | nil => rfl
  | cons a u ih => simp only [List.map_cons, List.sum_cons, ih]; split <;> simp

theorem sum_range_single (x : R) (k : Nat) : ∀ d : Nat, k < d →
    ((List.range d).map (fun a => if a = k then x else 0)).sum = x
  | 0, h => by omega
  | d + 1, h => by
    rw [List.range_succ, List.map_append, List.sum_append]
    by_cases hk : k = d
    · subst hk
      have : ((List.range k).map (fun a => if a = k then x else (0 : R))).sum = 0 := by
        apply List.sum_eq_zero
        intro y hy
        obtain ⟨a, ha, rfl⟩ := List.mem_map.mp hy
        have : a < k := List.mem_range.mp ha
        rw [if_neg (by omega)]
      simp [this]
    · have hlt : k < d := by omega
      rw [sum_range_single x k d hlt]
      have : d ≠ k := fun h => hk h.symm
      simp [this]

theorem set_getD_self (σ : Config) (i : Nat) : σ.set i (σ.getD i 0) = σ := by
  apply List.ext_getElem
  · simp
  · intro n h1 h2
    by_cases hn : i = n
    · subst hn
      simp only [List.getElem_set_self]
      simp [List.getD_eq_getElem?_getD, List.getElem?_eq_getElem h2]
    · simp [List.getElem_set_ne hn]

theorem stringSign_neutral (n : Charge) (hw : ∀ t, f.weight n t = 0) (i : Nat) (σ : Config) :
    stringSign f basis n i σ = 1 := by
  unfold stringSign
  have : ((σ.take i).map (fun a => f.weight n (basis.getD a []))).sum = 0 := by
    apply sum_map_zero
    intro a _
    exact hw _
  rw [this]; rfl

/-- an operator with the identity matrix and a neutral charge acts as the identity on a valid term -/
theorem vdot_applyTerm_identity (o : Op R) (hw : ∀ t, f.weight o.charge t = 0)
    (hI : ∀ a b, a < d → b < d → entry o.mat a b = if a = b then 1 else 0)
    (u : State R) (t : Config × R) (ht : t.1.getD o.site 0 < d) :
    vdot conj u (applyTerm f basis d o t) = pair conj u t := by
  obtain ⟨σ, α⟩ := t
  unfold vdot applyTerm
  simp only [List.map_map]
  have : ∀ a ∈ List.range d, (pair conj u ∘ fun a =>
      (σ.set o.site a, zsign (stringSign f basis o.charge o.site σ) (entry o.mat a (σ.getD o.site 0) * α))) a
      = if a = σ.getD o.site 0 then pair conj u (σ, α) else 0 := by
    intro a ha
    have had : a < d := List.mem_range.mp ha
    simp only [Function.comp, stringSign_neutral f basis o.charge hw, zsign_one, hI a _ had ht]
    by_cases h : a = σ.getD o.site 0
    · rw [if_pos h, if_pos h, h, set_getD_self, one_mul]
    · rw [if_neg h, if_neg h, zero_mul, pair_zero]
  rw [List.map_congr_left this]
  exact sum_range_single _ _ d ht

theorem vdot_applyOp_identity (o : Op R) (hw : ∀ t, f.weight o.charge t = 0)
    (hI : ∀ a b, a < d → b < d → entry o.mat a b = if a = b then 1 else 0)
    (u v : State R) (hv : ∀ t ∈ v, t.1.getD o.site 0 < d) :
    vdot conj u (applyOp f basis d o v) = vdot conj u v := by
  induction v with
  | nil => rfl
  | cons t v ih =>
    have h1 : applyOp f basis d o (t :: v) = applyTerm f basis d o t ++ applyOp f basis d o v := by
      simp [applyOp, List.flatMap_cons]
    have h2 : vdot conj u (t :: v) = pair conj u t + vdot conj u v := by simp [vdot]
    rw [h1, vdot_append, h2, ih (fun t' ht' => hv t' (List.mem_cons_of_mem _ ht')),
      vdot_applyTerm_identity f basis d conj o hw hI u t (hv t List.mem_cons_self)]

end Identity

end YModel.Expect
