import Mathlib.Analysis.InnerProductSpace.Basic
import Mathlib.Algebra.BigOperators.Intervals
/-!
# Nested orthogonal projections: Pythagoras + telescoping

Abstract real inner-product space `E` (a complex Hilbert space is one by restriction of scalars; norms agree).
An *orthogonal projection* is taken algebraically: a linear map that is idempotent and symmetric
(`IsOrthProj`); no completeness is needed.
-/
open scoped RealInnerProductSpace
open Finset

namespace YModel.Gauge

variable {E : Type*} [NormedAddCommGroup E] [InnerProductSpace ℝ E]

/-- algebraic orthogonal projection: idempotent and symmetric -/
structure IsOrthProj (P : E →ₗ[ℝ] E) : Prop where
  idem : ∀ x, P (P x) = P x
  symm : ∀ x y, ⟪P x, y⟫ = ⟪x, P y⟫

/-- the image is orthogonal to the residual -/
theorem IsOrthProj.inner_residual {P : E →ₗ[ℝ] E} (h : IsOrthProj P) (x : E) : ⟪P x, x - P x⟫ = 0 := by
  rw [inner_sub_right, h.symm x (P x), h.idem, h.symm x x, real_inner_comm (P x) x, sub_self]

/-- Pythagoras for one projection -/
theorem IsOrthProj.pythagoras {P : E →ₗ[ℝ] E} (h : IsOrthProj P) (x : E) :
    ‖x‖ ^ 2 = ‖P x‖ ^ 2 + ‖x - P x‖ ^ 2 := by
  have := norm_add_sq_real (P x) (x - P x)
  rw [h.inner_residual, add_sub_cancel] at this
  linarith

/-- relative local error `d = ‖x − P x‖ / ‖x‖` satisfies `‖P x‖² = (1 − d²) ‖x‖²` (also for `x = 0`,
where Lean's and yastn's convention `0/0 = 0` agree) -/
theorem IsOrthProj.kept_norm {P : E →ₗ[ℝ] E} (h : IsOrthProj P) (x : E) :
    ‖P x‖ ^ 2 = (1 - (‖x - P x‖ / ‖x‖) ^ 2) * ‖x‖ ^ 2 := by
  by_cases hx : ‖x‖ = 0
  · have hx0 : x = 0 := norm_eq_zero.mp hx
    subst hx0
    simp
  · have := h.pythagoras x
    field_simp
    linarith

/-- a vector fixed by `P` is orthogonal to every residual of `P` -/
theorem IsOrthProj.fixed_orth_residual {P : E →ₗ[ℝ] E} (h : IsOrthProj P) {y : E} (hy : P y = y) (x : E) :
    ⟪y, x - P x⟫ = 0 := by
  rw [← hy, h.symm y (x - P x), map_sub, h.idem, sub_self, inner_zero_right]

section sweep
variable (P : ℕ → E →ₗ[ℝ] E) (ψ : ℕ → E) (m : ℕ)

/-- local relative weight discarded by step `k` -/
noncomputable def dloc (ψ : ℕ → E) (k : ℕ) : ℝ := ‖ψ k - ψ (k + 1)‖ / ‖ψ k‖

/-- the kept norm: needs only that every step is an orthogonal projection -/
theorem kept_norm_prod (hP : ∀ k < m, IsOrthProj (P k)) (hψ : ∀ k < m, ψ (k + 1) = P k (ψ k)) :
    ‖ψ m‖ ^ 2 = (∏ k ∈ range m, (1 - dloc ψ k ^ 2)) * ‖ψ 0‖ ^ 2 := by
  induction m with
  | zero => simp
  | succ m ih =>
    have ih' := ih (fun k hk => hP k (by omega)) (fun k hk => hψ k (by omega))
    rw [prod_range_succ, hψ m (by omega), (hP m (by omega)).kept_norm (ψ m), ih']
    unfold dloc
    rw [hψ m (by omega)]
    ring

/-- the error: needs in addition that the final state is fixed by every projector of the sweep (nesting) -/
theorem error_of_fixed (hP : ∀ k < m, IsOrthProj (P k)) (hψ : ∀ k < m, ψ (k + 1) = P k (ψ k))
    (hfix : ∀ k < m, P k (ψ m) = ψ m) :
    ‖ψ 0 - ψ m‖ ^ 2 = ‖ψ 0‖ ^ 2 - ‖ψ m‖ ^ 2 := by
  -- ψ m ⟂ ψ 0 − ψ m, by telescoping over the residuals
  have tel : ∀ j ≤ m, ⟪ψ m, ψ 0 - ψ j⟫ = 0 := by
    intro j
    induction j with
    | zero => intro _; simp
    | succ j ih =>
      intro hj
      have h1 : ψ 0 - ψ (j + 1) = (ψ 0 - ψ j) + (ψ j - P j (ψ j)) := by
        rw [hψ j (by omega)]; abel
      rw [h1, inner_add_right, ih (by omega), (hP j (by omega)).fixed_orth_residual (hfix j (by omega)), add_zero]
  have h0 := tel m (Nat.le_refl _)
  have := norm_add_sq_real (ψ m) (ψ 0 - ψ m)
  rw [h0, add_sub_cancel] at this
  linarith

end sweep
end YModel.Gauge
