import YProofs.Lemmas.DotHelpers
/-!
Assembling a full index / key / list of leg spaces of an operand from its outer part (at the remaining
axes) and its contracted part (at the contracted axes): `asmG`, the generic form of the model's `assemble`.
Picking the two parts back, and dense location (`locAt`, `keyAt`, `posAt`) at assembled indices.
-/
namespace YModel

/-- an axis split of `rank` legs: `inn` duplicate-free and in range, `out` its complement (ascending) -/
structure AxSplit (rank : Nat) (out inn : List Nat) : Prop where
  out_eq : out = complementAxes rank inn
  nd : inn.Nodup
  lt : ∀ p ∈ inn, p < rank

def asmG {α} [Inhabited α] (rank : Nat) (posOut : List Nat) (x : List α) (posIn : List Nat) (y : List α) : List α :=
  (List.range rank).map (fun p =>
    let q := posOut.idxOf p
    if q < posOut.length then x.getD q default else y.getD (posIn.idxOf p) default)

theorem assemble_eq_asmG (rank : Nat) (posOut i posIn c : List Nat) :
    assemble rank posOut i posIn c = asmG rank posOut i posIn c := rfl

@[simp] theorem asmG_length {α} [Inhabited α] (rank : Nat) (o : List Nat) (x : List α) (n : List Nat) (y : List α) :
    (asmG rank o x n y).length = rank := by simp [asmG]

namespace AxSplit
variable {rank : Nat} {out inn : List Nat} (h : AxSplit rank out inn)
include h

theorem mem_out {p : Nat} : p ∈ out ↔ p < rank ∧ p ∉ inn := by
  rw [h.out_eq]; unfold complementAxes
  simp [List.mem_filter, List.mem_range]

theorem out_nodup : out.Nodup := by
  rw [h.out_eq]; unfold complementAxes; exact List.nodup_range.filter _

theorem out_lt {p : Nat} (hp : p ∈ out) : p < rank := (h.mem_out.mp hp).1

theorem cases_lt {p : Nat} (hp : p < rank) : p ∈ out ∨ p ∈ inn := by
  by_cases hi : p ∈ inn
  · exact Or.inr hi
  · exact Or.inl (h.mem_out.mpr ⟨hp, hi⟩)

theorem not_out_of_in {p : Nat} (hp : p ∈ inn) : p ∉ out := fun ho => (h.mem_out.mp ho).2 hp

theorem perm : (out ++ inn).Perm (List.range rank) := by
  rw [h.out_eq]; exact complement_perm rank inn h.nd h.lt

theorem length_add : out.length + inn.length = rank := by
  have := h.perm.length_eq
  simpa using this

end AxSplit

theorem getD_idxOf {l : List Nat} {p : Nat} (hp : p ∈ l) (d : Nat) : l.getD (l.idxOf p) d = p := by
  have hi : l.idxOf p < l.length := List.idxOf_lt_length_iff.mpr hp
  rw [List.getD_eq_getElem?_getD, List.getElem?_eq_getElem hi]
  simp

theorem idxOf_lt_iff {l : List Nat} {p : Nat} : l.idxOf p < l.length ↔ p ∈ l := List.idxOf_lt_length_iff

section
variable {α : Type} [Inhabited α] {rank : Nat} {out inn : List Nat}

theorem asmG_getD (x y : List α) {p : Nat} (hp : p < rank) :
    (asmG rank out x inn y).getD p default =
      if out.idxOf p < out.length then x.getD (out.idxOf p) default else y.getD (inn.idxOf p) default := by
  unfold asmG
  rw [List.getD_eq_getElem?_getD, List.getElem?_map, List.getElem?_range hp]
  rfl

theorem asmG_getD_out (h : AxSplit rank out inn) (x y : List α) {p : Nat} (hp : p ∈ out) :
    (asmG rank out x inn y).getD p default = x.getD (out.idxOf p) default := by
  rw [asmG_getD x y (h.out_lt hp), if_pos (idxOf_lt_iff.mpr hp)]

theorem asmG_getD_in (h : AxSplit rank out inn) (x y : List α) {p : Nat} (hp : p ∈ inn) :
    (asmG rank out x inn y).getD p default = y.getD (inn.idxOf p) default := by
  rw [asmG_getD x y (h.lt p hp), if_neg (fun hlt => h.not_out_of_in hp (idxOf_lt_iff.mp hlt))]

/-- picking the outer axes of an assembled list gives the outer part back -/
theorem pick_asmG_out (h : AxSplit rank out inn) (x y : List α) (hx : x.length = out.length) :
    pick (asmG rank out x inn y) out = x := by
  apply List.ext_getElem
  · simp [pick, hx]
  · intro k h1 h2
    have hk : k < out.length := by simpa [pick] using h1
    simp only [pick, List.getElem_map]
    rw [asmG_getD_out h x y (List.getElem_mem hk), h.out_nodup.idxOf_getElem k hk,
      List.getD_eq_getElem?_getD, List.getElem?_eq_getElem h2]
    rfl

/-- picking the contracted axes of an assembled list gives the contracted part back -/
theorem pick_asmG_in (h : AxSplit rank out inn) (x y : List α) (hy : y.length = inn.length) :
    pick (asmG rank out x inn y) inn = y := by
  apply List.ext_getElem
  · simp [pick, hy]
  · intro k h1 h2
    have hk : k < inn.length := by simpa [pick] using h1
    simp only [pick, List.getElem_map]
    rw [asmG_getD_in h x y (List.getElem_mem hk), h.nd.idxOf_getElem k hk,
      List.getD_eq_getElem?_getD, List.getElem?_eq_getElem h2]
    rfl

/-- a list is assembled from its own outer and contracted parts -/
theorem asmG_pick (h : AxSplit rank out inn) (l : List α) (hl : l.length = rank) :
    asmG rank out (pick l out) inn (pick l inn) = l := by
  apply List.ext_getElem
  · simp [hl]
  · intro k h1 h2
    have hk : k < rank := by simpa using h1
    have e : (asmG rank out (pick l out) inn (pick l inn))[k] = (asmG rank out (pick l out) inn (pick l inn)).getD k default := by
      rw [List.getD_eq_getElem?_getD, List.getElem?_eq_getElem h1]; rfl
    rw [e]
    have e2 : l[k] = l.getD k default := by
      rw [List.getD_eq_getElem?_getD, List.getElem?_eq_getElem h2]; rfl
    rw [e2]
    rcases h.cases_lt hk with ho | hi
    · rw [asmG_getD_out h _ _ ho, pick_getD l out _ _ (idxOf_lt_iff.mpr ho), getD_idxOf ho]
    · rw [asmG_getD_in h _ _ hi, pick_getD l inn _ _ (idxOf_lt_iff.mpr hi), getD_idxOf hi]

/-- two lists of full length with the same outer and the same contracted parts are equal -/
theorem eq_of_pick_eq (h : AxSplit rank out inn) (l l' : List α) (hl : l.length = rank) (hl' : l'.length = rank)
    (ho : pick l out = pick l' out) (hi : pick l inn = pick l' inn) : l = l' := by
  rw [← asmG_pick h l hl, ← asmG_pick h l' hl', ho, hi]

end

/-! ### dense location at assembled indices -/

section
variable {rank : Nat} {out inn : List Nat}

theorem locAt_asm (La Ms : List LegSpace) (i μ : List Nat) {x : Nat} (hx : x < rank) :
    locAt (asmG rank out La inn Ms) (asmG rank out i inn μ) x =
      if out.idxOf x < out.length then locAt La i (out.idxOf x) else locAt Ms μ (inn.idxOf x) := by
  unfold locAt
  have e1 : (asmG rank out La inn Ms).getD x [] = (asmG rank out La inn Ms).getD x default := rfl
  have e2 : (asmG rank out i inn μ).getD x 0 = (asmG rank out i inn μ).getD x default := rfl
  rw [e1, e2, asmG_getD La Ms hx, asmG_getD i μ hx]
  split <;> rfl

theorem keyAt_asm (h : AxSplit rank out inn) (La Ms : List LegSpace) (i μ : List Nat) :
    keyAt (asmG rank out La inn Ms) (asmG rank out i inn μ) rank =
      asmG rank out (keyAt La i out.length) inn (keyAt Ms μ inn.length) := by
  unfold keyAt asmG
  apply List.map_congr_left
  intro x hx
  have hxr := List.mem_range.mp hx
  have := locAt_asm (out := out) (inn := inn) La Ms i μ hxr
  unfold asmG at this
  rw [this]
  by_cases ho : out.idxOf x < out.length
  · simp only [ho, if_true]
    rw [List.getD_eq_getElem?_getD, List.getElem?_map, List.getElem?_range ho]
    rfl
  · simp only [ho, if_false]
    have hi : x ∈ inn := by
      rcases h.cases_lt hxr with h1 | h1
      · exact absurd (idxOf_lt_iff.mpr h1) ho
      · exact h1
    rw [List.getD_eq_getElem?_getD, List.getElem?_map, List.getElem?_range (idxOf_lt_iff.mpr hi)]
    rfl

theorem posAt_asm (h : AxSplit rank out inn) (La Ms : List LegSpace) (i μ : List Nat) :
    posAt (asmG rank out La inn Ms) (asmG rank out i inn μ) rank =
      asmG rank out (posAt La i out.length) inn (posAt Ms μ inn.length) := by
  unfold posAt asmG
  apply List.map_congr_left
  intro x hx
  have hxr := List.mem_range.mp hx
  have := locAt_asm (out := out) (inn := inn) La Ms i μ hxr
  unfold asmG at this
  rw [this]
  by_cases ho : out.idxOf x < out.length
  · simp only [ho, if_true]
    rw [List.getD_eq_getElem?_getD, List.getElem?_map, List.getElem?_range ho]
    rfl
  · simp only [ho, if_false]
    have hi : x ∈ inn := by
      rcases h.cases_lt hxr with h1 | h1
      · exact absurd (idxOf_lt_iff.mpr h1) ho
      · exact h1
    rw [List.getD_eq_getElem?_getD, List.getElem?_map, List.getElem?_range (idxOf_lt_iff.mpr hi)]
    rfl

theorem allLoc_asm (h : AxSplit rank out inn) (La Ms : List LegSpace) (i μ : List Nat) :
    (List.range rank).all (fun x => (locAt (asmG rank out La inn Ms) (asmG rank out i inn μ) x).isSome) =
      ((List.range out.length).all (fun k => (locAt La i k).isSome) &&
       (List.range inn.length).all (fun k => (locAt Ms μ k).isSome)) := by
  rw [Bool.eq_iff_iff]
  simp only [Bool.and_eq_true, List.all_eq_true, List.mem_range]
  constructor
  · intro hall
    refine ⟨?_, ?_⟩
    · intro k hk
      have hm : out[k] ∈ out := List.getElem_mem hk
      have := hall out[k] (h.out_lt hm)
      rw [locAt_asm La Ms i μ (h.out_lt hm), if_pos (idxOf_lt_iff.mpr hm), h.out_nodup.idxOf_getElem k hk] at this
      exact this
    · intro k hk
      have hm : inn[k] ∈ inn := List.getElem_mem hk
      have := hall inn[k] (h.lt _ hm)
      rw [locAt_asm La Ms i μ (h.lt _ hm),
        if_neg (fun hlt => h.not_out_of_in hm (idxOf_lt_iff.mp hlt)), h.nd.idxOf_getElem k hk] at this
      exact this
  · rintro ⟨h1, h2⟩ x hx
    rw [locAt_asm La Ms i μ hx]
    rcases h.cases_lt hx with ho | hi
    · rw [if_pos (idxOf_lt_iff.mpr ho)]; exact h1 _ (idxOf_lt_iff.mpr ho)
    · rw [if_neg (fun hlt => h.not_out_of_in hi (idxOf_lt_iff.mp hlt))]; exact h2 _ (idxOf_lt_iff.mpr hi)

end

end YModel
