import YProofs.Props.C02
import Mathlib.Algebra.BigOperators.Group.List.Basic
import Mathlib.Algebra.Ring.Defs
/-! Splitting a sum over the dense range of a leg space into sums over its sectors (core of `toDense_tensordot`). -/
namespace YModel
variable {R : Type} [CommRing R]

theorem foldl_add_eq_sum (l : List R) (a : R) : l.foldl (· + ·) a = a + l.sum := by
  induction l generalizing a with
  | nil => simp
  | cons x xs ih => simp only [List.foldl_cons, List.sum_cons]; rw [ih]; ring

/-- `sumIdx` over a one-leg shape is a plain sum over the range -/
theorem sumIdx_single (d : Nat) (f : List Nat → R) :
    sumIdx [d] f = ((List.range d).map (fun i => f [i])).sum := by
  unfold sumIdx
  rw [foldl_add_eq_sum, zero_add]
  congr 1
  simp [allIdx, List.map_flatMap, List.flatMap_singleton']
  induction List.range d with
  | nil => rfl
  | cons x xs ih => simp [List.flatMap_cons, ih]

def liftLoc (g : Charge → Nat → R) : Option (Charge × Nat) → R
  | some (t, p) => g t p
  | none => 0

theorem range_add_map (m n : Nat) (f : Nat → R) :
    ((List.range (m + n)).map f).sum = ((List.range m).map f).sum + ((List.range n).map (fun i => f (m + i))).sum := by
  rw [List.range_add, List.map_append, List.sum_append, List.map_map]
  rfl

theorem foldl_nat_start (l : List Nat) (a : Nat) : l.foldl (· + ·) a = a + l.foldl (· + ·) 0 := by
  induction l generalizing a with
  | nil => simp
  | cons x xs ih => simp only [List.foldl_cons]; rw [ih (a + x), ih (0 + x)]; omega

theorem legDim_cons (t : Charge) (D : Nat) (rest : LegSpace) :
    LegSpace.dim ((t, D) :: rest) = D + LegSpace.dim rest := by
  simp only [LegSpace.dim, List.map_cons, List.foldl_cons]
  rw [foldl_nat_start]; omega

/-- **sum split**: a sum over the dense positions of a leg space is the sum over its sectors of the sums over
the positions inside each sector -/
theorem sum_split (g : Charge → Nat → R) (L : LegSpace) :
    ((List.range L.dim).map (fun m => liftLoc g (locate L m))).sum
      = (L.map (fun td => ((List.range td.2).map (fun q => g td.1 q)).sum)).sum := by
  induction L with
  | nil => simp [LegSpace.dim]
  | cons hd rest ih =>
    obtain ⟨t, D⟩ := hd
    rw [legDim_cons, range_add_map, List.map_cons, List.sum_cons]
    congr 1
    · apply congrArg
      apply List.map_congr_left
      intro i hi
      have := List.mem_range.mp hi
      simp [locate, this, liftLoc]
    · rw [← ih]
      apply congrArg
      apply List.map_congr_left
      intro i _
      simp [locate, liftLoc]

/-- a sum over a duplicate-free list only sees the support of the summand -/
theorem sum_supported {α : Type} [DecidableEq α] (M S : List α) (F : α → R) (hM : M.Nodup) (hS : S.Nodup)
    (hsub : ∀ x ∈ S, x ∈ M) (hz : ∀ x ∈ M, x ∉ S → F x = 0) : (M.map F).sum = (S.map F).sum := by
  have h1 : (M.filter (fun x => decide (x ∈ S))).Perm S := by
    apply (List.perm_ext_iff_of_nodup (hM.filter _) hS).mpr
    intro x
    simp only [List.mem_filter, decide_eq_true_eq]
    exact ⟨fun h => h.2, fun h => ⟨hsub x h, h⟩⟩
  have h2 := List.filter_append_perm (fun x => decide (x ∈ S)) M
  rw [← (h2.map F).sum_eq, List.map_append, List.sum_append, (h1.map F).sum_eq]
  have : ((M.filter (fun x => !(fun x => decide (x ∈ S)) x)).map F).sum = 0 := by
    apply List.sum_eq_zero
    intro y hy
    obtain ⟨x, hx, rfl⟩ := List.mem_map.mp hy
    simp only [List.mem_filter, Bool.not_eq_true', decide_eq_false_iff_not] at hx
    exact hz x hx.1 hx.2
  rw [this, _root_.add_zero]

end YModel
