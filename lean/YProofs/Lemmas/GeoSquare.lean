import YModel.Geometry
/-! Lemmas about the square-lattice part of the geometry model (C20). Core Lean only. -/
namespace YModel.Geo

/-! ### integer arithmetic -/

theorem emod_in_range {N : Int} (hN : 0 < N) (x : Int) : 0 ≤ x % N ∧ x % N < N :=
  ⟨Int.emod_nonneg x (Int.ne_of_gt hN), Int.emod_lt_of_pos x hN⟩

/-- wrapping only when outside `[0, N)` is the same as always taking the remainder -/
theorem wrap_eq_emod {N : Int} (hN : 0 < N) (x : Int) :
    (if x < 0 ∨ x ≥ N then x % N else x) = x % N := by
  split
  · rfl
  · rename_i h
    exact (Int.emod_eq_of_lt (by omega) (by omega)).symm

theorem emod_sub_cancel {N : Int} (x d : Int) : ((x + d) % N - d) % N = x % N := by
  rw [Int.emod_def (x + d) N]
  have : x + d - N * ((x + d) / N) - d = x + N * (-((x + d) / N)) := by
    rw [Int.mul_neg]; omega
  rw [this, Int.add_mul_emod_self_left]

theorem emod_eq_iff_dvd (a b N : Int) : a % N = b % N ↔ N ∣ a - b := by
  rw [Int.emod_eq_emod_iff_emod_sub_eq_zero, Int.dvd_iff_emod_eq_zero]

/-- uniqueness of the mixed-radix representation `a * N + b` with `0 ≤ b < N` -/
theorem mixed_radix_inj {N a b a' b' : Int} (hb : 0 ≤ b ∧ b < N) (hb' : 0 ≤ b' ∧ b' < N)
    (h : a * N + b = a' * N + b') : a = a' ∧ b = b' := by
  have hN : 0 < N := by omega
  have e1 : (a * N + b) % N = b := by
    rw [Int.add_comm, Int.mul_comm, Int.add_mul_emod_self_left]; exact Int.emod_eq_of_lt hb.1 hb.2
  have e2 : (a' * N + b') % N = b' := by
    rw [Int.add_comm, Int.mul_comm, Int.add_mul_emod_self_left]; exact Int.emod_eq_of_lt hb'.1 hb'.2
  have hbb : b = b' := by rw [← e1, ← e2, h]
  subst hbb
  have : a * N = a' * N := by omega
  exact ⟨Int.eq_of_mul_eq_mul_right (by omega) this, rfl⟩

/-! ### `nn_site` -/

/-- sites on which `nn_site` is meaningful: inside the lattice in every open direction -/
def Sq.inLattice (g : Sq) (s : Site) : Prop :=
  (g.bd.px = .o → 0 ≤ s.1 ∧ s.1 < g.Nx) ∧ (g.bd.py = .o → 0 ≤ s.2 ∧ s.2 < g.Ny)

instance (g : Sq) (s : Site) : Decidable (g.inLattice s) := by unfold Sq.inLattice; infer_instance

/-- the site of the stored cell that `s` denotes: identity except for the periodic direction of a cylinder -/
def Sq.canon (g : Sq) (s : Site) : Site :=
  if g.bd.px = .p then (s.1 % g.Nx, s.2) else s

/-- the cell `[0, Nx) × [0, Ny)` -/
def Sq.inCell (g : Sq) (s : Site) : Prop := 0 ≤ s.1 ∧ s.1 < g.Nx ∧ 0 ≤ s.2 ∧ s.2 < g.Ny

instance (g : Sq) (s : Site) : Decidable (g.inCell s) := by unfold Sq.inCell; infer_instance

theorem Sq.canon_of_inCell {g : Sq} {s : Site} (h : g.inCell s) : g.canon s = s := by
  unfold Sq.canon
  split
  · obtain ⟨h1, h2, _, _⟩ := h
    rw [Int.emod_eq_of_lt h1 h2]
  · rfl

theorem Sq.inLattice_of_inCell {g : Sq} {s : Site} (h : g.inCell s) : g.inLattice s :=
  ⟨fun _ => ⟨h.1, h.2.1⟩, fun _ => ⟨h.2.2.1, h.2.2.2⟩⟩

/-- closed form of `nn_site` on an infinite lattice -/
theorem Sq.nnSite_infinite {g : Sq} (hb : g.bd = .infinite) (s : Site) (d : Int × Int) :
    g.nnSite s d = some (s.1 + d.1, s.2 + d.2) := by
  simp [Sq.nnSite, hb, Boundary.px, Boundary.py]

/-- closed form of `nn_site` with open boundaries -/
theorem Sq.nnSite_obc {g : Sq} (hb : g.bd = .obc) (s : Site) (d : Int × Int) :
    g.nnSite s d = if 0 ≤ s.1 + d.1 ∧ s.1 + d.1 < g.Nx ∧ 0 ≤ s.2 + d.2 ∧ s.2 + d.2 < g.Ny
      then some (s.1 + d.1, s.2 + d.2) else none := by
  simp only [Sq.nnSite, hb, Boundary.px, Boundary.py, true_and, reduceCtorEq, false_and, if_false]
  split
  · rw [if_neg (by omega)]
  · split
    · rw [if_neg (by omega)]
    · rw [if_pos (by omega)]

/-- closed form of `nn_site` on a cylinder -/
theorem Sq.nnSite_cylinder {g : Sq} (hb : g.bd = .cylinder) (hx : 0 < g.Nx) (s : Site) (d : Int × Int) :
    g.nnSite s d = if 0 ≤ s.2 + d.2 ∧ s.2 + d.2 < g.Ny
      then some ((s.1 + d.1) % g.Nx, s.2 + d.2) else none := by
  simp only [Sq.nnSite, hb, Boundary.px, Boundary.py, true_and, reduceCtorEq, false_and, if_false]
  have hN : (0 : Int) < g.Nx := by omega
  split
  · rw [if_neg (by omega)]
  · rw [if_pos (show 0 ≤ s.2 + d.2 ∧ s.2 + d.2 < (g.Ny : Int) by omega)]
    split
    · rfl
    · rename_i h
      rw [Int.emod_eq_of_lt (by omega) (by omega)]


theorem Sq.nnSite_snd {g : Sq} {s s' : Site} {d : Int × Int} (h : g.nnSite s d = some s') : s'.2 = s.2 + d.2 := by
  unfold Sq.nnSite at h
  simp only at h
  split at h
  · exact absurd h (by simp)
  · split at h
    · exact absurd h (by simp)
    · split at h <;> (cases h; rfl)

/-- general inverse law, for an arbitrary shift `d` -/
theorem Sq.nnSite_inverse_shift (g : Sq) (hx : 0 < g.Nx) (s s' : Site) (d : Int × Int)
    (hs : g.inLattice s) (h : g.nnSite s d = some s') :
    g.nnSite s' (-d.1, -d.2) = some (g.canon s) := by
  have hN : (0 : Int) < g.Nx := by omega
  obtain ⟨hsx, hsy⟩ := hs
  cases hb : g.bd with
  | infinite =>
    rw [Sq.nnSite_infinite hb] at h ⊢
    cases h
    simp only [Sq.canon, hb, Boundary.px, reduceCtorEq, if_false]
    congr 1
    ext <;> simp <;> omega
  | obc =>
    rw [Sq.nnSite_obc hb] at h ⊢
    have hsx := hsx (by simp [hb, Boundary.px])
    have hsy := hsy (by simp [hb, Boundary.py])
    split at h
    · cases h
      simp only [Sq.canon, hb, Boundary.px, reduceCtorEq, if_false]
      rw [if_pos (by (try dsimp only); omega)]
      congr 1
      ext <;> simp <;> omega
    · exact absurd h (by simp)
  | cylinder =>
    rw [Sq.nnSite_cylinder hb hx] at h ⊢
    have hsy := hsy (by simp [hb, Boundary.py])
    split at h
    · cases h
      simp only [Sq.canon, hb, Boundary.px, if_true]
      rw [if_pos (by (try dsimp only); omega)]
      congr 1
      ext
      · show ((s.1 + d.1) % (g.Nx : Int) + -d.1) % (g.Nx : Int) = s.1 % (g.Nx : Int)
        rw [← Int.sub_eq_add_neg, emod_sub_cancel]
      · show s.2 + d.2 + -d.2 = s.2
        omega
    · exact absurd h (by simp)

theorem Dir.opp_vec (d : Dir) : d.opp.vec = (-d.vec.1, -d.vec.2) := by cases d <;> rfl

/-! ### `sites()` -/

theorem Sq.mem_sites {g : Sq} {s : Site} : s ∈ g.sites ↔ g.inCell s := by
  unfold Sq.sites Sq.inCell
  simp only [List.mem_flatMap, List.mem_map, List.mem_range]
  constructor
  · rintro ⟨ny, hny, nx, hnx, rfl⟩
    simp only []
    omega
  · rintro ⟨h1, h2, h3, h4⟩
    refine ⟨s.2.toNat, by omega, s.1.toNat, by omega, ?_⟩
    ext <;> simp <;> omega

/-- strict fermionic order -/
def fLt (a b : Site) : Prop := fOrdered a b = true ∧ a ≠ b

theorem fLt_iff (a b : Site) : fLt a b ↔ a.2 < b.2 ∨ (a.2 = b.2 ∧ a.1 < b.1) := by
  unfold fLt fOrdered
  simp only [Bool.or_eq_true, Bool.and_eq_true, decide_eq_true_eq, ne_eq]
  constructor
  · rintro ⟨h, hne⟩
    rcases h with h | ⟨h1, h2⟩
    · exact Or.inl h
    · refine Or.inr ⟨h1, ?_⟩
      have : a.1 ≠ b.1 := fun e => hne (Prod.ext e h1)
      omega
  · rintro (h | ⟨h1, h2⟩)
    · exact ⟨Or.inl h, fun e => by rw [e] at h; omega⟩
    · exact ⟨Or.inr ⟨h1, by omega⟩, fun e => by rw [e] at h2; omega⟩

theorem Sq.sites_pairwise_fLt (g : Sq) : g.sites.Pairwise fLt := by
  unfold Sq.sites
  rw [List.pairwise_flatMap]
  constructor
  · intro ny _
    rw [List.pairwise_map]
    refine List.pairwise_lt_range.imp ?_
    intro a b hab
    rw [fLt_iff]
    right
    simp only [true_and]
    omega
  · refine List.pairwise_lt_range.imp ?_
    intro a b hab x hx y hy
    simp only [List.mem_map, List.mem_range] at hx hy
    obtain ⟨_, _, rfl⟩ := hx
    obtain ⟨_, _, rfl⟩ := hy
    rw [fLt_iff]
    left
    simp only []
    omega

theorem Sq.sites_nodup (g : Sq) : g.sites.Nodup := by
  rw [List.nodup_iff_pairwise_ne]
  exact g.sites_pairwise_fLt.imp (fun h => h.2)

theorem Sq.length_sites (g : Sq) : g.sites.length = g.Nx * g.Ny := by
  unfold Sq.sites
  rw [List.length_flatMap]
  simp only [List.length_map, List.length_range]
  rw [List.map_const', List.sum_replicate_nat, List.length_range, Nat.mul_comm]

/-! ### bonds -/

theorem Sq.mem_bondsTo {g : Sq} {d : Dir} {ss : List Site} {b : Bond} :
    b ∈ g.bondsTo d ss ↔ b.1 ∈ ss ∧ g.nnSite b.1 d.vec = some b.2 := by
  unfold Sq.bondsTo
  rw [List.mem_filterMap]
  constructor
  · rintro ⟨s, hs, h⟩
    cases hn : g.nnSite s d.vec with
    | none => rw [hn] at h; exact absurd h (by simp)
    | some s' =>
      rw [hn] at h
      simp only [Option.map_some, Option.some.injEq] at h
      subst h
      exact ⟨hs, hn⟩
  · rintro ⟨h1, h2⟩
    exact ⟨b.1, h1, by rw [h2]; rfl⟩

theorem Sq.bondsTo_nodup {g : Sq} {d : Dir} {ss : List Site} (h : ss.Nodup) : (g.bondsTo d ss).Nodup := by
  unfold Sq.bondsTo
  rw [List.nodup_iff_pairwise_ne] at h ⊢
  refine List.Pairwise.filterMap _ ?_ h
  intro a a' hne b hb b' hb' e
  subst e
  cases h1 : g.nnSite a d.vec with
  | none => rw [h1] at hb; exact absurd hb (by simp)
  | some x =>
    cases h2 : g.nnSite a' d.vec with
    | none => rw [h2] at hb'; exact absurd hb' (by simp)
    | some y =>
      rw [h1] at hb; rw [h2] at hb'
      simp only [Option.map_some, Option.some.injEq] at hb hb'
      rw [← hb] at hb'
      exact hne (by cases hb'; rfl)

end YModel.Geo
