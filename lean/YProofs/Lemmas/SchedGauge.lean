import YModel.Sched
/-! Gauge / central-block bookkeeping of the sweeps (C09 `dmrg_exit_state`, gauge part): the projection of the state
machine onto `(pC, g)` does not depend on the dictionary. -/
set_option linter.unusedSimpArgs false
set_option linter.unusedVariables false

namespace YModel.Sched

abbrev GP := Option Nat × (Nat → Gauge)

/-- effect of one event on the central-block position and the per-site gauge -/
def gstep (N : Nat) (s : GP) : Ev → GP
  | .w1 n => (s.1, setG s.2 n .none)
  | .w2 n => (some (n + 1), setG (setG s.2 n .left) (n + 1) .right)
  | .orth n .first => (some n, setG s.2 n .right)
  | .orth n .last => (some (n + 1), setG s.2 n .left)
  | .abs to =>
    match s.1 with
    | none => s
    | some m => (none, setG s.2 (absSite N to m) (if m = 0 ∨ m = N then s.2 (absSite N to m) else .none))
  | _ => s

def gexec (N : Nat) (s : GP) (es : List Ev) : GP := es.foldl (gstep N) s

theorem writeDerived_gp (st : St) (ks : List Key) :
    (writeDerived st ks).1.pC = st.pC ∧ (writeDerived st ks).1.g = st.g := by
  unfold writeDerived
  suffices h : ∀ (acc : St × List String), acc.1.pC = st.pC ∧ acc.1.g = st.g →
      (ks.foldl (fun (acc : St × List String) k =>
        match k.parent with
        | none => (acc.1, acc.2 ++ [s!"unexpected write {keyStr k}"])
        | some p => match acc.1.F p with
          | none => (acc.1, acc.2 ++ [s!"missing {keyStr p}"])
          | some s => ({ acc.1 with F := setF acc.1.F k (some s) }, acc.2)) acc).1.pC = st.pC ∧
      (ks.foldl (fun (acc : St × List String) k =>
        match k.parent with
        | none => (acc.1, acc.2 ++ [s!"unexpected write {keyStr k}"])
        | some p => match acc.1.F p with
          | none => (acc.1, acc.2 ++ [s!"missing {keyStr p}"])
          | some s => ({ acc.1 with F := setF acc.1.F k (some s) }, acc.2)) acc).1.g = st.g from h (st, []) ⟨rfl, rfl⟩
  induction ks with
  | nil => intro acc h; exact h
  | cons k ks ih =>
    intro acc h
    simp only [List.foldl_cons]
    apply ih
    split
    · exact h
    · split
      · exact h
      · exact h

theorem next_gp (N : Nat) (pre : Bool) (st : St) (e : Ev) :
    ((next N pre st e).pC, (next N pre st e).g) = gstep N (st.pC, st.g) e := by
  cases e with
  | upd n to =>
    cases to <;> simp [next, applyRaw, effOf, gstep]
  | clr ns => simp [next, applyRaw, effOf, gstep]
  | h0 m => simp [next, applyRaw, gstep, (writeDerived_gp st _).1, (writeDerived_gp st _).2]
  | h1 n => simp [next, applyRaw, gstep, (writeDerived_gp st _).1, (writeDerived_gp st _).2]
  | h2 n => simp [next, applyRaw, gstep, (writeDerived_gp st _).1, (writeDerived_gp st _).2]
  | meas m => simp [next, applyRaw, gstep, (writeDerived_gp st _).1, (writeDerived_gp st _).2]
  | w1 n => simp [next, applyRaw, effOf, gstep, St.write]
  | w2 n => simp [next, applyRaw, effOf, gstep, St.write]
  | orth n to => cases to <;> simp [next, applyRaw, effOf, gstep, St.write]
  | abs to =>
    simp only [next, applyRaw, effOf, gstep]
    cases h : st.pC with
    | none => simp [h]
    | some m => simp [h, St.write]
  | wC m => simp [next, applyRaw, effOf, gstep]
  | mA n s => simp [next, applyRaw, effOf, gstep]
  | mAA n s => simp [next, applyRaw, effOf, gstep]
  | mC m s => simp [next, applyRaw, effOf, gstep]
  | enl m r => simp [next, applyRaw, effOf, gstep]

theorem exec_gp (N : Nat) (pre : Bool) (st : St) (es : List Ev) :
    ((exec N pre st es).1.pC, (exec N pre st es).1.g) = gexec N (st.pC, st.g) es := by
  induction es generalizing st with
  | nil => rfl
  | cons e es ih =>
    simp only [exec, gexec, List.foldl_cons]
    rw [ih, next_gp]
    rfl

theorem gexec_append (N : Nat) (s : GP) (a b : List Ev) : gexec N s (a ++ b) = gexec N (gexec N s a) b := by
  simp [gexec, List.foldl_append]

/-- no central block, and all sites `k ≥ p` are right-canonical -/
def Gg (N p : Nat) (s : GP) : Prop := s.1 = none ∧ ∀ k, p ≤ k → k < N → s.2 k = .right

theorem Gg_mono {N p q : Nat} {s : GP} (h : Gg N p s) (hq : p ≤ q) : Gg N q s := ⟨h.1, fun k hk hN => h.2 k (by omega) hN⟩

theorem gloopUp {α : Type} (N : Nat) (P : GP → Prop) (f : α → List Ev) (hf : ∀ i s, P s → P (gexec N s (f i))) :
    ∀ (l : List α) (s : GP), P s → P (gexec N s (l.flatMap f)) := by
  intro l
  induction l with
  | nil => intro s h; exact h
  | cons x xs ih => intro s h; rw [List.flatMap_cons, gexec_append]; exact ih _ (hf x s h)

theorem gloopDown (N : Nat) (P : Nat → GP → Prop) (f : Nat → List Ev) :
    ∀ k, (∀ i s, i < k → P (i + 1) s → P i (gexec N s (f i))) → ∀ s, P k s → P 0 (gexec N s ((List.range k).reverse.flatMap f)) := by
  intro k
  induction k with
  | zero => intro _ s h; exact h
  | succ k ih =>
    intro hf s h
    rw [List.range_succ, List.reverse_append, List.reverse_singleton, List.singleton_append, List.flatMap_cons, gexec_append]
    exact ih (fun i s hi hp => hf i s (by omega) hp) _ (hf k s (by omega) h)

theorem g_dmrg1_last (N n : Nat) (s : GP) (h : s.1 = none) : (gexec N s (dmrg1Step .last n)).1 = none := by
  obtain ⟨pc, g⟩ := s
  simp only at h; subst h
  simp [gexec, dmrg1Step, gstep]

theorem g_dmrg2_last (N n : Nat) (s : GP) (h : s.1 = none) : (gexec N s (dmrg2Step .last 0 n)).1 = none := by
  obtain ⟨pc, g⟩ := s
  simp only at h; subst h
  simp [gexec, dmrg2Step, gstep]

theorem g_dmrg1_first (N j : Nat) (hj : j < N) (s : GP) (h : Gg N (j + 1) s) : Gg N j (gexec N s (dmrg1Step .first j)) := by
  obtain ⟨pc, g⟩ := s
  obtain ⟨h1, h2⟩ := h
  simp only at h1; subst h1
  simp only [gexec, dmrg1Step, gstep, List.foldl_cons, List.foldl_nil]
  refine ⟨rfl, ?_⟩
  intro k hk hN
  by_cases h0 : j = 0
  · subst h0
    simp only [absSite, setG]
    by_cases hk0 : k = 0
    · subst hk0; simp
    · have : g k = .right := h2 k (by omega) hN
      simp [hk0, this]
  · have hs : absSite N .first j = j - 1 := by simp [absSite]; omega
    simp only [hs, setG]
    have hkj : k ≠ j - 1 := by omega
    by_cases hkj' : k = j
    · subst hkj'; simp [hkj]
    · have : g k = .right := h2 k (by omega) hN
      simp [hkj, hkj', this]

theorem g_dmrg2_first (N n : Nat) (_hn : n + 1 < N) (s : GP) (h : Gg N (n + 2) s) :
    Gg N (n + 1) (gexec N s (dmrg2Step .first 1 n)) := by
  obtain ⟨pc, g⟩ := s
  obtain ⟨h1, h2⟩ := h
  simp only at h1; subst h1
  simp only [gexec, dmrg2Step, gstep, List.foldl_cons, List.foldl_nil]
  refine ⟨rfl, ?_⟩
  intro k hk hN
  have hs : absSite N .first (n + 1) = n := by simp [absSite]
  simp only [hs, setG]
  have hkn : k ≠ n := by omega
  by_cases hk1 : k = n + 1
  · subst hk1; simp
  · have : g k = .right := h2 k (by omega) hN
    simp [hkn, hk1, this]

theorem g_sweep_one (N : Nat) (s : GP) (h : s.1 = none) : Gg N 0 (gexec N s (dmrg1Sweep N)) := by
  unfold dmrg1Sweep
  rw [gexec_append]
  have up := gloopUp N (fun s => s.1 = none) (dmrg1Step .last) (fun i s hs => g_dmrg1_last N i s hs) (List.range N) s h
  exact gloopDown N (fun i => Gg N i) (dmrg1Step .first) N (fun i s hi hp => g_dmrg1_first N i hi s hp) _
    ⟨up, fun k hk hN => by omega⟩

theorem g_sweep_two (N : Nat) (hN : 1 ≤ N) (s : GP) (h : s.1 = none) : Gg N 1 (gexec N s (dmrg2Sweep N)) := by
  unfold dmrg2Sweep
  rw [gexec_append, gexec_append]
  have up := gloopUp N (fun s => s.1 = none) (dmrg2Step .last 0) (fun i s hs => g_dmrg2_last N i s hs) (List.range (N - 1)) s h
  have down := gloopDown N (fun i => Gg N (i + 1)) (dmrg2Step .first 1) (N - 1)
    (fun i s hi hp => g_dmrg2_first N i (by omega) s hp) _ ⟨up, fun k hk hN' => by omega⟩
  exact down

theorem g_sweep_pn (N : Nat) (hN : 1 ≤ N) (m : Method) (s : GP) (h : s.1 = none) :
    (gexec N s (dmrgSweep m N ++ [.meas 0])).1 = none := by
  rw [gexec_append]
  cases m with
  | one => exact (g_sweep_one N s h).1
  | two => exact (g_sweep_two N hN s h).1
  | onetwo => exact (g_sweep_two N hN s h).1

theorem g_setup (N : Nat) (s : GP) : gexec N s (setupFirst N) = s := by
  unfold setupFirst gexec
  induction (List.range N).reverse generalizing s with
  | nil => rfl
  | cons x xs ih => simp only [List.map_cons, List.foldl_cons, gstep]; exact ih s

theorem g_canonize (N : Nat) (s : GP) (h : s.1 = none) : (gexec N s (canonizeFirst N)).1 = none := by
  unfold canonizeFirst
  obtain ⟨pc, g⟩ := s
  simp only at h; subst h
  have e : gexec N (none, g) (.abs .first :: (List.range N).reverse.flatMap (fun n => [.orth n .first, .abs .first])) =
      gexec N (none, g) ((List.range N).reverse.flatMap (fun n => [.orth n .first, .abs .first])) := by
    simp [gexec, gstep]
  rw [e]
  apply gloopUp N (fun s => s.1 = none) (fun n => [.orth n .first, .abs .first]) _ _ _ rfl
  intro i s hs
  obtain ⟨pc, g⟩ := s
  simp only at hs; subst hs
  simp [gexec, gstep]

theorem g_sweeps_pn (N : Nat) (hN : 1 ≤ N) (ms : List Method) (s : GP) (h : s.1 = none) :
    (gexec N s (ms.flatMap (fun m => dmrgSweep m N ++ [.meas 0]))).1 = none :=
  gloopUp N (fun s => s.1 = none) (fun m => dmrgSweep m N ++ [.meas 0]) (fun m s hs => g_sweep_pn N hN m s hs) ms s h

end YModel.Sched
