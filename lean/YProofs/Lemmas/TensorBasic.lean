import YModel.Ops
import YProofs.Lemmas.KeyOrder
/-! Lookup lemmas for the block model and the `ofKeys` constructor. -/
namespace YModel
variable {R : Type}

theorem find?_key_some {l : List (Key × Block R)} {k : Key} {kb : Key × Block R}
    (h : l.find? (fun x => x.1 == k) = some kb) : kb ∈ l ∧ kb.1 = k := by
  have h1 := List.mem_of_find?_eq_some h
  have h2 := List.find?_some h
  exact ⟨h1, by simpa using h2⟩

theorem Tensor.get?_some_mem {T : Tensor R} {k : Key} {b : Block R} (h : T.get? k = some b) :
    (k, b) ∈ T.blocks := by
  unfold Tensor.get? at h
  cases hf : T.blocks.find? (fun kb => kb.1 == k) with
  | none => rw [hf] at h; cases h
  | some kb =>
    rw [hf] at h
    simp only [Option.map_some, Option.some.injEq] at h
    obtain ⟨h1, h2⟩ := find?_key_some hf
    cases kb with
    | mk k' b' => simp only at h h2; subst h; subst h2; exact h1

/-- with duplicate-free keys, lookup finds exactly the stored block -/
theorem Tensor.get?_of_mem {T : Tensor R} (hs : T.keys.Pairwise (fun a b => keyLt a b = true))
    {k : Key} {b : Block R} (h : (k, b) ∈ T.blocks) : T.get? k = some b := by
  unfold Tensor.get?
  have hnd : (T.blocks.map (·.1)).Nodup := nodup_of_pairwise_lt keyLt_strictTotal hs
  generalize T.blocks = l at h hnd
  induction l with
  | nil => cases h
  | cons x xs ih =>
    rw [List.map_cons, List.nodup_cons] at hnd
    rcases List.mem_cons.mp h with rfl | hx
    · simp [List.find?_cons]
    · have hne : (x.1 == k) = false := by
        rw [beq_eq_false_iff_ne]
        intro hxk
        apply hnd.1
        rw [hxk]
        exact List.mem_map_of_mem (f := (·.1)) hx
      rw [List.find?_cons, hne]
      exact ih hx hnd.2

theorem Tensor.get?_none_iff {T : Tensor R} {k : Key} : T.get? k = none ↔ k ∉ T.keys := by
  unfold Tensor.get? Tensor.keys
  rw [Option.map_eq_none_iff, List.find?_eq_none]
  constructor
  · intro h hk
    obtain ⟨kb, hkb, rfl⟩ := List.mem_map.mp hk
    exact absurd (h kb hkb) (by simp)
  · intro h kb hkb
    simp only [beq_iff_eq]
    intro hk
    exact h (hk ▸ List.mem_map_of_mem (f := (·.1)) hkb)

theorem Tensor.keys_ofKeys (T : Tensor R) (ks : List Key) (f : Key → Block R) :
    (T.ofKeys ks f).keys = sortDedup keyLt ks := by
  simp [Tensor.ofKeys, Tensor.keys, List.map_map, Function.comp_def]

theorem Tensor.mem_ofKeys {T : Tensor R} {ks : List Key} {f : Key → Block R} {kb : Key × Block R} :
    kb ∈ (T.ofKeys ks f).blocks ↔ kb.1 ∈ ks ∧ kb.2 = f kb.1 := by
  simp only [Tensor.ofKeys, List.mem_map]
  constructor
  · rintro ⟨k, hk, rfl⟩
    exact ⟨(mem_sortDedup keyLt_strictTotal k ks).mp hk, rfl⟩
  · rintro ⟨h1, h2⟩
    exact ⟨kb.1, (mem_sortDedup keyLt_strictTotal _ ks).mpr h1, by rw [← h2]⟩

theorem Tensor.sorted_ofKeys (T : Tensor R) (ks : List Key) (f : Key → Block R) :
    (T.ofKeys ks f).keys.Pairwise (fun a b => keyLt a b = true) := by
  rw [Tensor.keys_ofKeys]; exact pairwise_sortDedup keyLt_strictTotal ks

theorem Tensor.get?_ofKeys (T : Tensor R) (ks : List Key) (f : Key → Block R) (k : Key) :
    (T.ofKeys ks f).get? k = if k ∈ ks then some (f k) else none := by
  by_cases hk : k ∈ ks
  · rw [if_pos hk]
    exact Tensor.get?_of_mem (Tensor.sorted_ofKeys T ks f) (Tensor.mem_ofKeys.mpr ⟨hk, rfl⟩)
  · rw [if_neg hk, Tensor.get?_none_iff, Tensor.keys_ofKeys, mem_sortDedup keyLt_strictTotal]
    exact hk

/-! `mapVals` changes values only -/

theorem Tensor.keys_mapVals (f : R → R) (T : Tensor R) : (T.mapVals f).keys = T.keys := by
  simp [Tensor.mapVals, Tensor.keys, List.map_map, Function.comp_def]

theorem Tensor.get?_mapVals (f : R → R) (T : Tensor R) (k : Key) :
    (T.mapVals f).get? k = (T.get? k).map (Block.map f) := by
  unfold Tensor.get? Tensor.mapVals
  simp only
  induction T.blocks with
  | nil => rfl
  | cons x xs ih =>
    simp only [List.map_cons, List.find?_cons]
    cases h : (x.1 == k)
    · simp only []; exact ih
    · simp [Block.map]

theorem dimsConsB_iff (rank : Nat) (bs : List (Key × Block R))
    (hr : ∀ kb ∈ bs, kb.1.length = rank ∧ kb.2.shape.length = rank) :
    dimsConsB rank bs = true ↔ DimsCons bs := by
  unfold dimsConsB DimsCons
  simp only [List.all_eq_true, Bool.or_eq_true, bne_iff_ne, beq_iff_eq, List.mem_range]
  constructor
  · intro h x hx y hy i hxy
    by_cases hi : i < rank
    · rcases h x hx y hy i hi with h' | h'
      · exact absurd hxy h'
      · exact h'
    · have h1 := (hr x hx).2
      have h2 := (hr y hy).2
      simp [List.getD, List.getElem?_eq_none (by omega : x.2.shape.length ≤ i),
        List.getElem?_eq_none (by omega : y.2.shape.length ≤ i)]
  · intro h x hx y hy i _
    by_cases hxy : x.1.getD i [] = y.1.getD i []
    · right; exact h x hx y hy i hxy
    · left; exact hxy

end YModel
