import YProofs.Lemmas.SymLemmas
import Mathlib.Data.Int.ModEq
import Mathlib.Tactic.Ring
/-! Component-level (ℤ) and vector-level group laws of the canonical fusion rule. -/
namespace YModel
open Int

/-- `x % m` for `m : Nat` cast — canonical range -/
theorem canonRange_emod (m : Nat) (x : Int) : canonRange m (x % (m : Int)) = true := by
  unfold canonRange
  by_cases hm : m = 0
  · simp [hm]
  · have hpos : (0 : Int) < m := by omega
    simp [hm, Int.emod_nonneg x (by omega : (m : Int) ≠ 0), Int.emod_lt_of_pos x hpos]

theorem emod_of_canonRange {m : Nat} {x : Int} (h : canonRange m x = true) : x % (m : Int) = x := by
  unfold canonRange at h
  by_cases hm : m = 0
  · simp [hm]
  · simp [hm] at h
    exact Int.emod_eq_of_lt h.1 h.2

theorem sign_sq {s : Int} (h : s = 1 ∨ s = -1) : s * s = 1 := by
  rcases h with h | h <;> subst h <;> rfl

/-- per-group congruence behind the grouping law -/
theorem group_modEq (m : Int) (σ R : Int) (hσ : σ = 1 ∨ σ = -1) :
    σ * ((σ * R) % m) ≡ R [ZMOD m] := by
  have h1 : σ * ((σ * R) % m) ≡ σ * (σ * R) [ZMOD m] := Int.ModEq.mul_left σ (Int.mod_modEq _ _)
  have h2 : σ * (σ * R) = R := by rw [← Int.mul_assoc, sign_sq hσ, Int.one_mul]
  rw [h2] at h1; exact h1

/-- One fusion group: its charges, their signatures and the signature of the fused leg. -/
structure FGroup where
  cs : List Charge
  ss : List Int
  σ : Int

def FGroup.ok (g : FGroup) : Prop := g.cs.length = g.ss.length ∧ (g.σ = 1 ∨ g.σ = -1)

theorem rawComp_flat (G : List FGroup) (hG : ∀ g ∈ G, g.ok) (j : Nat) :
    rawComp (G.flatMap (·.cs)) (G.flatMap (·.ss)) j = (G.map (fun g => rawComp g.cs g.ss j)).sum := by
  induction G with
  | nil => simp [rawComp]
  | cons g G ih =>
    simp only [List.flatMap_cons, List.map_cons, List.sum_cons]
    rw [rawComp_append _ _ _ _ _ (hG g (by simp)).1, ih (fun g' hg' => hG g' (by simp [hg']))]

theorem rawComp_outer (m : Nat) (G : List FGroup) (hG : ∀ g ∈ G, g.ok) (j : Nat) (f : FGroup → Charge)
    (hf : ∀ g ∈ G, (f g).getD j 0 = (g.σ * rawComp g.cs g.ss j) % (m : Int)) :
    rawComp (G.map f) (G.map (·.σ)) j ≡ (G.map (fun g => rawComp g.cs g.ss j)).sum [ZMOD (m : Int)] := by
  induction G with
  | nil => simp [rawComp]
  | cons g G ih =>
    simp only [List.map_cons, List.sum_cons, rawComp_cons]
    apply Int.ModEq.add
    · rw [hf g (by simp)]
      exact group_modEq _ _ _ (hG g (by simp)).2
    · exact ih (fun g' hg' => hG g' (by simp [hg'])) (fun g' hg' => hf g' (by simp [hg']))

end YModel
