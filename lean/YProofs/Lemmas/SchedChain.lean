import YModel.Sched
/-! Lemmas for `half_sweep_overlap_chain` (C10): list structure of the local updates of the TDVP sweeps. -/
set_option linter.unusedSimpArgs false
set_option linter.unusedVariables false

namespace YModel.Sched

theorem updsOf_append (N : Nat) (a b : List Ev) : updsOf N (a ++ b) = updsOf N a ++ updsOf N b := by
  induction a with
  | nil => rfl
  | cons e es ih =>
    cases e <;> simp only [List.cons_append, updsOf, ih]
    split <;> simp

theorem updsOf_updA (N n : Nat) (s : Sgn) : updsOf N (updA n s) = [.site n n s] := by
  simp [updA, updsOf]

theorem updsOf_updAA (N n : Nat) (s : Sgn) : updsOf N (updAA n s) = [.site n (n + 1) s] := by
  simp [updAA, updsOf]

theorem updsOf_updC (N m : Nat) : updsOf N (updC N m) = if m = 0 ∨ m = N then [] else [.bond m .plus] := by
  unfold updC
  split <;> simp [updsOf, *]

/-- how a backward update `x` and the next forward update `y` continue a chain that ended at `hi`; `e` = new end -/
def Link (hi : Nat) (x y : Upd) (e : Nat) : Prop :=
  (x = .site hi hi .plus ∧ y = .site hi e .minus ∧ (e = hi ∨ e = hi + 1)) ∨
  (x = .bond (hi + 1) .plus ∧ y = .site (hi + 1) e .minus ∧ (e = hi + 1 ∨ e = hi + 2))

theorem isChain_snoc (x y : Upd) (e : Nat) :
    ∀ (n : Nat) (us : List Upd), us.length ≤ n → ∀ lo hi, isChain lo hi us = true → Link hi x y e →
      isChain lo e (us ++ [x, y]) = true := by
  intro n
  induction n with
  | zero =>
    intro us hl lo hi h _
    cases us with
    | nil => simp [isChain] at h
    | cons u r => simp at hl
  | succ n ih =>
    intro us hl lo hi h hk
    rcases us with _ | ⟨u, rest⟩
    · simp [isChain] at h
    cases u with
    | bond m s => simp [isChain] at h
    | site a b s =>
      cases s with
      | plus => simp [isChain] at h
      | minus =>
        rcases rest with _ | ⟨v, rest'⟩
        · simp [isChain] at h
          obtain ⟨⟨rfl, hb⟩, rfl⟩ := h
          rcases hk with ⟨rfl, rfl, he⟩ | ⟨rfl, rfl, he⟩
          · simp [isChain]; omega
          · simp [isChain]; omega
        cases v with
        | site c d s' =>
          cases s' with
          | minus => simp [isChain] at h
          | plus =>
            simp [isChain] at h
            obtain ⟨⟨rfl, hb⟩, ⟨rfl, rfl⟩, hr⟩ := h
            have := ih rest' (by simp at hl; omega) _ _ hr hk
            simp [isChain, this]; omega
        | bond m s' =>
          cases s' with
          | minus => simp [isChain] at h
          | plus =>
            simp [isChain] at h
            obtain ⟨⟨rfl, hb⟩, rfl, hr⟩ := h
            have := ih rest' (by simp at hl; omega) _ _ hr hk
            simp [isChain, this]; omega

theorem isChainDown_reverse :
    ∀ (n : Nat) (us : List Upd), us.length ≤ n → ∀ hi lo, isChainDown hi lo us = true →
      isChain lo hi us.reverse = true := by
  intro n
  induction n with
  | zero =>
    intro us hl hi lo h
    cases us with
    | nil => simp [isChainDown] at h
    | cons u r => simp at hl
  | succ n ih =>
    intro us hl hi lo h
    rcases us with _ | ⟨u, rest⟩
    · simp [isChainDown] at h
    cases u with
    | bond m s => simp [isChainDown] at h
    | site a b s =>
      cases s with
      | plus => simp [isChainDown] at h
      | minus =>
        rcases rest with _ | ⟨v, rest'⟩
        · simp [isChainDown] at h
          obtain ⟨⟨rfl, hb⟩, rfl⟩ := h
          simp [isChain]; omega
        cases v with
        | site c d s' =>
          cases s' with
          | minus => simp [isChainDown] at h
          | plus =>
            simp [isChainDown] at h
            obtain ⟨⟨hbh, hb⟩, ⟨hc, hd⟩, hr⟩ := h
            rw [hc, hd, ← hbh]
            have h1 := ih rest' (by simp at hl; omega) _ _ hr
            have h2 := isChain_snoc (.site a a .plus) (.site a b .minus) b rest'.reverse.length rest'.reverse
              (Nat.le_refl _) lo a h1 (Or.inl ⟨rfl, rfl, by omega⟩)
            simpa [List.reverse_cons, List.append_assoc] using h2
        | bond m s' =>
          cases s' with
          | minus => simp [isChainDown] at h
          | plus =>
            simp [isChainDown] at h
            obtain ⟨⟨hbh, hb⟩, ⟨hm, ha⟩, hr⟩ := h
            rw [hm, ← hbh]
            have h1 := ih rest' (by simp at hl; omega) _ _ hr
            have h2 := isChain_snoc (.bond a .plus) (.site a b .minus) b rest'.reverse.length rest'.reverse
              (Nat.le_refl _) lo (a - 1) h1 (Or.inr ⟨by congr 1; omega, by congr 1; omega, by omega⟩)
            simpa [List.reverse_cons, List.append_assoc] using h2

theorem updsOf_tdvp1Step_last (N n : Nat) :
    updsOf N (tdvp1Step N .last n) = .site n n .minus :: (if n + 1 = N then [] else [.bond (n + 1) .plus]) := by
  simp only [tdvp1Step, updsOf_append, updsOf_updA, updsOf_updC, bondAfter, updsOf]
  split <;> simp_all

theorem updsOf_tdvp1Step_first (N n : Nat) (h : n < N) :
    updsOf N (tdvp1Step N .first n) = .site n n .minus :: (if n = 0 then [] else [.bond n .plus]) := by
  simp only [tdvp1Step, updsOf_append, updsOf_updA, updsOf_updC, bondAfter, updsOf]
  have : n ≠ N := by omega
  split <;> simp_all

theorem chain_fwd1 (N : Nat) : ∀ k n, n + k = N → 1 ≤ k →
    isChain n (N - 1) (updsOf N ((List.range' n k).flatMap (tdvp1Step N .last))) = true := by
  intro k
  induction k with
  | zero => intro n _ h; omega
  | succ k ih =>
    intro n hn _
    rw [List.range'_succ, List.flatMap_cons, updsOf_append, updsOf_tdvp1Step_last]
    by_cases hk : k = 0
    · subst hk
      have h1 : n + 1 = N := by omega
      subst h1
      simp [isChain, updsOf]
    · have h1 : ¬ n + 1 = N := by omega
      have := ih (n + 1) (by omega) (by omega)
      simp [h1, isChain, this]

theorem chain_bwd1 (N : Nat) : ∀ k, 1 ≤ k → k ≤ N →
    isChainDown (k - 1) 0 (updsOf N ((List.range k).reverse.flatMap (tdvp1Step N .first))) = true := by
  intro k
  induction k with
  | zero => intro h; omega
  | succ k ih =>
    intro _ hk
    rw [List.range_succ, List.reverse_append, List.reverse_singleton, List.singleton_append, List.flatMap_cons,
      updsOf_append, updsOf_tdvp1Step_first N k (by omega)]
    by_cases h0 : k = 0
    · subst h0; simp [isChainDown, updsOf]
    · have := ih (by omega) (by omega)
      simp [h0, isChainDown, this]; omega

theorem updsOf_tdvp2Step_last (N n : Nat) :
    updsOf N (tdvp2Step N .last n) =
      .site n (n + 1) .minus :: (if n + 1 ≠ N - 1 then [.site (n + 1) (n + 1) .plus] else []) := by
  simp only [tdvp2Step, updsOf_append, updsOf_updAA, updsOf]
  split <;> simp [updsOf_updA, updsOf]

theorem updsOf_tdvp2Step_first (N n : Nat) :
    updsOf N (tdvp2Step N .first n) = .site n (n + 1) .minus :: (if n ≠ 0 then [.site n n .plus] else []) := by
  simp only [tdvp2Step, updsOf_append, updsOf_updAA, updsOf]
  split <;> simp_all [updsOf_updA, updsOf]

theorem chain_fwd2 (N : Nat) : ∀ k n, n + k = N - 1 → 1 ≤ k →
    isChain n (N - 1) (updsOf N ((List.range' n k).flatMap (tdvp2Step N .last))) = true := by
  intro k
  induction k with
  | zero => intro n _ h; omega
  | succ k ih =>
    intro n hn _
    rw [List.range'_succ, List.flatMap_cons, updsOf_append, updsOf_tdvp2Step_last]
    by_cases hk : k = 0
    · subst hk
      have h1 : n + 1 = N - 1 := by omega
      simp [h1, isChain, updsOf]
    · have h1 : n + 1 ≠ N - 1 := by omega
      have := ih (n + 1) (by omega) (by omega)
      simp [h1, isChain, this]

theorem chain_bwd2 (N : Nat) : ∀ k, 1 ≤ k →
    isChainDown k 0 (updsOf N ((List.range k).reverse.flatMap (tdvp2Step N .first))) = true := by
  intro k
  induction k with
  | zero => intro h; omega
  | succ k ih =>
    intro _
    rw [List.range_succ, List.reverse_append, List.reverse_singleton, List.singleton_append, List.flatMap_cons,
      updsOf_append, updsOf_tdvp2Step_first]
    by_cases h0 : k = 0
    · subst h0; simp [isChainDown, updsOf]
    · have := ih (by omega)
      simp [h0, isChainDown, this]

theorem enlOut_true {N m : Nat} {o : List Bool} (h : (enlOut N m o).1 = true) : m ≠ 0 ∧ m < N := by
  cases o with
  | nil => simp [enlOut] at h
  | cons b o' =>
    simp only [enlOut] at h
    split at h
    · simp at h
    · omega

theorem chain_fwd12 (N : Nat) : ∀ (k n : Nat) (two : Bool) (o : List Bool), n + k = N → 1 ≤ k → (two = true → 1 ≤ n) →
    isChain (if two then n - 1 else n) (N - 1) (updsOf N (tdvp12Fwd N k two o).1) = true := by
  intro k
  induction k with
  | zero => intro n two o _ h; omega
  | succ k ih =>
    intro n two o hn _ htwo
    have hN : N - (k + 1) = n := by omega
    rcases hE : enlOut N (n + 1) o with ⟨e, o1⟩
    have he : e = true → n + 1 < N := by
      intro h; have := enlOut_true (N := N) (m := n + 1) (o := o) (by rw [hE]; exact h); exact this.2
    cases two with
    | false =>
      cases e with
      | true =>
        rcases hR : tdvp12Fwd N k true o1 with ⟨rest, o2⟩
        have := ih (n + 1) true o1 (by omega) (by have := he rfl; omega) (by intro _; omega)
        rw [hR] at this
        simp only [tdvp12Fwd, hN, hE, Bool.not_false, ↓reduceIte, hR, updsOf]
        simpa using this
      | false =>
        rcases hR : tdvp12Fwd N k false o1 with ⟨rest, o2⟩
        simp only [tdvp12Fwd, hN, hE, Bool.not_false, ↓reduceIte, hR, updsOf, updsOf_append, updsOf_tdvp1Step_last,
          Bool.false_eq_true]
        by_cases hk0 : k = 0
        · subst hk0
          have h1 : n + 1 = N := by omega
          simp only [tdvp12Fwd, Prod.mk.injEq] at hR
          subst h1
          simp [← hR.1, isChain, updsOf]
        · have := ih (n + 1) false o1 (by omega) (by omega) (by intro h; cases h)
          rw [hR] at this
          simp only [Bool.false_eq_true, ↓reduceIte] at this
          have h1 : ¬ n + 1 = N := by omega
          simp [h1, isChain, this]
    | true =>
      obtain ⟨n', rfl⟩ : ∃ n', n = n' + 1 := ⟨n - 1, by have := htwo rfl; omega⟩
      cases e with
      | true =>
        rcases hR : tdvp12Fwd N k true o1 with ⟨rest, o2⟩
        have := ih (n' + 1 + 1) true o1 (by omega) (by have := he rfl; omega) (by intro _; omega)
        rw [hR] at this
        simp only [↓reduceIte, Nat.add_sub_cancel] at this
        simp only [tdvp12Fwd, hN, hE, Bool.not_true, Bool.false_eq_true, ↓reduceIte, hR, updsOf_append, updsOf_updAA,
          updsOf_updA, updsOf, List.cons_append, List.nil_append, Nat.add_sub_cancel]
        simp [isChain, this]
      | false =>
        rcases hR : tdvp12Fwd N k false o1 with ⟨rest, o2⟩
        simp only [tdvp12Fwd, hN, hE, Bool.not_true, Bool.false_eq_true, ↓reduceIte, hR, updsOf_append, updsOf_updAA,
          updsOf_updC, updsOf, List.cons_append, List.nil_append, Nat.add_sub_cancel]
        by_cases hk0 : k = 0
        · subst hk0
          have h1 : n' + 1 + 1 = N := by omega
          simp only [tdvp12Fwd, Prod.mk.injEq] at hR
          subst h1
          simp [← hR.1, isChain, updsOf]
        · have := ih (n' + 1 + 1) false o1 (by omega) (by omega) (by intro h; cases h)
          rw [hR] at this
          simp only [Bool.false_eq_true, ↓reduceIte] at this
          have h1 : ¬ (n' + 1 + 1 = N) := by omega
          simp [h1, isChain, this]

theorem chain_bwd12 (N : Nat) : ∀ (k : Nat) (two : Bool) (o : List Bool), 1 ≤ k → k ≤ N →
    isChainDown (if two then k else k - 1) 0 (updsOf N (tdvp12Bwd N k two o).1) = true := by
  intro k
  induction k with
  | zero => intro two o h; omega
  | succ k ih =>
    intro two o _ hk
    rcases hE : enlOut N k o with ⟨e, o1⟩
    have he : e = true → k ≠ 0 := by
      intro h; have := enlOut_true (N := N) (m := k) (o := o) (by rw [hE]; exact h); exact this.1
    cases two with
    | false =>
      cases e with
      | true =>
        rcases hR : tdvp12Bwd N k true o1 with ⟨rest, o2⟩
        have := ih true o1 (by have := he rfl; omega) (by omega)
        rw [hR] at this
        simp only [tdvp12Bwd, hE, Bool.not_false, ↓reduceIte, hR, updsOf]
        simpa using this
      | false =>
        rcases hR : tdvp12Bwd N k false o1 with ⟨rest, o2⟩
        simp only [tdvp12Bwd, hE, Bool.not_false, ↓reduceIte, hR, updsOf, updsOf_append,
          updsOf_tdvp1Step_first N k (by omega), Bool.false_eq_true]
        by_cases hk0 : k = 0
        · subst hk0
          simp only [tdvp12Bwd, Prod.mk.injEq] at hR
          simp [← hR.1, isChainDown, updsOf]
        · have := ih false o1 (by omega) (by omega)
          rw [hR] at this
          simp only [Bool.false_eq_true, ↓reduceIte] at this
          simp [hk0, isChainDown, this]; omega
    | true =>
      cases e with
      | true =>
        rcases hR : tdvp12Bwd N k true o1 with ⟨rest, o2⟩
        have := ih true o1 (by have := he rfl; omega) (by omega)
        rw [hR] at this
        simp only [↓reduceIte] at this
        simp only [tdvp12Bwd, hE, Bool.not_true, Bool.false_eq_true, ↓reduceIte, hR, updsOf_append, updsOf_updAA,
          updsOf_updA, updsOf, List.cons_append, List.nil_append]
        simp [isChainDown, this]
      | false =>
        rcases hR : tdvp12Bwd N k false o1 with ⟨rest, o2⟩
        simp only [tdvp12Bwd, hE, Bool.not_true, Bool.false_eq_true, ↓reduceIte, hR, updsOf_append, updsOf_updAA,
          updsOf_updC, updsOf, List.cons_append, List.nil_append]
        by_cases hk0 : k = 0
        · subst hk0
          simp only [tdvp12Bwd, Prod.mk.injEq] at hR
          simp [← hR.1, isChainDown, updsOf]
        · have := ih false o1 (by omega) (by omega)
          rw [hR] at this
          simp only [Bool.false_eq_true, ↓reduceIte] at this
          have h1 : ¬ (k = 0 ∨ k = N) := by omega
          simp [h1, isChainDown, this]; omega

/-! ### '1site' / '2site': the second half is the exact reverse of the first -/

theorem pal1_aux (N : Nat) : ∀ k, k ≤ N →
    (updsOf N ((List.range k).reverse.flatMap (tdvp1Step N .first))).reverse ++ (if k = 0 ∨ k = N then [] else [Upd.bond k .plus]) =
      updsOf N ((List.range k).flatMap (tdvp1Step N .last)) := by
  intro k
  induction k with
  | zero => intro _; simp [updsOf]
  | succ k ih =>
    intro hk
    have ih' := ih (by omega)
    have hkN : ¬ (k = N) := by omega
    rw [List.range_succ, List.reverse_append, List.reverse_singleton, List.singleton_append, List.flatMap_cons,
      List.flatMap_append, updsOf_append, updsOf_append, updsOf_tdvp1Step_first N k (by omega), ← ih']
    simp only [List.flatMap_cons, List.flatMap_nil, List.append_nil, updsOf_tdvp1Step_last]
    by_cases h0 : k = 0
    · subst h0
      by_cases h1 : 0 + 1 = N <;> simp [h1, updsOf]
    · by_cases h1 : k + 1 = N <;> simp [h0, h1, hkN]

theorem sweep_palindromic_1site (N : Nat) :
    updsOf N ((List.range N).reverse.flatMap (tdvp1Step N .first)) =
      (updsOf N ((List.range N).flatMap (tdvp1Step N .last))).reverse := by
  have := pal1_aux N N (Nat.le_refl _)
  simp only [or_true, ↓reduceIte, List.append_nil] at this
  rw [← this, List.reverse_reverse]

theorem pal2_aux (N : Nat) : ∀ k, k ≤ N - 1 →
    (updsOf N ((List.range k).reverse.flatMap (tdvp2Step N .first))).reverse ++
        (if k = 0 ∨ k = N - 1 then [] else [Upd.site k k .plus]) =
      updsOf N ((List.range k).flatMap (tdvp2Step N .last)) := by
  intro k
  induction k with
  | zero => intro _; simp [updsOf]
  | succ k ih =>
    intro hk
    have ih' := ih (by omega)
    have hkN : ¬ (k = N - 1) := by omega
    rw [List.range_succ, List.reverse_append, List.reverse_singleton, List.singleton_append, List.flatMap_cons,
      List.flatMap_append, updsOf_append, updsOf_append, updsOf_tdvp2Step_first, ← ih']
    simp only [List.flatMap_cons, List.flatMap_nil, List.append_nil, updsOf_tdvp2Step_last]
    by_cases h0 : k = 0
    · subst h0
      by_cases h1 : 0 + 1 = N - 1 <;> simp [h1, updsOf]
    · by_cases h1 : k + 1 = N - 1 <;> simp [h0, h1, hkN]

theorem sweep_palindromic_2site (N : Nat) :
    updsOf N ((List.range (N - 1)).reverse.flatMap (tdvp2Step N .first)) =
      (updsOf N ((List.range (N - 1)).flatMap (tdvp2Step N .last))).reverse := by
  have := pal2_aux N (N - 1) (Nat.le_refl _)
  simp only [or_true, ↓reduceIte, List.append_nil] at this
  rw [← this, List.reverse_reverse]

end YModel.Sched
