import Mathlib.LinearAlgebra.Matrix.ConjTranspose
import Mathlib.Algebra.Star.BigOperators
import Mathlib.Data.Real.Basic
/-!
# Gauge moves under the QR contract (dense matrices)

An MPS site is a family of matrices `A σ : Matrix l r K` indexed by the physical index `σ` (for an MPO the pair
ket/bra).  `orthogonalize_site_(n, to='last')` factorises the stacked matrix `[A σ]_σ = [Q σ]_σ · R`, i.e.
`A σ = Q σ * R` for every `σ`, with `∑ σ, (Q σ)ᴴ * Q σ = 1`  (contract **QRSpec** of `Tensor.qr`, validated
numerically by the harness on every case); it stores `C = R / ‖R‖` on the bond and multiplies `factor` by `‖R‖`.
`absorb_central_` replaces the neighbour `B τ` by `C * B τ`.
-/
namespace YModel.Gauge
open Matrix

variable {K : Type*} [CommRing K] [StarRing K]
variable {l r k p σ τ : Type*} [Fintype l] [Fintype r] [Fintype k] [Fintype σ] [DecidableEq k]

/-- contract of `Tensor.qr` on the stacked site matrix -/
structure QRSpec (A : σ → Matrix l r K) (Q : σ → Matrix l k K) (R : Matrix k r K) : Prop where
  factor : ∀ s, A s = Q s * R
  iso : ∑ s, (Q s)ᴴ * Q s = 1

/-- moving `R` into the next site does not change any amplitude `A^{σ} B^{τ}` -/
theorem qr_product_unchanged {A : σ → Matrix l r K} {Q : σ → Matrix l k K} {R : Matrix k r K}
    (h : QRSpec A Q R) (B : τ → Matrix r p K) (s : σ) (t : τ) : Q s * (R * B t) = A s * B t := by
  rw [h.factor s, Matrix.mul_assoc]

/-- with the centre normalised as `R = ν • C` and `factor' = factor * ν` (`normalize=False`):
`factor' • (Q^{σ} (C B^{τ})) = factor • (A^{σ} B^{τ})` -/
theorem qr_state_unchanged {A : σ → Matrix l r K} {Q : σ → Matrix l k K} {R C : Matrix k r K}
    (h : QRSpec A Q R) (ν f : K) (hC : R = ν • C) (B : τ → Matrix r p K) (s : σ) (t : τ) :
    (f * ν) • (Q s * (C * B t)) = f • (A s * B t) := by
  rw [h.factor s, hC, Matrix.mul_assoc, Matrix.smul_mul, Matrix.mul_smul, smul_smul]

/-- the same inside an arbitrary chain: left part `Lp`, right part `Rp` -/
theorem qr_chain_unchanged {a b : Type*} [Fintype p]
    {A : σ → Matrix l r K} {Q : σ → Matrix l k K} {R C : Matrix k r K}
    (h : QRSpec A Q R) (ν f : K) (hC : R = ν • C) (B : τ → Matrix r p K) (Lp : Matrix a l K) (Rp : Matrix p b K)
    (s : σ) (t : τ) :
    (f * ν) • (Lp * (Q s * (C * B t)) * Rp) = f • (Lp * (A s * B t) * Rp) := by
  rw [← Matrix.smul_mul, ← Matrix.mul_smul, qr_state_unchanged h ν f hC B s t, Matrix.mul_smul, Matrix.smul_mul]

/-- `normalize=True`: `factor' = 1`; the new chain is the old one divided by `factor·ν` — same direction -/
theorem qr_direction_unchanged {A : σ → Matrix l r K} {Q : σ → Matrix l k K} {R C : Matrix k r K}
    (h : QRSpec A Q R) (ν : K) (hC : R = ν • C) (B : τ → Matrix r p K) (s : σ) (t : τ) :
    ν • (Q s * (C * B t)) = A s * B t := by
  have := qr_state_unchanged h ν 1 hC B s t
  simpa using this

/-- the new site is an isometry in the sweep direction: contracting it with its conjugate over the left and
physical legs leaves the Gram matrix of everything to its right unchanged (`A†A = 1` from `Q†Q = 1`).
This is the inductive step of `norm() = ‖state‖`. -/
theorem isometry_preserves_gram {Q : σ → Matrix l k K} (hQ : ∑ s, (Q s)ᴴ * Q s = 1) (X : Matrix k p K) :
    ∑ s, (Q s * X)ᴴ * (Q s * X) = Xᴴ * X := by
  have : ∀ s, (Q s * X)ᴴ * (Q s * X) = Xᴴ * ((Q s)ᴴ * Q s) * X := by
    intro s; rw [Matrix.conjTranspose_mul]; simp only [Matrix.mul_assoc]
  simp only [this]
  rw [← Matrix.sum_mul, ← Matrix.mul_sum, hQ, Matrix.mul_one]

end YModel.Gauge
