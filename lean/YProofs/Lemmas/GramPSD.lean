import Mathlib.Analysis.Matrix.PosDef
/-!
Generic positivity lemmas behind the NTU bond metrics (C12): a metric of Gram form `g = Σ_k X_k† X_k` is Hermitian and
positive semi-definite, and conjugation `X ↦ B† X B` (attaching one more layer of ket tensors and of their conjugates)
keeps both positivity and the Gram form.
-/
open Matrix
open scoped ComplexOrder

namespace YModel.Gram

variable {𝕜 : Type*} [RCLike 𝕜] {m n p ι : Type*} [Fintype m] [Fintype n] [Fintype p]

/-- the Gram-form metric of a family of matrices -/
def gram (s : Finset ι) (X : ι → Matrix m n 𝕜) : Matrix n n 𝕜 := ∑ k ∈ s, (X k)ᴴ * X k

theorem gram_posSemidef (s : Finset ι) (X : ι → Matrix m n 𝕜) : (gram s X).PosSemidef :=
  posSemidef_sum s (fun k _ => posSemidef_conjTranspose_mul_self (X k))

theorem gram_isHermitian (s : Finset ι) (X : ι → Matrix m n 𝕜) : (gram s X).IsHermitian :=
  (gram_posSemidef s X).isHermitian

theorem gram_quadratic_nonneg (s : Finset ι) (X : ι → Matrix m n 𝕜) (x : n → 𝕜) :
    0 ≤ star x ⬝ᵥ (gram s X *ᵥ x) :=
  (gram_posSemidef s X).dotProduct_mulVec_nonneg x

theorem gram_eigenvalues_nonneg [DecidableEq n] (s : Finset ι) (X : ι → Matrix m n 𝕜) (i : n) :
    0 ≤ (gram_isHermitian s X).eigenvalues i :=
  (gram_posSemidef s X).eigenvalues_nonneg i

omit [Fintype p] in
/-- conjugation keeps the Gram form: `B† (Σ X_k† X_k) B = Σ (X_k B)† (X_k B)` -/
theorem gram_conj (s : Finset ι) (X : ι → Matrix m n 𝕜) (B : Matrix n p 𝕜) :
    Bᴴ * gram s X * B = gram s (fun k => X k * B) := by
  unfold gram
  rw [Matrix.mul_sum, Matrix.sum_mul]
  refine Finset.sum_congr rfl (fun k _ => ?_)
  simp only [conjTranspose_mul, Matrix.mul_assoc]

end YModel.Gram
