import YProofs.Lemmas.TensorBasic
import YProofs.Lemmas.SortLemmas
import Batteries.Data.List.Perm
/-! Permutations of legs: `isPerm`, `pick`, injectivity of key permutation, `keyLe` as a total preorder. -/
namespace YModel

theorem isPerm_perm {n : Nat} {σ : List Nat} (h : isPerm n σ = true) : σ.Perm (List.range n) := by
  unfold isPerm at h
  simp only [Bool.and_eq_true, beq_iff_eq, List.all_eq_true, List.mem_range, List.contains_iff_mem] at h
  obtain ⟨hl, hall⟩ := h
  have hsub : List.range n ⊆ σ := by
    intro i hi; exact hall i (List.mem_range.mp hi)
  have hsp : (List.range n).Subperm σ := List.subperm_of_subset List.nodup_range hsub
  exact (hsp.perm_of_length_le (by simp [hl])).symm

theorem isPerm_lt {n : Nat} {σ : List Nat} (h : isPerm n σ = true) : ∀ p ∈ σ, p < n := by
  intro p hp
  exact List.mem_range.mp ((isPerm_perm h).mem_iff.mp hp)

theorem isPerm_mem {n : Nat} {σ : List Nat} (h : isPerm n σ = true) : ∀ i, i < n → i ∈ σ := by
  intro i hi
  exact (isPerm_perm h).mem_iff.mpr (List.mem_range.mpr hi)

theorem isPerm_length {n : Nat} {σ : List Nat} (h : isPerm n σ = true) : σ.length = n := by
  simpa using (isPerm_perm h).length_eq

theorem pick_length {α} [Inhabited α] (l : List α) (pos : List Nat) : (pick l pos).length = pos.length := by
  simp [pick]

theorem mem_pick {α} [Inhabited α] {l : List α} {pos : List Nat} (hp : ∀ p ∈ pos, p < l.length) {x : α}
    (hx : x ∈ pick l pos) : x ∈ l := by
  simp only [pick, List.mem_map] at hx
  obtain ⟨p, hp', rfl⟩ := hx
  have := hp p hp'
  simp [List.getD, this]

/-- permuting with a permutation is injective on lists of the right length -/
theorem pick_injective {α} [Inhabited α] {n : Nat} {σ : List Nat} (h : isPerm n σ = true)
    {k k' : List α} (hk : k.length = n) (hk' : k'.length = n) (he : pick k σ = pick k' σ) : k = k' := by
  apply List.ext_getElem (by omega)
  intro i h1 h2
  have hi : i ∈ σ := isPerm_mem h i (by omega)
  obtain ⟨q, hq, hqi⟩ := List.getElem_of_mem hi
  have : (pick k σ)[q]'(by simp [pick_length, hq]) = (pick k' σ)[q]'(by simp [pick_length, hq]) := by
    simp only [he]
  simp only [pick, List.getElem_map, hqi, List.getD] at this
  simpa [h1, h2] using this

/-! `keyLe` is a total preorder -/

theorem keyLe_total (a b : Key) : (keyLe a b || keyLe b a) = true := by
  unfold keyLe
  rcases keyLt_trichotomy a b with h | h | h
  · simp [keyLt_asymm _ _ h]
  · subst h; simp [keyLt_irrefl]
  · simp [keyLt_asymm _ _ h]

theorem keyLe_trans (a b c : Key) : keyLe a b = true → keyLe b c = true → keyLe a c = true := by
  unfold keyLe
  simp only [Bool.not_eq_true']
  intro h1 h2
  rcases keyLt_trichotomy c a with h | h | h
  · rcases keyLt_trichotomy a b with h' | h' | h'
    · have := keyLt_trans _ _ _ h h'; rw [this] at h2; cases h2
    · subst h'; rw [h] at h2; cases h2
    · rw [h'] at h1; cases h1
  · subst h; exact keyLt_irrefl _
  · exact keyLt_asymm _ _ h

theorem keyLt_of_le_ne {a b : Key} (h : keyLe a b = true) (hne : a ≠ b) : keyLt a b = true := by
  unfold keyLe at h
  rcases keyLt_trichotomy a b with h' | h' | h'
  · exact h'
  · exact absurd h' hne
  · rw [h'] at h; cases h

/-- sorting blocks with distinct keys by `keyLe` gives strictly ascending keys -/
theorem isort_blocks_sorted {R} (bs : List (Key × Block R)) (hnd : (bs.map (·.1)).Nodup) :
    ((isort (fun x y => keyLe x.1 y.1) bs).map (·.1)).Pairwise (fun a b => keyLt a b = true) := by
  have hs := isort_pairwise (fun (x y : Key × Block R) => keyLe x.1 y.1)
    (fun a b c => keyLe_trans a.1 b.1 c.1) (fun a b => keyLe_total a.1 b.1) bs
  have hp := (isort_perm (fun (x y : Key × Block R) => keyLe x.1 y.1) bs).map (·.1)
  have hnd' := hp.nodup_iff.mpr hnd
  generalize isort (fun (x y : Key × Block R) => keyLe x.1 y.1) bs = L at hs hnd'
  induction L with
  | nil => exact List.Pairwise.nil
  | cons a L ih =>
    rw [List.pairwise_cons] at hs
    rw [List.map_cons, List.nodup_cons] at hnd'
    rw [List.map_cons, List.pairwise_cons]
    refine ⟨?_, ih hs.2 hnd'.2⟩
    intro k hk
    obtain ⟨b, hb, rfl⟩ := List.mem_map.mp hk
    apply keyLt_of_le_ne (hs.1 b hb)
    intro hab
    exact hnd'.1 (by rw [hab]; exact List.mem_map_of_mem (f := (·.1)) hb)

end YModel
