import YModel.Gauge
/-!
# Invariants of the gauge state machine `YModel.Gauge` (core tactics only)

* `Inv`  — holds after **every** program (also after `KeyError`s caused by site indices outside the chain):
  `A` has at most one tuple key; if it has one, it equals `pC` and is a bond `(n, n+1)` with `−1 ≤ n ≤ N−1`.
* `Good` — `Inv` and `pC`/key in sync; holds after every program whose site arguments are inside `0 … N−1`,
  and then no `KeyError` is ever raised.
-/
namespace YModel.Gauge

/-- `(a, b)` is a legal position of the central block of a chain of `N` sites -/
def okBond (N : Nat) (p : Int × Int) : Prop :=
  p.2 = p.1 + 1 ∧ -1 ≤ p.1 ∧ p.1 ≤ (N : Int) - 1 ∧ 0 < N

/-- invariant of every reachable state -/
def Inv (s : St) : Prop :=
  s.bonds = [] ∨ ∃ p, s.pC = some p ∧ s.bonds = [p] ∧ okBond s.N p

/-- invariant of every state reachable with in-range site arguments -/
def Good (s : St) : Prop :=
  (s.pC = none ∧ s.bonds = []) ∨ ∃ p, s.pC = some p ∧ s.bonds = [p] ∧ okBond s.N p

theorem Good.inv {s : St} (h : Good s) : Inv s := by
  rcases h with ⟨_, h⟩ | h
  · exact Or.inl h
  · exact Or.inr h

theorem good_init (N : Nat) : Good (init N) := Or.inl ⟨rfl, rfl⟩

theorem isSite_iff (s : St) (n : Int) : s.isSite n = true ↔ 0 ≤ n ∧ n < (s.N : Int) := by
  simp [St.isSite]

/-! ## the four primitive methods -/

theorem orth_N (s : St) (n : Int) (to : Dir) (nm : Bool) : (orth s n to nm).1.N = s.N := by
  unfold orth
  split
  · rfl
  · cases to <;> simp only [] <;> split <;> rfl

theorem diag_frame (s : St) (nm : Bool) :
    (diag s nm).1.N = s.N ∧ (diag s nm).1.pC = s.pC ∧ (diag s nm).1.bonds = s.bonds := by
  unfold diag
  split
  · exact ⟨rfl, rfl, rfl⟩
  · split
    · exact ⟨rfl, rfl, rfl⟩
    · exact ⟨rfl, rfl, rfl⟩

theorem remove_N (s : St) : (remove s).1.N = s.N := by
  unfold remove; split
  · rfl
  · split <;> rfl

theorem absorb_N (s : St) (to : Dir) : (absorb s to).1.N = s.N := by
  unfold absorb
  split
  · rfl
  · split <;> rfl

theorem prim_N (s : St) (c : Call) : (prim s c).1.N = s.N := by
  cases c <;> simp only [prim]
  · exact orth_N ..
  · exact (diag_frame ..).1
  · exact absorb_N ..
  · exact remove_N ..

theorem orth_inv {s : St} (h : Inv s) (n : Int) (to : Dir) (nm : Bool) : Inv (orth s n to nm).1 := by
  unfold orth
  split
  · exact h
  · rename_i hp
    have hb : s.bonds = [] := by
      rcases h with h | ⟨p, hp', _⟩
      · exact h
      · simp [hp'] at hp
    cases to <;> simp only []
    · split
      · rename_i hs
        simp only [St.isSite, Bool.and_eq_true, decide_eq_true_eq] at hs
        refine Or.inr ⟨(n - 1, n), rfl, by simp [hb], ?_⟩
        dsimp only [okBond, St.setG]; omega
      · exact Or.inl hb
    · split
      · rename_i hs
        simp only [St.isSite, Bool.and_eq_true, decide_eq_true_eq] at hs
        refine Or.inr ⟨(n, n + 1), rfl, by simp [hb], ?_⟩
        dsimp only [okBond, St.setG]; omega
      · exact Or.inl hb
    · exact h

theorem orth_good {s : St} (h : Good s) (n : Int) (to : Dir) (nm : Bool)
    (hn : 0 ≤ n ∧ n < (s.N : Int)) :
    Good (orth s n to nm).1 ∧ (orth s n to nm).2 ≠ some Err.key := by
  unfold orth
  split
  · exact ⟨h, by simp⟩
  · rename_i hp
    have hb : s.pC = none ∧ s.bonds = [] := by
      rcases h with h | ⟨p, hp', _⟩
      · exact h
      · simp [hp'] at hp
    have hs : s.isSite n = true := by simp [St.isSite, hn]
    cases to <;> simp only [hs, if_true]
    · refine ⟨Or.inr ⟨(n - 1, n), rfl, by simp [hb.2], ?_⟩, by simp⟩
      dsimp only [okBond, St.setG]; omega
    · refine ⟨Or.inr ⟨(n, n + 1), rfl, by simp [hb.2], ?_⟩, by simp⟩
      dsimp only [okBond, St.setG]; omega
    · exact ⟨h, by simp⟩

theorem diag_inv {s : St} (h : Inv s) (nm : Bool) : Inv (diag s nm).1 := by
  obtain ⟨h1, h2, h3⟩ := diag_frame s nm
  unfold Inv; rw [h1, h2, h3]; exact h

theorem diag_good {s : St} (h : Good s) (nm : Bool) :
    Good (diag s nm).1 ∧ (diag s nm).2 ≠ some Err.key := by
  refine ⟨?_, ?_⟩
  · obtain ⟨h1, h2, h3⟩ := diag_frame s nm
    unfold Good; rw [h1, h2, h3]; exact h
  · rcases h with ⟨hp, _⟩ | ⟨⟨n1, n2⟩, hp, hb, hk⟩
    · simp [diag, hp]
    · obtain ⟨e, l, u, _⟩ := hk
      dsimp only at e l u
      subst e
      unfold diag
      simp only [hp, hb, List.mem_singleton, if_true, St.isSite]
      have a1 : (decide (0 ≤ n1) && !(decide (0 ≤ n1) && decide (n1 < (s.N : Int)))) = false := by
        by_cases c : 0 ≤ n1
        · have : n1 < (s.N : Int) := by omega
          simp [c, this]
        · simp [c]
      have a2 : (decide (n1 + 1 ≤ (s.N : Int) - 1) && !(decide (0 ≤ n1 + 1) && decide (n1 + 1 < (s.N : Int)))) = false := by
        by_cases c : n1 + 1 ≤ (s.N : Int) - 1
        · have h1 : 0 ≤ n1 + 1 := by omega
          have h2 : n1 + 1 < (s.N : Int) := by omega
          simp [c, h1, h2]
        · simp [c]
      simp only [a1, a2]
      simp

theorem remove_good_of_inv {s : St} (h : Inv s) : Inv (remove s).1 := by
  unfold remove; split
  · exact h
  · rename_i p hp
    split
    · rename_i hm
      rcases h with h | ⟨q, hq, hb, _⟩
      · simp [h] at hm
      · left
        simp only [hb, List.mem_singleton] at hm
        subst hm
        simp [hb]
    · exact h

theorem remove_good {s : St} (h : Good s) : Good (remove s).1 ∧ (remove s).2 ≠ some Err.key := by
  rcases h with ⟨hp, hb⟩ | ⟨p, hp, hb, hk⟩
  · simp only [remove, hp]; exact ⟨Or.inl ⟨hp, hb⟩, by simp⟩
  · simp only [remove, hp, hb, List.mem_singleton, if_true]
    exact ⟨Or.inl ⟨rfl, by simp⟩, by simp⟩

/-- after `absorb_central_` nothing is left of the centre (whenever no `KeyError` on `pop`) -/
theorem absorb_inv {s : St} (h : Inv s) (to : Dir) : Inv (absorb s to).1 := by
  unfold absorb; split
  · exact h
  · rename_i n1 n2 hp
    split
    · rename_i hm
      rcases h with h | ⟨q, hq, hb, _⟩
      · simp [h] at hm
      · simp only [hb, List.mem_singleton] at hm
        subst hm
        left
        simp [St.updG, hb]
    · exact h

theorem absorb_good {s : St} (h : Good s) (to : Dir) :
    ((absorb s to).1.pC = none ∧ (absorb s to).1.bonds = []) ∧ (absorb s to).2 = none := by
  rcases h with ⟨hp, hb⟩ | ⟨⟨n1, n2⟩, hp, hb, hk⟩
  · refine ⟨⟨?_, ?_⟩, ?_⟩ <;> simp [absorb, hp, hb]
  · obtain ⟨e, l, u, hN⟩ := hk
    dsimp only at e l u
    subst e
    unfold absorb
    simp only [hp, hb, List.mem_singleton, if_true]
    have key : s.isSite (absorbTarget s.N to n1 (n1 + 1)) = true := by
      rw [isSite_iff]
      unfold absorbTarget
      split
      · rename_i c; rcases c with ⟨_, c⟩ | c <;> omega
      · rename_i c
        have : n1 + 1 ≤ (s.N : Int) - 1 := by
          by_cases h : n1 + 1 ≤ (s.N : Int) - 1
          · exact h
          · exact absurd (Or.inr (by omega)) c
        omega
    refine ⟨⟨rfl, by simp [St.updG]⟩, by simp [key]⟩

theorem prim_inv {s : St} (h : Inv s) (c : Call) : Inv (prim s c).1 := by
  cases c <;> simp only [prim]
  · exact orth_inv h ..
  · exact diag_inv h ..
  · exact absorb_inv h ..
  · exact remove_good_of_inv h
  · exact h
  · exact h

theorem prim_good {s : St} (h : Good s) (c : Call) (hc : c.inRange s.N = true) :
    Good (prim s c).1 ∧ (prim s c).2 ≠ some Err.key := by
  cases c with
  | orth n to nm =>
    simp only [Call.inRange, Bool.and_eq_true, decide_eq_true_eq] at hc
    exact orth_good h n to nm hc
  | diag nm => exact diag_good h nm
  | absorb to =>
    obtain ⟨h1, h2⟩ := absorb_good h to
    exact ⟨Or.inl h1, by simp only [prim, h2]; simp⟩
  | remove => exact remove_good h
  | canonize to nm => exact ⟨h, by simp [prim]⟩
  | truncate to o nm => exact ⟨h, by simp [prim]⟩

/-! ## sequences of primitives, public calls, programs -/

theorem runPrims_N (s : St) (ps : List Call) : (runPrims s ps).1.N = s.N := by
  induction ps generalizing s with
  | nil => rfl
  | cons p ps ih =>
    simp only [runPrims]
    have := prim_N s p
    split
    · rename_i s1 e he; rw [he] at this; exact this
    · rename_i s1 he; rw [he] at this; simp only [ih s1]; exact this

theorem runPrims_inv {s : St} (h : Inv s) (ps : List Call) : Inv (runPrims s ps).1 := by
  induction ps generalizing s with
  | nil => exact h
  | cons p ps ih =>
    simp only [runPrims]
    have := prim_inv h p
    split
    · rename_i s1 e he; rw [he] at this; exact this
    · rename_i s1 he; rw [he] at this; exact ih this

theorem runPrims_good {s : St} (h : Good s) (ps : List Call) (hps : ∀ p ∈ ps, p.inRange s.N = true) :
    Good (runPrims s ps).1 ∧ (runPrims s ps).2.1 ≠ some Err.key := by
  induction ps generalizing s with
  | nil => exact ⟨h, by simp [runPrims]⟩
  | cons p ps ih =>
    simp only [runPrims]
    have hp := prim_good h p (hps p (List.mem_cons_self ..))
    have hN := prim_N s p
    split
    · rename_i s1 e he; rw [he] at hp; exact hp
    · rename_i s1 he
      rw [he] at hp hN
      simp only at hN
      exact ih hp.1 (fun q hq => by rw [hN]; exact hps q (List.mem_cons_of_mem _ hq))

theorem sweep_inRange (N : Nat) (to : Dir) (ns : List Int) (h : sweep N to = some ns) :
    ∀ n ∈ ns, 0 ≤ n ∧ n < (N : Int) := by
  intro n hn
  cases to <;> simp only [sweep, Option.some.injEq, reduceCtorEq] at h <;> subst h <;>
    simp only [List.mem_map, List.mem_reverse, List.mem_range] at hn <;>
    obtain ⟨i, hi, rfl⟩ := hn <;> omega

theorem expand_inRange (N : Nat) (c : Call) (hc : c.inRange N = true) :
    ∀ p ∈ (expand N c).1, p.inRange N = true := by
  intro p hp
  cases c with
  | canonize to nm =>
    simp only [expand] at hp
    split at hp
    · rename_i ns hs
      simp only [List.mem_cons, List.mem_flatMap, List.not_mem_nil, or_false] at hp
      rcases hp with rfl | ⟨n, hn, rfl | rfl⟩
      · rfl
      · have := sweep_inRange N to ns hs n hn
        simp [Call.inRange, this]
      · rfl
    · simp only [List.mem_cons, List.not_mem_nil, or_false] at hp; subst hp; rfl
  | truncate to o nm =>
    simp only [expand] at hp
    split at hp
    · simp at hp
    · split at hp
      · rename_i ns hs
        simp only [List.mem_flatMap, List.mem_cons, List.not_mem_nil, or_false] at hp
        obtain ⟨n, hn, rfl | rfl | rfl⟩ := hp
        · have := sweep_inRange N to ns hs n hn
          simp [Call.inRange, this]
        · rfl
        · rfl
      · simp at hp
  | orth n to nm => simp only [expand, List.mem_cons, List.not_mem_nil, or_false] at hp; subst hp; exact hc
  | diag nm => simp only [expand, List.mem_cons, List.not_mem_nil, or_false] at hp; subst hp; rfl
  | absorb to => simp only [expand, List.mem_cons, List.not_mem_nil, or_false] at hp; subst hp; rfl
  | remove => simp only [expand, List.mem_cons, List.not_mem_nil, or_false] at hp; subst hp; rfl

theorem step_N (s : St) (c : Call) : (step s c).1.N = s.N := by
  simp only [step]; exact runPrims_N ..

theorem step_inv {s : St} (h : Inv s) (c : Call) : Inv (step s c).1 := by
  simp only [step]; exact runPrims_inv h _

theorem expand_err (N : Nat) (c : Call) : (expand N c).2 ≠ some Err.key := by
  cases c <;> simp only [expand] <;> (repeat' split) <;> simp

theorem step_good {s : St} (h : Good s) (c : Call) (hc : c.inRange s.N = true) :
    Good (step s c).1 ∧ (step s c).2.1 ≠ some Err.key := by
  have := runPrims_good h (expand s.N c).1 (expand_inRange s.N c hc)
  simp only [step]
  refine ⟨this.1, ?_⟩
  split
  · rename_i x hx; rw [hx] at this; exact this.2
  · exact expand_err _ _

theorem run_N (s : St) (cs : List Call) : (run s cs).N = s.N := by
  induction cs generalizing s with
  | nil => rfl
  | cons c cs ih => simp only [run, ih, step_N]

theorem run_inv {s : St} (h : Inv s) (cs : List Call) : Inv (run s cs) := by
  induction cs generalizing s with
  | nil => exact h
  | cons c cs ih => exact ih (step_inv h c)

theorem run_good {s : St} (h : Good s) (cs : List Call) (hcs : ∀ c ∈ cs, c.inRange s.N = true) :
    Good (run s cs) := by
  induction cs generalizing s with
  | nil => exact h
  | cons c cs ih =>
    simp only [run]
    refine ih (step_good h c (hcs c (List.mem_cons_self ..))).1 (fun q hq => ?_)
    rw [step_N]; exact hcs q (List.mem_cons_of_mem _ hq)

theorem runTrace_good {s : St} (h : Good s) (cs : List Call) (hcs : ∀ c ∈ cs, c.inRange s.N = true) :
    ∀ r ∈ runTrace s cs, Good r.1 ∧ r.2.1 ≠ some Err.key := by
  induction cs generalizing s with
  | nil => intro r hr; simp [runTrace] at hr
  | cons c cs ih =>
    intro r hr
    simp only [runTrace, List.mem_cons] at hr
    have hg := step_good h c (hcs c (List.mem_cons_self ..))
    rcases hr with rfl | hr
    · exact hg
    · exact ih hg.1 (fun q hq => by rw [step_N]; exact hcs q (List.mem_cons_of_mem _ hq)) r hr

end YModel.Gauge
