import YModel.Serial
import YProofs.Lemmas.SortLemmas
/-! Helper lemmas for C17: insertion sort on adjacent-sorted lists, totality of the key order. -/
namespace YModel.Serial
open YModel

section sort
variable {α : Type} (le : α → α → Bool)

/-- adjacent elements are in order -/
def sortedB : List α → Bool
  | [] => true
  | [_] => true
  | a :: b :: t => le a b && sortedB (b :: t)

theorem sortedB_tail {a : α} {l : List α} (h : sortedB le (a :: l) = true) : sortedB le l = true := by
  cases l with
  | nil => rfl
  | cons b t => simp only [sortedB, Bool.and_eq_true] at h; exact h.2

theorem insertBy_of_sorted {x : α} {l : List α} (h : sortedB le (x :: l) = true) : insertBy le x l = x :: l := by
  cases l with
  | nil => rfl
  | cons b t =>
    simp only [sortedB, Bool.and_eq_true] at h
    simp only [insertBy, h.1, if_true]

theorem isort_of_sorted {l : List α} (h : sortedB le l = true) : isort le l = l := by
  induction l with
  | nil => rfl
  | cons x xs ih =>
    simp only [isort]
    rw [ih (sortedB_tail le h)]
    exact insertBy_of_sorted le h

theorem insertBy_sorted (htot : ∀ a b, le a b = false → le b a = true) (x : α) {l : List α}
    (h : sortedB le l = true) : sortedB le (insertBy le x l) = true := by
  induction l with
  | nil => rfl
  | cons y ys ih =>
    simp only [insertBy]
    by_cases hxy : le x y = true
    · simp only [hxy, if_true]
      simp only [sortedB, hxy, Bool.true_and]
      exact h
    · have hxy' : le x y = false := by simpa using hxy
      simp only [hxy', Bool.false_eq_true, if_false]
      have hyx := htot x y hxy'
      have ih' := ih (sortedB_tail le h)
      cases ys with
      | nil => simp only [insertBy, sortedB, hyx, Bool.true_and]
      | cons z zs =>
        simp only [sortedB, Bool.and_eq_true] at h
        simp only [insertBy] at ih' ⊢
        by_cases hxz : le x z = true
        · simp only [hxz, if_true] at ih' ⊢
          simp only [sortedB, hyx, Bool.true_and]
          exact ih'
        · have hxz' : le x z = false := by simpa using hxz
          simp only [hxz', Bool.false_eq_true, if_false] at ih' ⊢
          simp only [sortedB, h.1, Bool.true_and]
          exact ih'

theorem isort_sorted (htot : ∀ a b, le a b = false → le b a = true) (l : List α) :
    sortedB le (isort le l) = true := by
  induction l with
  | nil => rfl
  | cons x xs ih => exact insertBy_sorted le htot x ih

variable {β : Type} (le' : β → β → Bool)

theorem insertBy_map (f : α → β) (hf : ∀ a b, le' (f a) (f b) = le a b) (x : α) (l : List α) :
    insertBy le' (f x) (l.map f) = (insertBy le x l).map f := by
  induction l with
  | nil => rfl
  | cons y ys ih =>
    simp only [List.map, insertBy, hf]
    by_cases h : le x y = true
    · simp [h]
    · simp [h, ih]

theorem isort_map (f : α → β) (hf : ∀ a b, le' (f a) (f b) = le a b) (l : List α) :
    isort le' (l.map f) = (isort le l).map f := by
  induction l with
  | nil => rfl
  | cons x xs ih =>
    simp only [List.map, isort, ih]
    exact insertBy_map le le' f hf x _

end sort

/-! ### totality of the key order -/

theorem lexLe_total : ∀ a b : List Int, lexLe a b = false → lexLe b a = true
  | [], _, h => by simp [lexLe] at h
  | _ :: _, [], _ => by simp [lexLe]
  | a :: as, b :: bs, h => by
    simp only [lexLe] at h ⊢
    by_cases hab : a = b
    · subst hab
      simp only [if_true] at h ⊢
      exact lexLe_total as bs h
    · have hba : ¬ b = a := fun e => hab e.symm
      simp only [hab, if_false, decide_eq_false_iff_not] at h
      simp only [hba, if_false, decide_eq_true_eq]
      omega

theorem Atom.le_total : ∀ a b : Atom, a.le b = false → b.le a = true
  | .int i, .int j, h => by
    simp only [Atom.le, decide_eq_false_iff_not, decide_eq_true_eq] at h ⊢; omega
  | .str s, .str t, h => lexLe_total _ _ h
  | .int _, .str _, h => by simp [Atom.le] at h
  | .str _, .int _, _ => rfl

theorem atomsLe_total : ∀ a b : List Atom, atomsLe a b = false → atomsLe b a = true
  | [], _, h => by simp [atomsLe] at h
  | _ :: _, [], _ => by simp [atomsLe]
  | a :: as, b :: bs, h => by
    simp only [atomsLe] at h ⊢
    by_cases hab : a = b
    · subst hab
      simp only [if_true] at h ⊢
      exact atomsLe_total as bs h
    · have hba : ¬ b = a := fun e => hab e.symm
      simp only [hab, if_false] at h
      simp only [hba, if_false]
      exact Atom.le_total a b h

theorem Key.le_total : ∀ a b : Key, a.le b = false → b.le a = true
  | .int i, .int j, h => by
    simp only [Key.le, decide_eq_false_iff_not, decide_eq_true_eq] at h ⊢; omega
  | .str s, .str t, h => lexLe_total _ _ h
  | .tup a, .tup b, h => atomsLe_total _ _ h
  | .int _, .str _, h => by simp [Key.le, Key.rank] at h
  | .int _, .tup _, h => by simp [Key.le, Key.rank] at h
  | .str _, .tup _, h => by simp [Key.le, Key.rank] at h
  | .str _, .int _, _ => by simp [Key.le, Key.rank]
  | .tup _, .int _, _ => by simp [Key.le, Key.rank]
  | .tup _, .str _, _ => by simp [Key.le, Key.rank]

theorem kvLe_total (p q : KV) : kvLe p q = false → kvLe q p = true := Key.le_total _ _

end YModel.Serial
