import YProofs.Lemmas.CacheLemmas
/-! The table of the LRU model holds the `cap` most recently used distinct keys, most recent first. -/
namespace YModel
variable {α β : Type} [DecidableEq α]

namespace LRU

/-- distinct keys of a call sequence ordered by recency; the argument lists the calls **latest first** -/
def recent : List α → List α
  | [] => []
  | x :: h => x :: (recent h).filter (fun k => k ≠ x)

theorem recent_nodup (h : List α) : (recent h).Nodup := by
  induction h with
  | nil => exact List.nodup_nil
  | cons x h ih =>
    unfold recent
    rw [List.nodup_cons]
    refine ⟨?_, List.Nodup.sublist List.filter_sublist ih⟩
    intro hx
    have := (List.mem_filter.mp hx).2
    simp at this

theorem filter_ne_of_not_mem {l : List α} {x : α} (h : x ∉ l) : l.filter (fun k => k ≠ x) = l := by
  apply List.filter_eq_self.mpr
  intro a ha
  have : a ≠ x := fun e => h (e ▸ ha)
  exact decide_eq_true this

theorem take_filter_of_not_mem (l : List α) (x : α) (n : Nat) (h : x ∉ l.take n) :
    (l.filter (fun k => k ≠ x)).take (n - 1) = l.take (n - 1) := by
  induction l generalizing n with
  | nil => rfl
  | cons a l ih =>
    match n with
    | 0 => rfl
    | 1 => rfl
    | k + 2 =>
      rw [List.take_succ_cons] at h
      have hax : a ≠ x := fun e => h (e ▸ List.mem_cons_self)
      have hx : x ∉ l.take (k + 1) := fun hm => h (List.mem_cons_of_mem _ hm)
      have e : (a :: l).filter (fun k => k ≠ x) = a :: l.filter (fun k => k ≠ x) := by
        simp [List.filter_cons, hax]
      rw [e]
      show (a :: List.filter (fun k => decide (k ≠ x)) l).take (k + 1) = (a :: l).take (k + 1)
      rw [List.take_succ_cons, List.take_succ_cons]
      have := ih (k + 1) hx
      rw [Nat.add_sub_cancel] at this
      rw [this]

theorem filter_take_of_mem (l : List α) (hl : l.Nodup) (x : α) (n : Nat) (h : x ∈ l.take n) :
    (l.take n).filter (fun k => k ≠ x) = (l.filter (fun k => k ≠ x)).take (n - 1) := by
  induction l generalizing n with
  | nil => simp at h
  | cons a l ih =>
    match n with
    | 0 => simp at h
    | k + 1 =>
      rw [List.nodup_cons] at hl
      rw [List.take_succ_cons] at h ⊢
      rw [Nat.add_sub_cancel]
      by_cases hax : a = x
      · subst hax
        have hnot : a ∉ l.take k := fun hm => hl.1 (List.mem_of_mem_take hm)
        have e1 : (a :: l.take k).filter (fun k => k ≠ a) = (l.take k).filter (fun k => k ≠ a) := by
          simp [List.filter_cons]
        have e2 : (a :: l).filter (fun k => k ≠ a) = l.filter (fun k => k ≠ a) := by
          simp [List.filter_cons]
        rw [e1, e2, filter_ne_of_not_mem hnot, filter_ne_of_not_mem hl.1]
      · have hx : x ∈ l.take k := by
          rcases List.mem_cons.mp h with e | e
          · exact absurd e.symm hax
          · exact e
        have hk : 1 ≤ k := by
          cases k with
          | zero => simp at hx
          | succ k => omega
        have e1 : (a :: l.take k).filter (fun k => k ≠ x) = a :: (l.take k).filter (fun k => k ≠ x) := by
          simp [List.filter_cons, hax]
        have e2 : (a :: l).filter (fun k => k ≠ x) = a :: l.filter (fun k => k ≠ x) := by
          simp [List.filter_cons, hax]
        rw [e1, e2, ih hl.2 k hx]
        obtain ⟨j, rfl⟩ : ∃ j, k = j + 1 := ⟨k - 1, by omega⟩
        rw [List.take_succ_cons, Nat.add_sub_cancel]

theorem call_keys (f : α → β) (c : LRU α β) (x : α) :
    (c.call f x).1.keys = if x ∈ c.keys then x :: c.keys.filter (fun k => k ≠ x) else (x :: c.keys).take c.cap := by
  unfold call
  cases h : c.find? x with
  | none =>
    have hx : x ∉ c.keys := find?_none.mp h
    rw [if_neg hx]
    simp only [keys, List.map_take, List.map_cons]
  | some y =>
    have hx : x ∈ c.keys := List.mem_map.mpr ⟨(x, y), find?_some h, rfl⟩
    rw [if_pos hx]
    simp only [keys, List.map_cons, List.filter_map]
    rfl

/-- one call keeps the recency invariant -/
theorem call_recent (f : α → β) (c : LRU α β) (h : List α) (hc : c.keys = (recent h).take c.cap) (x : α) :
    (c.call f x).1.keys = (recent (x :: h)).take (c.call f x).1.cap := by
  rw [call_cap, call_keys, hc]
  show _ = (x :: (recent h).filter (fun k => k ≠ x)).take c.cap
  by_cases hx : x ∈ (recent h).take c.cap
  · rw [if_pos hx]
    obtain ⟨j, hj⟩ : ∃ j, c.cap = j + 1 := by
      cases hcap : c.cap with
      | zero => rw [hcap] at hx; simp at hx
      | succ j => exact ⟨j, rfl⟩
    rw [filter_take_of_mem _ (recent_nodup h) x _ hx, hj, List.take_succ_cons, Nat.add_sub_cancel]
  · rw [if_neg hx]
    cases hcap : c.cap with
    | zero => rfl
    | succ j =>
      have := take_filter_of_not_mem (recent h) x c.cap hx
      rw [hcap, Nat.add_sub_cancel] at this
      rw [List.take_succ_cons, List.take_succ_cons, this, List.take_take, Nat.min_eq_left (Nat.le_succ j)]

end LRU

end YModel
