import YProofs.Lemmas.TruncStage
import YProofs.Lemmas.TruncUnique
/-!
# C13 — Truncation keeps exactly the largest weights and reports the true error

Model: `YModel/Trunc.lean` (`truncate`, `truncMask` = `truncation_mask` with
`truncate_multiplets=False`).  Specification: `ValidA` (annotated spectrum) / `Valid` (mask).

All theorems quantify over every spectrum (any number of sectors, any sizes, any integer values –
degenerate, zero, negative), every combination of the four limits (constants, dictionaries with
missing sectors, `inf`) and every non-negative rational tolerance.  Values are integers = dyadic
rationals scaled by a common power of two; all comparisons are homogeneous, so the scale is
immaterial.

The clause-by-clause theorems are stated for ANY annotated spectrum satisfying `ValidA` – hence for
the model (`truncate_validA`) and for every mask of the real code that the driver judged `Valid`
(`judge_sound`).

Interpretive decision (DESIGN §7): `tol`/`tol_block` bind on every value `≤ tol·max`; with
`tol = 0` exact zeros (and negative eigenvalues) are discarded.  `nonbinding_keeps_all` therefore
carries the explicit hypothesis that all values are strictly above both thresholds.

The dense error identity (`truncated_error`, Mathlib) is in `YProofs/Props/C13Error.lean`.
-/
namespace YModel.Trunc

theorem mem_cells {A : Annotated} {c : Cell} : c ∈ A.cells ↔ ∃ s ∈ A, c ∈ s.2 := by
  unfold Annotated.cells
  rw [List.mem_flatten]
  constructor
  · rintro ⟨l, hl, hc⟩
    obtain ⟨s, hs, rfl⟩ := List.mem_map.mp hl
    exact ⟨s, hs, hc⟩
  · rintro ⟨s, hs, hc⟩
    exact ⟨s.2, List.mem_map_of_mem hs, hc⟩

/-! ## the model satisfies the specification -/

theorem annotate_cells (cs : List Cell) :
    List.zipWith (fun v (x : Bool × Bool) => Cell.mk v x.1 x.2) (cs.map Cell.val)
      ((cs.map Cell.blk).zip (cs.map Cell.keep)) = cs := by
  induction cs with
  | nil => rfl
  | cons c r ih => simp only [List.map_cons, List.zip_cons_cons, List.zipWith_cons_cons, ih]

theorem annotate_self (A : Annotated) :
    annotate A.spectrum (A.map (fun s => s.2.map Cell.blk)) A.mask = A := by
  unfold annotate Annotated.spectrum Annotated.mask
  induction A with
  | nil => rfl
  | cons s r ih =>
    simp only [List.map_cons, List.zip_cons_cons, List.zipWith_cons_cons, annotate_cells]
    rw [ih]

/-- **model_mask_valid**: the mask computed by the model of `truncation_mask` satisfies the
specification `Valid` (limits respected, exact count, maximality) for every spectrum and limits. -/
theorem model_mask_valid (L : Limits) (S : Spectrum) : Valid L S (truncMask L S) := by
  have hsp := truncate_spectrum L S
  have hself := annotate_self (truncate L S)
  rw [hsp] at hself
  refine ⟨?_, (truncate L S).map (fun s => s.2.map Cell.blk), ?_, ?_⟩
  · unfold sameShape truncMask
    conv => lhs; rw [← hsp]
    simp [Annotated.spectrum, List.map_map, Function.comp_def]
  · unfold sameShape truncMask
    simp [List.map_map, Function.comp_def]
  · show ValidA L (annotate S _ (truncate L S).mask)
    rw [hself]
    exact truncate_validA L S

/-- the annotated model output carries exactly the input values -/
theorem model_values (L : Limits) (S : Spectrum) : (truncate L S).spectrum = S := truncate_spectrum L S

/-! ## clause 1: every requested limit is respected -/

/-- **mask_respects_limits** (`D_total`): at most `D_total` values are kept. -/
theorem kept_le_D_total {L : Limits} {A : Annotated} (h : ValidA L A) {d : Nat} (hd : L.dTotal = some d) :
    A.cells.countP Cell.keep ≤ d := by
  rw [h.count, hd]; exact capBy_le_some _ _

theorem countP_keep_le_blk {cs : List Cell} (h : ∀ c ∈ cs, c.keep = true → c.blk = true) :
    cs.countP Cell.keep ≤ cs.countP Cell.blk :=
  List.countP_mono_left h

/-- **mask_respects_limits** (`D_block`, constant or dictionary entry, default `0` for a sector
missing from the dictionary – see `dB_missing`): at most `D_block[t]` values are kept in sector `t`. -/
theorem kept_le_D_block {L : Limits} {A : Annotated} (h : ValidA L A) {s : Sector × List Cell} (hs : s ∈ A)
    {d : Nat} (hd : L.dB s.1 = some d) : s.2.countP Cell.keep ≤ d := by
  have h1 := countP_keep_le_blk (fun c hc => h.sub c (mem_cells.mpr ⟨s, hs, hc⟩))
  have h2 := (h.block s hs).count
  rw [hd] at h2
  have := capBy_le_some d ((s.2.map Cell.val).countP (above (L.tolB s.1) (maxAbs (s.2.map Cell.val))))
  omega

/-- a sector missing from a `D_block` dictionary gets `D_block = 0` … -/
theorem dB_missing (L : Limits) (d : List (Sector × Option Nat)) (t : Sector) (hL : L.dBlock = .dict d)
    (ht : d.lookup t = none) : L.dB t = some 0 := by
  simp [Limits.dB, hL, PerSector.get, ht, dNull]

/-- … hence nothing of it is kept. -/
theorem missing_sector_discarded {L : Limits} {A : Annotated} (h : ValidA L A) {s : Sector × List Cell}
    (hs : s ∈ A) (d : List (Sector × Option Nat)) (hL : L.dBlock = .dict d) (ht : d.lookup s.1 = none) :
    ∀ c ∈ s.2, c.keep = false := by
  have := kept_le_D_block h hs (dB_missing L d s.1 hL ht)
  have h0 : s.2.countP Cell.keep = 0 := by omega
  intro c hc
  have := List.countP_eq_zero.mp h0 c hc
  simpa using this

/-- **mask_respects_limits** (`tol_block`): every kept value is strictly above
`tol_block · max|values of its sector|`. -/
theorem kept_above_tol_block {L : Limits} {A : Annotated} (h : ValidA L A) {s : Sector × List Cell}
    (hs : s ∈ A) {c : Cell} (hc : c ∈ s.2) (hk : c.keep = true) :
    ((L.tolB s.1).num : Int) * maxAbs (s.2.map Cell.val) < c.val * ((L.tolB s.1).den : Int) := by
  have := (h.block s hs).tol c hc (h.sub c (mem_cells.mpr ⟨s, hs, hc⟩) hk)
  simpa [above] using this

/-- **mask_respects_limits** (`tol`): every kept value is strictly above
`tol · max|block-stage survivors|`. -/
theorem kept_above_tol {L : Limits} {A : Annotated} (h : ValidA L A) {c : Cell} (hc : c ∈ A.cells)
    (hk : c.keep = true) : (L.tol.num : Int) * maxAbs A.survivors < c.val * (L.tol.den : Int) := by
  have := h.tol c hc hk
  simpa [above] using this

/-- consequence of the strict comparison against a non-negative threshold: only strictly positive
values are ever kept (exact zeros and negative eigenvalues are discarded – DESIGN §7). -/
theorem kept_pos {L : Limits} {A : Annotated} (h : ValidA L A) {c : Cell} (hc : c ∈ A.cells)
    (hk : c.keep = true) : 0 < c.val :=
  above_pos L.tol (maxAbs_nonneg _) (h.tol c hc hk)

/-! ## clause 2: maximality -/

/-- **mask_maximal** (same sector): inside a sector no discarded value exceeds a kept value. -/
theorem mask_maximal_sector {L : Limits} {A : Annotated} (h : ValidA L A) {s : Sector × List Cell}
    (hs : s ∈ A) {c d : Cell} (hc : c ∈ s.2) (hd : d ∈ s.2) (hck : c.keep = true) (hdk : d.keep = false) :
    d.val ≤ c.val := by
  have hcc := mem_cells.mpr ⟨s, hs, hc⟩
  have hdc := mem_cells.mpr ⟨s, hs, hd⟩
  cases hdb : d.blk with
  | false => exact (h.block s hs).max c hc d hd (h.sub c hcc hck) hdb
  | true => exact h.max c hcc d hdc hck hdb hdk

/-- **mask_maximal** (global limit): no value that survived the block stage and was then discarded
exceeds a kept value (values removed by `D_block`/`tol_block` of another sector do not compete
under the global limit). -/
theorem mask_maximal_global {L : Limits} {A : Annotated} (h : ValidA L A) {c d : Cell}
    (hc : c ∈ A.cells) (hd : d ∈ A.cells) (hck : c.keep = true) (hdb : d.blk = true) (hdk : d.keep = false) :
    d.val ≤ c.val := h.max c hc d hd hck hdb hdk

/-- **maximal in weight**: the number of kept values is exactly what the limits admit. -/
theorem kept_count_exact {L : Limits} {A : Annotated} (h : ValidA L A) :
    A.cells.countP Cell.keep = capBy L.dTotal (A.survivors.countP (above L.tol (maxAbs A.survivors))) := h.count

/-- **ties are the only freedom** (counting form, one selection stage): if two selections from the
same entries both select `k` entries and both are separated (no unselected key above a selected
one), then for every bound `b` they select the same number of keys above `b` – i.e. the selected
multisets of keys coincide; only which of several equal keys is taken can differ. -/
theorem selection_unique_count {α : Type} (key : α → Int) {ps qs : List (α × Bool)}
    (hsame : ps.map (·.1) = qs.map (·.1)) (hp : Sep key ps) (hq : Sep key qs)
    (hcount : marked ps = marked qs) (b : Int) :
    ps.countP (fun p => p.2 && decide (b < key p.1)) = qs.countP (fun p => p.2 && decide (b < key p.1)) := by
  rw [sep_count_gt key hp b, sep_count_gt key hq b, hcount]
  have e : ∀ l : List (α × Bool), l.countP (fun p => decide (b < key p.1)) = (l.map (·.1)).countP (fun a => decide (b < key a)) := by
    intro l; rw [List.countP_map]; rfl
  rw [e ps, e qs, hsame]

/-- **ties are the only freedom**, block stage: two valid annotations of the same sector have the
same number of block survivors above every bound (equal survivor multisets). -/
theorem block_survivors_unique {L : Limits} {t : Sector} {cs cs' : List Cell}
    (hv : cs.map Cell.val = cs'.map Cell.val) (h : ValidBlock L t cs) (h' : ValidBlock L t cs') (b : Int) :
    cs.countP (fun c => c.blk && decide (b < c.val)) = cs'.countP (fun c => c.blk && decide (b < c.val)) := by
  have hsep : ∀ {l : List Cell}, ValidBlock L t l → Sep id (l.map Cell.proj) := by
    intro l hl x hx y hy hx2 hy2
    obtain ⟨c, hc, rfl⟩ := List.mem_map.mp hx
    obtain ⟨d, hd, rfl⟩ := List.mem_map.mp hy
    exact hl.max c hc d hd hx2 hy2
  have hm : ∀ l : List Cell, marked (l.map Cell.proj) = l.countP Cell.blk := by
    intro l; unfold marked; rw [List.countP_map]; rfl
  have := selection_unique_count id (ps := cs.map Cell.proj) (qs := cs'.map Cell.proj)
    (by simpa [List.map_map, Function.comp_def, Cell.proj] using hv) (hsep h) (hsep h')
    (by rw [hm, hm, h.count, h'.count, hv]) b
  rw [List.countP_map, List.countP_map] at this
  exact this

/-- block survivors above any bound, summed over all sectors, are determined by the spectrum -/
theorem survivors_unique_count {L : Limits} : ∀ (A A' : Annotated), A.spectrum = A'.spectrum →
    (∀ s ∈ A, ValidBlock L s.1 s.2) → (∀ s ∈ A', ValidBlock L s.1 s.2) → ∀ b : Int,
    A.cells.countP (fun c => c.blk && decide (b < c.val)) = A'.cells.countP (fun c => c.blk && decide (b < c.val)) := by
  intro A
  induction A with
  | nil =>
    intro A' hsp _ _ b
    cases A' with
    | nil => rfl
    | cons _ _ => simp [Annotated.spectrum] at hsp
  | cons s r ih =>
    intro A' hsp h h' b
    cases A' with
    | nil => simp [Annotated.spectrum] at hsp
    | cons s' r' =>
      simp only [Annotated.spectrum, List.map_cons, List.cons.injEq, Prod.mk.injEq] at hsp
      obtain ⟨⟨ht, hv⟩, hr⟩ := hsp
      rw [cells_cons, cells_cons, List.countP_append, List.countP_append]
      have hb' := h' s' List.mem_cons_self
      rw [← ht] at hb'
      rw [block_survivors_unique hv (h s List.mem_cons_self) hb' b]
      rw [ih r' hr (fun x hx => h x (List.mem_cons_of_mem _ hx)) (fun x hx => h' x (List.mem_cons_of_mem _ hx)) b]

theorem survivors_countP (A : Annotated) (P : Int → Bool) :
    A.survivors.countP P = A.cells.countP (fun c => c.blk && P c.val) := by
  unfold Annotated.survivors
  rw [List.countP_map, List.countP_filter]
  apply List.countP_congr
  intro c _
  simp only [Function.comp, Bool.and_comm]

/-- counting among the block survivors, expressed on all cells -/
theorem countP_surv_pairs {cs : List Cell} (P : Int × Bool → Bool) (Q : Cell → Bool)
    (hPQ : ∀ c ∈ cs, (P (c.val, c.keep) && c.blk) = Q c) :
    ((cs.filter Cell.blk).map (fun c => (c.val, c.keep))).countP P = cs.countP Q := by
  rw [List.countP_map, List.countP_filter]
  apply List.countP_congr
  intro c hc
  rw [← hPQ c hc]
  rfl

/-- **mask_unique_up_to_ties** (both stages): two annotated spectra with the same values that both
satisfy the specification keep the same number of values above every bound `b` – the kept
multisets coincide (`perm_of_countP_gt`); only which of several equal values is kept can differ.
Together with `judge_sound`/`model_mask_valid`: every mask of the real code judged `Valid` keeps
the same multiset of values as the model. -/
theorem mask_unique_up_to_ties {L : Limits} {A A' : Annotated} (hsp : A.spectrum = A'.spectrum)
    (h : ValidA L A) (h' : ValidA L A') (b : Int) :
    A.cells.countP (fun c => c.keep && decide (b < c.val))
      = A'.cells.countP (fun c => c.keep && decide (b < c.val)) := by
  have hS := survivors_unique_count A A' hsp h.block h'.block
  have hperm : A.survivors.Perm A'.survivors := by
    apply perm_of_countP_gt
    intro x
    rw [survivors_countP, survivors_countP]
    exact hS x
  have hK : A.cells.countP Cell.keep = A'.cells.countP Cell.keep := by
    rw [h.count, h'.count, maxAbs_perm hperm, hperm.countP_eq]
  have key : ∀ {B : Annotated}, ValidA L B → B.cells.countP (fun c => c.keep && decide (b < c.val))
      = min (B.cells.countP Cell.keep) (B.cells.countP (fun c => c.blk && decide (b < c.val))) := by
    intro B hB
    have hsep : Sep id ((B.cells.filter Cell.blk).map (fun c => (c.val, c.keep))) := by
      intro x hx y hy hx2 hy2
      obtain ⟨c, hc, rfl⟩ := List.mem_map.mp hx
      obtain ⟨d, hd, rfl⟩ := List.mem_map.mp hy
      rw [List.mem_filter] at hc hd
      exact hB.max c hc.1 d hd.1 hx2 hd.2 hy2
    have hcg := sep_count_gt id hsep b
    have e1 := countP_surv_pairs (cs := B.cells) (fun p => p.2 && decide (b < id p.1))
      (fun c => c.keep && decide (b < c.val)) (by
        intro c hc
        have := hB.sub c hc
        cases hk : c.keep <;> cases hb : c.blk <;> simp_all)
    have e2 := countP_surv_pairs (cs := B.cells) (fun p => p.2) Cell.keep (by
        intro c hc
        have := hB.sub c hc
        cases hk : c.keep <;> cases hb : c.blk <;> simp_all)
    have e3 := countP_surv_pairs (cs := B.cells) (fun p => decide (b < id p.1))
      (fun c => c.blk && decide (b < c.val)) (by
        intro c _
        simp only [id, Bool.and_comm])
    unfold marked at hcg
    rw [e1, e2, e3] at hcg
    exact hcg
  rw [key h, key h', hK, hS b]

/-- the kept values of two valid annotations are permutations of each other -/
theorem kept_perm {L : Limits} {A A' : Annotated} (hsp : A.spectrum = A'.spectrum)
    (h : ValidA L A) (h' : ValidA L A') :
    ((A.cells.filter Cell.keep).map Cell.val).Perm ((A'.cells.filter Cell.keep).map Cell.val) := by
  apply perm_of_countP_gt
  intro b
  have e : ∀ B : Annotated, ((B.cells.filter Cell.keep).map Cell.val).countP (fun v => decide (b < v))
      = B.cells.countP (fun c => c.keep && decide (b < c.val)) := by
    intro B
    rw [List.countP_map, List.countP_filter]
    apply List.countP_congr
    intro c _
    simp only [Function.comp, Bool.and_comm]
  rw [e A, e A']
  exact mask_unique_up_to_ties hsp h h' b

/-! ## clause 4: limits that do not bind -/

theorem capBy_eq_self_countP {o : Option Nat} {l : List Int} {P : Int → Bool}
    (hD : capBy o l.length = l.length) (hP : ∀ v ∈ l, P v = true) : capBy o (l.countP P) = l.length := by
  have : l.countP P = l.length := List.countP_eq_length.mpr hP
  rw [this, hD]

/-- **nonbinding_keeps_all**: if `D_total ≥ #S`, `D_block[t] ≥ #S_t` for every sector and every
value is strictly above both thresholds, nothing is discarded. -/
theorem nonbinding_keeps_all {L : Limits} {A : Annotated} (h : ValidA L A)
    (hDt : capBy L.dTotal A.cells.length = A.cells.length)
    (hDb : ∀ s ∈ A, capBy (L.dB s.1) s.2.length = s.2.length)
    (htb : ∀ s ∈ A, ∀ c ∈ s.2, above (L.tolB s.1) (maxAbs (s.2.map Cell.val)) c.val = true)
    (ht : ∀ c ∈ A.cells, above L.tol (maxAbs (A.cells.map Cell.val)) c.val = true) :
    ∀ c ∈ A.cells, c.keep = true := by
  -- every cell survives its block stage
  have hblk : ∀ c ∈ A.cells, c.blk = true := by
    intro c hc
    obtain ⟨s, hs, hcs⟩ := mem_cells.mp hc
    have hcnt := (h.block s hs).count
    have hlen : capBy (L.dB s.1) (s.2.map Cell.val).length = (s.2.map Cell.val).length := by
      simpa using hDb s hs
    rw [capBy_eq_self_countP hlen (by
      intro v hv
      obtain ⟨c', hc', rfl⟩ := List.mem_map.mp hv
      exact htb s hs c' hc')] at hcnt
    have : s.2.countP Cell.blk = s.2.length := by simpa using hcnt
    exact List.countP_eq_length.mp this c hcs
  have hsurv : A.survivors = A.cells.map Cell.val := by
    unfold Annotated.survivors
    rw [List.filter_eq_self.mpr hblk]
  have hcnt := h.count
  rw [hsurv] at hcnt
  have hlen : capBy L.dTotal (A.cells.map Cell.val).length = (A.cells.map Cell.val).length := by
    simpa using hDt
  rw [capBy_eq_self_countP hlen (by
    intro v hv
    obtain ⟨c', hc', rfl⟩ := List.mem_map.mp hv
    exact ht c' hc')] at hcnt
  have : A.cells.countP Cell.keep = A.cells.length := by simpa using hcnt
  exact List.countP_eq_length.mp this

/-! ## clause 3 (spectral part): kept and discarded weights partition the total weight -/

def sqSum (l : List Int) : Int := (l.map (fun v => v * v)).sum

/-- **partition_norm**: `‖S‖² = ‖S_kept‖² + ‖S_discarded‖²` (for any mask whatsoever). -/
theorem partition_norm (cs : List Cell) :
    sqSum (cs.map Cell.val) = sqSum ((cs.filter Cell.keep).map Cell.val)
      + sqSum ((cs.filter (fun c => !c.keep)).map Cell.val) := by
  unfold sqSum
  induction cs with
  | nil => rfl
  | cons c r ih =>
    cases hk : c.keep with
    | true => simp only [List.map_cons, List.sum_cons, List.filter_cons, hk, if_true, Bool.not_true,
        Bool.false_eq_true, if_false, ih]; omega
    | false => simp only [List.map_cons, List.sum_cons, List.filter_cons, hk, Bool.false_eq_true, if_false,
        Bool.not_false, if_true, ih]; omega

/-- with default limits only zeros / negative values are discarded; for a singular-value spectrum
(values ≥ 0) the discarded weight is then exactly `0` – the factorisation stays exact. -/
theorem default_discards_only_nonpositive {L : Limits} {A : Annotated} (h : ValidA L A)
    (hDt : L.dTotal = none) (hDb : ∀ s ∈ A, L.dB s.1 = none)
    (htb : ∀ s ∈ A, (L.tolB s.1).num = 0) (ht : L.tol.num = 0) (hden : 0 < L.tol.den)
    (hdenb : ∀ s ∈ A, 0 < (L.tolB s.1).den) :
    ∀ c ∈ A.cells, 0 < c.val → c.keep = true := by
  -- block stage keeps exactly the positive values
  have hab : ∀ (τ : Tol) (mx v : Int), τ.num = 0 → 0 < τ.den → (above τ mx v = true ↔ 0 < v) := by
    intro τ mx v hn hd
    unfold above
    simp only [hn, decide_eq_true_eq, Int.natCast_zero, Int.zero_mul]
    constructor
    · intro hv
      apply Classical.byContradiction
      intro hneg
      have : v * (τ.den : Int) ≤ 0 := Int.mul_nonpos_of_nonpos_of_nonneg (by omega) (Int.natCast_nonneg _)
      omega
    · intro hv
      exact Int.mul_pos hv (by omega)
  have hblk : ∀ c ∈ A.cells, 0 < c.val → c.blk = true := by
    intro c hc hpos
    obtain ⟨s, hs, hcs⟩ := mem_cells.mp hc
    have hb := h.block s hs
    -- all positive entries of the sector are selected: count argument
    apply Classical.byContradiction
    intro hnb
    have hcb : c.blk = false := by cases hx : c.blk <;> simp_all
    have hcnt := hb.count
    rw [hDb s hs] at hcnt
    simp only [capBy, List.countP_map] at hcnt
    have hlt : s.2.countP Cell.blk < s.2.countP (above (L.tolB s.1) (maxAbs (s.2.map Cell.val)) ∘ Cell.val) := by
      apply countP_lt_of_imp_of_exists
      · intro y hy hyb; exact hb.tol y hy hyb
      · exact ⟨c, hcs, (hab _ _ _ (htb s hs) (hdenb s hs)).mpr hpos, hcb⟩
    omega
  intro c hc hpos
  apply Classical.byContradiction
  intro hnk
  have hck : c.keep = false := by cases hx : c.keep <;> simp_all
  have hcnt := h.count
  rw [hDt] at hcnt
  simp only [capBy, Annotated.survivors, List.countP_map, List.countP_filter] at hcnt
  have hlt : A.cells.countP Cell.keep <
      A.cells.countP (fun a => (above L.tol (maxAbs A.survivors) ∘ Cell.val) a && a.blk) := by
    apply countP_lt_of_imp_of_exists
    · intro y hy hyk
      simp only [Function.comp, Bool.and_eq_true]
      exact ⟨h.tol y hy hyk, h.sub y hy hyk⟩
    · refine ⟨c, hc, ?_, hck⟩
      simp only [Function.comp, Bool.and_eq_true]
      exact ⟨(hab _ _ _ ht hden).mpr hpos, hblk c hc hpos⟩
  simp only [Annotated.survivors] at hlt
  omega

/-! ## the judge used by the driver on masks of the real code is sound -/

theorem validBlockB_sound {L : Limits} {t : Sector} {cs : List Cell} (h : validBlockB L t cs = true) :
    ValidBlock L t cs := by
  unfold validBlockB at h
  simp only [Bool.and_eq_true, beq_iff_eq, List.all_eq_true, Bool.or_eq_true, Bool.not_eq_true',
    decide_eq_true_eq] at h
  obtain ⟨⟨h1, h2⟩, h3⟩ := h
  refine ⟨h1, ?_, ?_⟩
  · intro c hc hb
    rcases h2 c hc with h | h
    · rw [hb] at h; cases h
    · exact h
  · intro c hc d hd hcb hdb
    rcases h3 c hc d hd with (h | h) | h
    · rw [hcb] at h; cases h
    · rw [hdb] at h; cases h
    · exact h

theorem validAB_sound {L : Limits} {A : Annotated} (h : validAB L A = true) : ValidA L A := by
  unfold validAB at h
  simp only [Bool.and_eq_true, beq_iff_eq, List.all_eq_true, Bool.or_eq_true, Bool.not_eq_true',
    decide_eq_true_eq] at h
  obtain ⟨⟨⟨⟨h1, h2⟩, h3⟩, h4⟩, h5⟩ := h
  refine ⟨?_, fun s hs => validBlockB_sound (h2 s hs), h3, ?_, ?_⟩
  · intro c hc hk
    rcases h1 c hc with h | h
    · rw [hk] at h; cases h
    · exact h
  · intro c hc hk
    rcases h4 c hc with h | h
    · rw [hk] at h; cases h
    · exact h
  · intro c hc d hd hck hdb hdk
    rcases h5 c hc d hd with ((h | h) | h) | h
    · rw [hck] at h; cases h
    · rw [hdb] at h; cases h
    · rw [hdk] at h; cases h
    · exact h

/-- **judge_sound**: whenever the driver answers `judge = true` for a mask of the real code, that
mask satisfies the specification (so all clause theorems above apply to it). -/
theorem judge_sound {L : Limits} {S : Spectrum} {M : List (List Bool)} (h : judge L S M = true) :
    Valid L S M := by
  unfold judge shapeB at h
  simp only [Bool.and_eq_true, beq_iff_eq] at h
  exact ⟨h.1.1, witness L S M, h.1.2, validAB_sound h.2⟩

/-! ## non-vacuity: concrete instances -/

/-- default arguments -/
def Ldefault : Limits := ⟨⟨0, 1⟩, .const ⟨0, 1⟩, .const none, none⟩

/-- DESIGN §7: `S = [2,1,0]` with default arguments keeps `[T,T,F]` (the exact zero is discarded),
and the discarded weight is `0`. -/
example : truncMask Ldefault [([], [2, 1, 0])] = [[true, true, false]] := by decide
example : sqSum ((((truncate Ldefault [([], [2, 1, 0])]).cells).filter (fun c => !c.keep)).map Cell.val) = 0 := by decide

/-- two sectors, dictionary `D_block` with a missing sector, `tol` falling exactly on a value,
`D_total` binding, ties: values are in units of 1/4. -/
def Lex : Limits := ⟨⟨1, 4⟩, .const ⟨1, 8⟩, .dict [([1], some 2), ([5], some 7)], some 2⟩
def Sex : Spectrum := [([0], [9, 3]), ([1], [8, 8, 2, 1]), ([2], [7])]

example : truncMask Lex Sex = [[false, false], [true, true, false, false], [false]] := by decide
example : ValidA Lex (truncate Lex Sex) := truncate_validA _ _
example : judge Lex Sex [[false, false], [true, true, false, false], [false]] = true := by decide
/-- the specification is not trivially true: keeping the smaller value instead is rejected, and so
is keeping a value of the sector missing from the dictionary, or keeping too few -/
example : judge Lex Sex [[false, false], [true, false, true, false], [false]] = false := by decide
example : judge Lex Sex [[true, false], [true, false, false, false], [false]] = false := by decide
example : judge Lex Sex [[false, false], [true, false, false, false], [false]] = false := by decide
/-- tie freedom: `D_total = 1` admits either of the two equal values -/
example : judge { Lex with dTotal := some 1 } Sex [[false, false], [true, false, false, false], [false]] = true
    ∧ judge { Lex with dTotal := some 1 } Sex [[false, false], [false, true, false, false], [false]] = true := by decide

/-- non-binding hypotheses are satisfiable (and then everything is kept) -/
example : truncMask ⟨⟨1, 8⟩, .const ⟨1, 4⟩, .const (some 3), some 5⟩ [([0], [8, 4, 3]), ([1], [6, 5])]
    = [[true, true, true], [true, true]] := by decide

/-- `tol` exactly excluding a value: `2 = (1/4)·8` is not strictly above the threshold -/
example : truncMask ⟨⟨1, 4⟩, .const ⟨0, 1⟩, .const none, none⟩ [([0], [8, 2]), ([1], [3, 2])]
    = [[true, false], [true, false]] := by decide

/-- the block stage changes the global maximum: sector `[0]` (largest values) has `D_block = 0`, so
`tol = 1/2` is relative to `8`, not to `64` -/
example : truncMask ⟨⟨1, 2⟩, .const ⟨0, 1⟩, .dict [([0], some 0), ([1], some 3)], none⟩
    [([0], [64, 32]), ([1], [8, 5, 4])] = [[false, false], [true, true, false]] := by decide

end YModel.Trunc
