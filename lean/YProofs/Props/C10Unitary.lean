import Mathlib.Analysis.CStarAlgebra.Exponential
import Mathlib.Analysis.InnerProductSpace.Adjoint
/-!
# C10 — conservation clause ("conserves the norm and the energy of the state" for a time-independent Hermitian generator
and real time), stated on the exact propagator the TDVP integrator approximates

The schedule / freshness / time-grid part of C10 is in `YProofs/Props/C10.lean`.  Here: for EVERY Hermitian (self-adjoint,
bounded) generator `H` on a complex Hilbert space `E` (any dimension; the sector of the MPS Hilbert space is the
finite-dimensional instance) and EVERY real time `t`, the propagator `exp(-i t H)` is unitary, preserves the norm of every
state, commutes with `H` and preserves the energy `⟪H x, x⟫` of every state.  With maximal bond dimension `tdvp_` is exact on
the full manifold (oracle "evolved state == exp(-u t H) psi0"), so the conservation the oracles observe on the real code
is a mathematical necessity; a deviation beyond solver tolerance can only come from the code.  The same statement applies
verbatim to every LOCAL step (`expmv` with `Heff = V†HV`, Hermitian by `YProofs.C09Var.heff_symmetric`): each local
exponential conserves the norm of the local tensor — the reason '1site' TDVP conserves the norm for ANY bond dimension.

Tie to /repo: dense oracles of `harness/props/c10.py` (norm, energy, dense `expm` reference) on real `tdvp_` runs.
Not modelled: round-off, the Krylov approximation of the exponential (C18), the projector splitting error.
-/

open NormedSpace Complex


namespace YProofs.C10Unitary

variable {E : Type*} [NormedAddCommGroup E] [InnerProductSpace ℂ E] [CompleteSpace E]

/-- the exact propagator `exp(-i t H)` of a time-independent Hermitian generator over real time `t`
(`u = 1j`, `tdvp_` evolves with `exp(-u t H)`) -/
noncomputable def propagator (H : selfAdjoint (E →L[ℂ] E)) (t : ℝ) : unitary (E →L[ℂ] E) :=
  selfAdjoint.expUnitary ((-t) • H)

/-- the propagator is `exp(-(i t) H)` -/
theorem propagator_val (H : selfAdjoint (E →L[ℂ] E)) (t : ℝ) :
    (propagator H t : E →L[ℂ] E) = exp (-(I * t) • (H : E →L[ℂ] E)) := by
  simp only [propagator, selfAdjoint.expUnitary_coe, selfAdjoint.val_smul]
  congr 1
  rw [← Complex.coe_smul, smul_smul]
  simp

/-- **`propagator_norm`** (clause "conserves the norm"): for every Hermitian `H`, real `t`, state `x` -/
theorem propagator_norm (H : selfAdjoint (E →L[ℂ] E)) (t : ℝ) (x : E) :
    ‖(propagator H t : E →L[ℂ] E) x‖ = ‖x‖ := Unitary.norm_map _ x

/-- the propagator commutes with its generator -/
theorem propagator_commute (H : selfAdjoint (E →L[ℂ] E)) (t : ℝ) :
    Commute (H : E →L[ℂ] E) (propagator H t : E →L[ℂ] E) := by
  rw [propagator_val]
  exact ((Commute.refl (H : E →L[ℂ] E)).smul_right _).exp_right

/-- **`propagator_energy`** (clause "conserves the energy"): `⟪H U x, U x⟫ = ⟪H x, x⟫` for every Hermitian `H`, real `t`,
state `x` (normalised or not) -/
theorem propagator_energy (H : selfAdjoint (E →L[ℂ] E)) (t : ℝ) (x : E) :
    inner ℂ ((H : E →L[ℂ] E) ((propagator H t : E →L[ℂ] E) x)) ((propagator H t : E →L[ℂ] E) x) =
      inner ℂ ((H : E →L[ℂ] E) x) x := by
  have h := propagator_commute H t
  have : (H : E →L[ℂ] E) ((propagator H t : E →L[ℂ] E) x) = (propagator H t : E →L[ℂ] E) ((H : E →L[ℂ] E) x) :=
    congrArg (fun f : E →L[ℂ] E => f x) h.eq
  rw [this, Unitary.inner_map_map]

/-! ### non-vacuity: the zero generator on ℂ (one-dimensional Hilbert space) is self-adjoint -/
example : ‖(propagator (0 : selfAdjoint (ℂ →L[ℂ] ℂ)) 1 : ℂ →L[ℂ] ℂ) (2 : ℂ)‖ = ‖(2 : ℂ)‖ := propagator_norm _ _ _

end YProofs.C10Unitary
