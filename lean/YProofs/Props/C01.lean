import YModel.Ops
/-! placeholder; theorems follow -/
namespace YModel
theorem c01_placeholder : True := trivial
end YModel
