import YProofs.Props.C02
/-!
# C01 — Tensor algebra agrees with dense linear algebra

`toDenseOn L T` is the model of `T.to_numpy(legs=L)`: the dense array on ANY leg spaces `L` (also with
sectors the tensor does not hold, which is how "sectors present in only one operand" and "entirely empty
results" enter).  The theorems state that `toDenseOn` commutes with the operations of the block model,
for every well-formed operand of every symmetry, rank, sector content and value ring.
-/
namespace YModel
variable {R : Type} {ms : List Nat}

/-! ### element-wise operations: scalar multiplication, negation, conjugation of values -/

/-- any zero-preserving element-wise map commutes with the dense embedding -/
theorem toDense_mapVals [Zero R] (f : R → R) (hf : f 0 = 0) (L : List LegSpace) (T : Tensor R) (idx : List Nat) :
    toDenseOn L (T.mapVals f) idx = f (toDenseOn L T idx) := by
  unfold toDenseOn
  have hr : (T.mapVals f).rank = T.rank := rfl
  rw [hr, Tensor.get?_mapVals]
  split
  · cases T.get? (keyAt L idx T.rank) with
    | none => simp [hf]
    | some b => simp [Block.map]
  · exact hf.symm

theorem toDense_smul [Zero R] [Mul R] (c : R) (hc : c * 0 = 0) (L : List LegSpace) (T : Tensor R) (idx : List Nat) :
    toDenseOn L (smul c T) idx = c * toDenseOn L T idx := toDense_mapVals _ hc L T idx

theorem toDense_neg [Zero R] [Neg R] (h0 : -(0 : R) = 0) (L : List LegSpace) (T : Tensor R) (idx : List Nat) :
    toDenseOn L (neg T) idx = - toDenseOn L T idx := toDense_mapVals _ h0 L T idx

theorem toDense_conjBlocks [Zero R] [Conj R] (h0 : Conj.conj (0 : R) = 0) (L : List LegSpace) (T : Tensor R) (idx : List Nat) :
    toDenseOn L (conjBlocks T) idx = Conj.conj (toDenseOn L T idx) := toDense_mapVals _ h0 L T idx

/-- `conj` = element-wise conjugate of the dense array (legs become the conjugate legs: same sectors) -/
theorem toDense_conj [Zero R] [Conj R] (h0 : Conj.conj (0 : R) = 0) (L : List LegSpace) (T : Tensor R) (idx : List Nat) :
    toDenseOn L (conj T) idx = Conj.conj (toDenseOn L T idx) := by
  have : toDenseOn L (conj T) idx = toDenseOn L (T.mapVals Conj.conj) idx := by
    unfold toDenseOn conj
    simp [Tensor.rank, Tensor.get?, Tensor.mapVals]
  rw [this]; exact toDense_mapVals _ h0 L T idx

/-- `flip_signature` does not touch the values -/
theorem toDense_flipSignature [Zero R] (L : List LegSpace) (T : Tensor R) (idx : List Nat) :
    toDenseOn L (flipSignature T) idx = toDenseOn L T idx := by
  unfold toDenseOn flipSignature
  simp [Tensor.rank, Tensor.get?]

/-! ### addition: also for sectors present in only one operand -/

theorem toDense_add [Zero R] [Add R] (hl : ∀ x : R, 0 + x = x) (hr : ∀ x : R, x + 0 = x)
    {a b c : Tensor R} (h : add a b = .ok c) (L : List LegSpace) (idx : List Nat) :
    toDenseOn L c idx = toDenseOn L a idx + toDenseOn L b idx := by
  obtain ⟨_, hrank, _, _, _, _, rfl⟩ := add_ok_iff h
  unfold toDenseOn
  have hcr : (a.ofKeys (a.keys ++ b.keys) (fun k => addBlocks (a.get? k) (b.get? k))).rank = a.rank := rfl
  rw [hcr, ← hrank, Tensor.get?_ofKeys]
  split
  · generalize keyAt L idx a.rank = k
    cases hga : a.get? k with
    | some ba =>
      have hk : k ∈ a.keys ++ b.keys := by
        apply List.mem_append_left
        by_contra hn
        rw [← Tensor.get?_none_iff, hga] at hn; cases hn
      rw [if_pos hk]
      cases hgb : b.get? k with
      | some bb => simp [addBlocks]
      | none => simp [addBlocks, hr]
    | none =>
      cases hgb : b.get? k with
      | some bb =>
        have hk : k ∈ a.keys ++ b.keys := by
          apply List.mem_append_right
          by_contra hn
          rw [← Tensor.get?_none_iff, hgb] at hn; cases hn
        rw [if_pos hk]
        simp [addBlocks, hl]
      | none =>
        have hk : k ∉ a.keys ++ b.keys := by
          rw [Tensor.get?_none_iff] at hga hgb
          simp [hga, hgb]
        rw [if_neg hk]
        simp [hl]
  · exact (hl 0).symm

theorem toDense_sub [Zero R] [Add R] [Neg R] (hl : ∀ x : R, 0 + x = x) (hr : ∀ x : R, x + 0 = x) (h0 : -(0 : R) = 0)
    {a b c : Tensor R} (h : sub a b = .ok c) (L : List LegSpace) (idx : List Nat) :
    toDenseOn L c idx = toDenseOn L a idx + - toDenseOn L b idx := by
  unfold sub at h
  rw [toDense_add hl hr h, toDense_neg h0]

/-! ### transposition -/

theorem getD_pick {α} [Inhabited α] (l : List α) (σ : List Nat) (j : Nat) (d : α) (hj : j < σ.length) :
    (pick l σ).getD j d = l.getD (σ.getD j 0) default := by
  simp [pick, List.getD, hj]

theorem locAt_pick (L : List LegSpace) (idx : List Nat) (σ : List Nat) (j : Nat) (hj : j < σ.length) :
    locAt (pick L σ) (pick idx σ) j = locAt L idx (σ.getD j 0) := by
  unfold locAt
  rw [getD_pick _ _ _ _ hj, getD_pick _ _ _ _ hj]
  rfl

theorem map_range_pick {α} [Inhabited α] (f : Nat → α) (n : Nat) (σ : List Nat) (hσ : ∀ p ∈ σ, p < n) :
    pick ((List.range n).map f) σ = σ.map f := by
  unfold pick
  apply List.map_congr_left
  intro p hp
  simp [List.getD, hσ p hp]

/-- **transposition**: the dense array of `transpose σ a` on the permuted leg spaces, read at the permuted
multi-index, is the dense array of `a`: result leg `j` is operand leg `σ[j]`. -/
theorem toDense_transpose [Zero R] {σ : List Nat} {a c : Tensor R} (ha : WF ms a) (h : transpose σ a = .ok c)
    (L : List LegSpace) (idx : List Nat) (hidx : idx.length = a.rank) :
    toDenseOn (pick L σ) c (pick idx σ) = toDenseOn L a idx := by
  obtain ⟨hσ, hc⟩ := transpose_ok_iff h
  have hwc := wf_transpose ha h
  have hlen := isPerm_length hσ
  have hlt := isPerm_lt hσ
  have hcr : c.rank = a.rank := by rw [hc]; simp [Tensor.rank, pick_length, hlen]
  have hperm := isPerm_perm hσ
  unfold toDenseOn
  rw [hcr]
  -- the "all located" conditions agree
  have hall : (List.range a.rank).all (fun i => (locAt (pick L σ) (pick idx σ) i).isSome)
      = (List.range a.rank).all (fun i => (locAt L idx i).isSome) := by
    rw [Bool.eq_iff_iff, List.all_eq_true, List.all_eq_true]
    constructor
    · intro hh i hi
      have hi' := List.mem_range.mp hi
      obtain ⟨q, hq, hqi⟩ := List.getElem_of_mem (isPerm_mem hσ i hi')
      have := hh q (List.mem_range.mpr (by omega))
      rw [locAt_pick _ _ _ _ hq] at this
      simpa [List.getD, hq, hqi] using this
    · intro hh j hj
      have hj' : j < σ.length := by rw [hlen]; exact List.mem_range.mp hj
      rw [locAt_pick _ _ _ _ hj']
      apply hh
      apply List.mem_range.mpr
      apply hlt
      simp [List.getD, hj']
  rw [hall]
  split
  · -- keys and positions are the permuted ones
    have hkey : keyAt (pick L σ) (pick idx σ) a.rank = pick (keyAt L idx a.rank) σ := by
      unfold keyAt
      rw [map_range_pick _ _ _ hlt]
      rw [← hlen]
      apply List.ext_getElem (by simp)
      intro j h1 h2
      simp only [List.getElem_map, List.getElem_range]
      rw [locAt_pick _ _ _ _ (by simpa using h1)]
      simp [List.getD, (by simpa using h1 : j < σ.length)]
    have hpos : posAt (pick L σ) (pick idx σ) a.rank = pick (posAt L idx a.rank) σ := by
      unfold posAt
      rw [map_range_pick _ _ _ hlt]
      rw [← hlen]
      apply List.ext_getElem (by simp)
      intro j h1 h2
      simp only [List.getElem_map, List.getElem_range]
      rw [locAt_pick _ _ _ _ (by simpa using h1)]
      simp [List.getD, (by simpa using h1 : j < σ.length)]
    rw [hkey, hpos]
    generalize hk : keyAt L idx a.rank = k
    generalize hp : posAt L idx a.rank = pos
    have hklen : k.length = a.rank := by rw [← hk]; simp [keyAt]
    have hplen : pos.length = a.rank := by rw [← hp]; simp [posAt]
    cases hga : a.get? k with
    | some ba =>
      have hmem := Tensor.get?_some_mem hga
      have hcm : (pick k σ, ba.perm σ) ∈ c.blocks := by
        rw [hc]
        apply (isort_perm _ _).mem_iff.mpr
        exact List.mem_map.mpr ⟨(k, ba), hmem, rfl⟩
      rw [Tensor.get?_of_mem hwc.sorted hcm]
      simp only [Block.perm]
      congr 1
      have hsl := (ha.keyRank _ hmem).2
      simp only at hsl
      rw [hsl]
      apply List.ext_getElem (by simp [hplen])
      intro p h1 h2
      simp only [List.getElem_map, List.getElem_range]
      have hp' : p < a.rank := by simpa using h1
      obtain ⟨q, hq, hqp⟩ := List.getElem_of_mem (isPerm_mem hσ p hp')
      have hidx : σ.idxOf p = q := by
        have hnd : σ.Nodup := (hperm.nodup_iff).mpr List.nodup_range
        rw [← hqp]; exact List.Nodup.idxOf_getElem hnd q hq
      rw [hidx, getD_pick _ _ _ _ hq]
      simp [List.getD, hq, hqp, h2]
    | none =>
      have : c.get? (pick k σ) = none := by
        rw [Tensor.get?_none_iff]
        intro hin
        obtain ⟨kb, hkb, hkk⟩ := List.mem_map.mp hin
        rw [hc] at hkb
        have := (isort_perm _ _).mem_iff.mp hkb
        obtain ⟨kb', hkb', rfl⟩ := List.mem_map.mp this
        simp only at hkk
        have := pick_injective hσ (ha.keyRank kb' hkb').1 hklen hkk
        rw [Tensor.get?_none_iff] at hga
        exact hga (this ▸ List.mem_map_of_mem (f := (·.1)) hkb')
      rw [this]
  · rfl

/-! ### block access, dense array and legs describe one array -/

/-- **block access agrees with the dense array**: at a multi-index located in sectors `key` at positions
`pos`, the dense array holds exactly `a[key][pos]` when the block exists … -/
theorem block_access_agrees [Zero R] (L : List LegSpace) (T : Tensor R) (idx : List Nat)
    (hloc : (List.range T.rank).all (fun i => (locAt L idx i).isSome) = true)
    {b : Block R} (hb : T.get? (keyAt L idx T.rank) = some b) :
    toDenseOn L T idx = b.val (posAt L idx T.rank) := by
  unfold toDenseOn
  rw [if_pos hloc, hb]

/-- … and `0` when it does not (absent sector, or a sector present only in the supplied legs) -/
theorem block_absent_zero [Zero R] (L : List LegSpace) (T : Tensor R) (idx : List Nat)
    (hb : T.get? (keyAt L idx T.rank) = none) : toDenseOn L T idx = 0 := by
  unfold toDenseOn
  split
  · rw [hb]
  · rfl

/-- an entirely empty tensor is the zero array on any leg spaces -/
theorem toDense_empty [Zero R] (L : List LegSpace) (T : Tensor R) (h : T.blocks = []) (idx : List Nat) :
    toDenseOn L T idx = 0 := by
  unfold toDenseOn Tensor.get?
  rw [h]
  simp

/-! ### every program built from these operations: composition of the proved steps

`ncon`/`einsum` execute a command list of `tensordot`, `trace`, `transpose` (`_einsum.py:_execute_commands`);
each executed command is one of the operations above.  The statement that the PLANNER always emits a command
list whose composition is the network contraction, for every network and order, is NOT proved here (it needs a
general finite-sum rearrangement over arbitrary graphs); it is covered per generated network by the
correspondence and by `np.einsum` on the real code.  The dense commutation of `tensordot` itself
(`toDense_tensordot`: splitting the contracted dense range along sector offsets) is likewise covered by
correspondence/oracle only in this version; its structural part (`wf_tensordot`, `charge_tensordot`: which
blocks exist, their shapes, the charge rule) is proved in C02.  -/

/-- non-vacuity -/
example : toDenseOn [[([0], 1), ([1], 2)], [([0], 2), ([1], 1)]] exA [1, 2] = 2 := by decide
example : toDenseOn [[([0], 1), ([1], 2)], [([0], 2), ([1], 1)]] exA [0, 2] = 0 := by decide
example : (add exA exA).toOption.map (fun c => toDenseOn [[([0], 1), ([1], 2)], [([0], 2), ([1], 1)]] c [1, 2]) = some 4 := by decide

end YModel
