import YModel.Cache
/-!
# C16 (continued) — key adequacy: when is a memo table keyed by a projection transparent?

`YProofs/Props/C16.lean` proves transparency of the LRU discipline for a table keyed by the WHOLE argument.  The clause of C16
"tensors that differ only in symmetry group, fermionic flags or fusion history but share block layout never receive each other's
cached metadata" is about the KEY: here the table is addressed by a projection `k x`.

* `kmemo_run`: along every history, from the empty table, a call with argument `x` returns `f` of the FIRST argument of the
  history that has the same key as `x`;
* `kmemo_transparent_iff`: every history is answered correctly iff `k` is adequate (`k x = k y → f x = f y`);
* `kmemo_foreign_value`: if two arguments share the key and differ in value, the history `[x, y]` hands `x`'s value to `y`;
* `kmemo_order_detects`: … and the two orders `[x, y]` / `[y, x]` give `y` different values: executing a history in two orders
  (the fresh-process oracle of `harness/props/c16.py`) exposes an inadequate key whichever memoisation mechanism is used.
-/
namespace YModel
namespace KMemo
variable {α κ β : Type} [DecidableEq κ]

/-- first element of `xs` with the same key as `x` (`x` itself if there is none) -/
def firstWith (k : α → κ) (xs : List α) (x : α) : α := (xs.find? (fun z => k z = k x)).getD x

/-- the table represents the calls `pre` made so far -/
def Repr' (k : α → κ) (f : α → β) (m : KMemo κ β) (pre : List α) : Prop :=
  ∀ c : κ, m.lookup c = (pre.find? (fun z => k z = c)).map f

theorem repr_empty (k : α → κ) (f : α → β) : Repr' k f ⟨[]⟩ [] := by
  intro c; rfl

theorem repr_call (k : α → κ) (f : α → β) (m : KMemo κ β) (pre : List α) (h : Repr' k f m pre) (x : α) :
    Repr' k f (m.call k f x).1 (pre ++ [x]) ∧ (m.call k f x).2 = f (firstWith k (pre ++ [x]) x) := by
  unfold call
  have hx := h (k x)
  cases hl : m.lookup (k x) with
  | some y =>
    rw [hl] at hx
    cases hf : pre.find? (fun z => k z = k x) with
    | none => rw [hf] at hx; cases hx
    | some z =>
      rw [hf] at hx
      simp only [Option.map_some, Option.some.injEq] at hx
      refine ⟨?_, ?_⟩
      · intro c
        rw [h c, List.find?_append]
        cases hc : pre.find? (fun z => k z = c) with
        | some w => simp
        | none =>
          simp only [Option.map_none, Option.none_or, List.find?_cons, List.find?_nil]
          by_cases hkc : k x = c
          · subst hkc; rw [hf] at hc; cases hc
          · simp [hkc]
      · show y = f (firstWith k (pre ++ [x]) x)
        unfold firstWith
        rw [List.find?_append, hf]
        simp [hx]
  | none =>
    rw [hl] at hx
    have hf : pre.find? (fun z => k z = k x) = none := by
      cases hp : pre.find? (fun z => k z = k x) with
      | none => rfl
      | some z => rw [hp] at hx; cases hx
    refine ⟨?_, ?_⟩
    · intro c
      show (KMemo.mk ((k x, f x) :: m.entries)).lookup c = _
      unfold lookup
      rw [List.find?_cons, List.find?_append]
      by_cases hkc : k x = c
      · subst hkc
        simp [hf]
      · have := h c
        unfold lookup at this
        simp only [hkc, decide_false, Bool.false_eq_true, ↓reduceIte]
        rw [this]
        cases pre.find? (fun z => k z = c) <;> simp [hkc]
    · show f x = f (firstWith k (pre ++ [x]) x)
      unfold firstWith
      rw [List.find?_append, hf]
      simp

/-- general form of `kmemo_run`, from a table representing the calls `pre` -/
theorem run_from (k : α → κ) (f : α → β) (m : KMemo κ β) (pre xs : List α) (h : Repr' k f m pre) :
    run k f m xs = xs.map (fun x => f (firstWith k (pre ++ xs) x)) := by
  induction xs generalizing m pre with
  | nil => rfl
  | cons x xs ih =>
    obtain ⟨h1, h2⟩ := repr_call k f m pre h x
    unfold run
    simp only [List.map_cons]
    have e : pre ++ x :: xs = (pre ++ [x]) ++ xs := by simp
    rw [ih _ _ h1, h2, e]
    congr 1
    -- the first element with the key of x inside pre ++ [x] is also the first inside pre ++ [x] ++ xs
    unfold firstWith
    rw [List.find?_append (xs := pre ++ [x])]
    cases hp : (pre ++ [x]).find? (fun z => k z = k x) with
    | some z => simp
    | none =>
      exfalso
      have := List.find?_eq_none.mp hp x (by simp)
      simp at this

/-- **every call returns `f` of the first argument of the history that shares its key** -/
theorem kmemo_run (k : α → κ) (f : α → β) (xs : List α) :
    run k f ⟨[]⟩ xs = xs.map (fun x => f (firstWith k xs x)) := by
  simpa using run_from k f ⟨[]⟩ [] xs (repr_empty k f)

/-- **transparency ⇔ key adequacy** -/
theorem kmemo_transparent_iff (k : α → κ) (f : α → β) :
    (∀ xs : List α, run k f ⟨[]⟩ xs = xs.map f) ↔ (∀ x y, k x = k y → f x = f y) := by
  constructor
  · intro h x y hk
    have := h [x, y]
    rw [kmemo_run] at this
    simp only [List.map_cons, List.map_nil, firstWith, List.find?_cons, List.cons.injEq, and_true] at this
    have h2 := this.2
    simp only [hk, decide_true, ↓reduceIte, Option.getD_some] at h2
    exact h2
  · intro had xs
    rw [kmemo_run]
    apply List.map_congr_left
    intro x hx
    unfold firstWith
    cases hf : xs.find? (fun z => k z = k x) with
    | none => rfl
    | some z =>
      have := List.find?_some hf
      simp only [decide_eq_true_eq] at this
      exact had z x this

/-- two arguments with one key and different values: the second call of `[x, y]` receives the value cached for `x` -/
theorem kmemo_foreign_value (k : α → κ) (f : α → β) (x y : α) (hk : k x = k y) :
    run k f ⟨[]⟩ [x, y] = [f x, f x] := by
  rw [kmemo_run]
  simp [firstWith, hk]

/-- … and the two orders give `y` different values (`f x` after `x`, `f y` when it comes first) -/
theorem kmemo_order_detects (k : α → κ) (f : α → β) (x y : α) (hk : k x = k y) (hne : f x ≠ f y) :
    (run k f ⟨[]⟩ [x, y])[1]? ≠ (run k f ⟨[]⟩ [y, x])[0]? := by
  rw [kmemo_foreign_value k f x y hk, kmemo_foreign_value k f y x hk.symm]
  simpa using hne

/-! ### non-vacuity -/
/-- keying a function of (group, charge) by the charge alone: the Z3 call receives the U1 answer -/
example : run (fun p : Nat × Nat => p.2) (fun p => p.1 + p.2) ⟨[]⟩ [(1, 3), (3, 3), (1, 3)] = [4, 4, 4] := by decide
example : run (fun p : Nat × Nat => p) (fun p => p.1 + p.2) ⟨[]⟩ [(1, 3), (3, 3), (1, 3)] = [4, 6, 4] := by decide

end KMemo
end YModel
