import YProofs.Props.C02Legs
import YProofs.Props.C01Diag
import YProofs.Props.C02Fuse
/-!
# C02 — every finite program

`eval_wf`: starting from well-formed tensors, every value any finite straight-line program over the modelled
operations (element-wise, conj/flip_signature, add/sub, transpose, tensordot, trace, add_leg, remove_leg, broadcast, apply_mask, diag, hard fusion of legs)
ever produces is well-formed.
-/
namespace YModel
variable {R : Type} {ms : List Nat}

/-! ### every finite program -/

theorem getVal_mem {vals : List (Tensor R)} {i : Nat} {t : Tensor R} (h : getVal vals i = .ok t) : t ∈ vals := by
  unfold getVal at h
  split at h
  · rename_i t' ht
    cases h
    exact List.mem_of_getElem? ht
  · cases h

/-- all values of a program state are well-formed tensors of one symmetry in canonical shape -/
def GoodState (d : SymDef) (ms : List Nat) (vals : List (Tensor R)) : Prop :=
  ∀ t ∈ vals, WF ms t ∧ t.sym = d

theorem step_wf [Zero R] [Add R] [Mul R] [Neg R] [Conj R] [DecidableEq R] {d : SymDef} (hd : WSym d ms)
    {vals : List (Tensor R)} (hv : GoodState d ms vals) (st : Step R) {t : Tensor R}
    (h : st.run vals = .ok t) : WF ms t ∧ t.sym = d := by
  cases st with
  | add i j =>
    simp only [Step.run, bind, Except.bind] at h
    split at h; · cases h
    rename_i a ha
    split at h; · cases h
    rename_i b hb
    obtain ⟨wa, sa⟩ := hv a (getVal_mem ha)
    obtain ⟨wb, _⟩ := hv b (getVal_mem hb)
    exact ⟨wf_add wa wb h, by rw [(charge_add h).2.2.2, sa]⟩
  | sub i j =>
    simp only [Step.run, bind, Except.bind] at h
    split at h; · cases h
    rename_i a ha
    split at h; · cases h
    rename_i b hb
    obtain ⟨wa, sa⟩ := hv a (getVal_mem ha)
    obtain ⟨wb, _⟩ := hv b (getVal_mem hb)
    unfold sub at h
    exact ⟨wf_add wa (wf_neg wb) h, by rw [(charge_add h).2.2.2, sa]⟩
  | smul c i =>
    simp only [Step.run, bind, Except.bind, pure, Except.pure] at h
    split at h; · cases h
    rename_i a ha
    cases h
    obtain ⟨wa, sa⟩ := hv a (getVal_mem ha)
    exact ⟨wf_smul c wa, sa⟩
  | neg i =>
    simp only [Step.run, bind, Except.bind, pure, Except.pure] at h
    split at h; · cases h
    rename_i a ha
    cases h
    obtain ⟨wa, sa⟩ := hv a (getVal_mem ha)
    exact ⟨wf_neg wa, sa⟩
  | conj i =>
    simp only [Step.run, bind, Except.bind, pure, Except.pure] at h
    split at h; · cases h
    rename_i a ha
    cases h
    obtain ⟨wa, sa⟩ := hv a (getVal_mem ha)
    exact ⟨wf_conj (by rw [sa]; exact hd) wa, sa⟩
  | conjBlocks i =>
    simp only [Step.run, bind, Except.bind, pure, Except.pure] at h
    split at h; · cases h
    rename_i a ha
    cases h
    obtain ⟨wa, sa⟩ := hv a (getVal_mem ha)
    exact ⟨wf_conjBlocks wa, sa⟩
  | flipSignature i =>
    simp only [Step.run, bind, Except.bind, pure, Except.pure] at h
    split at h; · cases h
    rename_i a ha
    cases h
    obtain ⟨wa, sa⟩ := hv a (getVal_mem ha)
    exact ⟨wf_flipSignature (by rw [sa]; exact hd) wa, sa⟩
  | transpose σ i =>
    simp only [Step.run, bind, Except.bind] at h
    split at h; · cases h
    rename_i a ha
    obtain ⟨wa, sa⟩ := hv a (getVal_mem ha)
    exact ⟨wf_transpose wa h, by rw [(charge_transpose h).2.2, sa]⟩
  | tensordot i j inA inB =>
    simp only [Step.run, bind, Except.bind] at h
    split at h; · cases h
    rename_i a ha
    split at h; · cases h
    rename_i b hb
    obtain ⟨wa, sa⟩ := hv a (getVal_mem ha)
    obtain ⟨wb, _⟩ := hv b (getVal_mem hb)
    refine ⟨wf_tensordot (by rw [sa]; exact hd) wa wb h, ?_⟩
    obtain ⟨_, _, _, _, _, _, _, hc, _⟩ := tensordot_ok_iff h
    rw [hc]; exact sa
  | trace i in0 in1 =>
    simp only [Step.run, bind, Except.bind] at h
    split at h; · cases h
    rename_i a ha
    obtain ⟨wa, sa⟩ := hv a (getVal_mem ha)
    exact ⟨wf_trace (by rw [sa]; exact hd) wa h, by rw [(charge_trace h).2.1, sa]⟩
  | addLeg i axis sl t =>
    simp only [Step.run, bind, Except.bind] at h
    split at h; · cases h
    rename_i a ha
    obtain ⟨wa, sa⟩ := hv a (getVal_mem ha)
    exact ⟨wf_addLeg (by rw [sa]; exact hd) wa h, by rw [(charge_addLeg h).2.2, sa]⟩
  | removeLeg i axis =>
    simp only [Step.run, bind, Except.bind] at h
    split at h; · cases h
    rename_i a ha
    obtain ⟨wa, sa⟩ := hv a (getVal_mem ha)
    exact ⟨wf_removeLeg (by rw [sa]; exact hd) wa h, by rw [(charge_removeLeg h).2.1, sa]⟩

  | broadcast dd i axis =>
    simp only [Step.run, bind, Except.bind] at h
    split at h; · cases h
    split at h; · cases h
    rename_i _ _ a ha
    obtain ⟨wa, sa⟩ := hv a (getVal_mem ha)
    obtain ⟨w, _, _, hs⟩ := wf_broadcast wa h
    exact ⟨w, by rw [hs, sa]⟩
  | applyMask m i axis =>
    simp only [Step.run, bind, Except.bind] at h
    split at h; · cases h
    split at h; · cases h
    rename_i _ _ a ha
    obtain ⟨wa, sa⟩ := hv a (getVal_mem ha)
    obtain ⟨w, _, _, hs⟩ := wf_applyMask wa h
    exact ⟨w, by rw [hs, sa]⟩
  | diag i =>
    simp only [Step.run, bind, Except.bind] at h
    split at h; · cases h
    rename_i a ha
    obtain ⟨wa, sa⟩ := hv a (getVal_mem ha)
    obtain ⟨w, _, _, hs, _⟩ := wf_diag wa h
    exact ⟨w, by rw [hs, sa]⟩
  | fuse i groups =>
    simp only [Step.run, bind, Except.bind] at h
    split at h; · cases h
    rename_i a ha
    obtain ⟨wa, sa⟩ := hv a (getVal_mem ha)
    exact ⟨wf_fuseHard (by rw [sa]; exact hd) wa groups h, by rw [(charge_fuseHard h).2.2, sa]⟩

/-- **every finite sequence of operations**: starting from well-formed tensors, every value a program
ever produces is well-formed (induction over the program) -/
theorem eval_wf [Zero R] [Add R] [Mul R] [Neg R] [Conj R] [DecidableEq R] {d : SymDef} (hd : WSym d ms)
    (steps : List (Step R)) {vals out : List (Tensor R)} (hv : GoodState d ms vals)
    (h : runProg vals steps = .ok out) : GoodState d ms out := by
  induction steps generalizing vals with
  | nil => simp only [runProg] at h; cases h; exact hv
  | cons st rest ih =>
    simp only [runProg] at h
    split at h
    · rename_i t ht
      apply ih _ h
      intro x hx
      rcases List.mem_append.mp hx with h' | h'
      · exact hv x h'
      · simp only [List.mem_singleton] at h'; subst h'
        exact step_wf hd hv st ht
    · cases h

end YModel

namespace YModel
section examples
open SymGen
/-- non-vacuity: a concrete good state and a program through all new steps that is accepted -/
example : GoodState sym_U1 [0] [exA, exB] := by
  intro t ht
  simp only [List.mem_cons, List.not_mem_nil, or_false] at ht
  rcases ht with rfl | rfl
  · exact ⟨wfCheck_sound (by decide), rfl⟩
  · exact ⟨wfCheck_sound (by decide), rfl⟩
example : ((runProg [exA, exB] [.conj 0, .tensordot 0 2 [1] [1], .trace 3 [0] [1], .addLeg 3 1 (-1) [3],
    .removeLeg 5 1]).toOption.map (fun v => v.map (fun t => (t.s, t.n, t.keys)))) =
    some [([1, -1], [0], [[[0], [0]], [[1], [1]]]), ([1, 1], [1], [[[0], [1]], [[1], [0]]]),
          ([-1, 1], [0], [[[0], [0]], [[1], [1]]]), ([1, -1], [0], [[[0], [0]], [[1], [1]]]),
          ([], [0], [[]]), ([1, -1, -1], [-3], [[[0], [3], [0]], [[1], [3], [1]]]),
          ([1, -1], [0], [[[0], [0]], [[1], [1]]])] := by decide
end examples
end YModel
