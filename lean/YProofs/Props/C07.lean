import YModel.JW
import YModel.OpTables
import YProofs.Lemmas.JWBonds
import YProofs.Lemmas.JWReorder
import YProofs.Lemmas.JWKronInstance
/-!
# C07 — MPO construction and measurements realise Jordan–Wigner operators

Model: `YModel/JW.lean` (M11) + `YModel/Swap.lean` (M8, shared with C05) + the operator tables
`YModel/OpTables.lean`, which `gen/gen_optables.py` REGENERATES from `yastn/operators/*.py` on every run.

1. on-site algebra of every predefined family and symmetry, about the regenerated tables (kernel evaluation);
2. `parse_bonds_spec`: `_parse_2site_bonds` for ALL `N`;
3. the sign algebra of the Jordan–Wigner embedding: `graded_commute`, `measure2_reversed_sign`,
   `term_eq_ordered_product_partial`, `strings_absent_bosonic`.
-/
namespace YModel.JW
open OpTables

/-! ## 1. on-site algebra from the regenerated tables -/

def acomm (A B : SMat) : SMat := A * B + B * A
def comm (A B : SMat) : SMat := A * B - B * A
/-- equality of the represented matrices (both operands present and exact in the table) -/
notation:50 A " ≃ " B => SMat.eqv A B = true

/-- (tie to source) all 17 (class, symmetry) tables are present -/
theorem tables_complete :
    ∀ p ∈ [("Spin12", "dense"), ("Spin12", "Z2"), ("Spin12", "U1"), ("Spin1", "dense"), ("Spin1", "Z3"), ("Spin1", "U1"),
           ("SpinlessFermions", "Z2"), ("SpinlessFermions", "U1"),
           ("SpinfulFermions", "Z2"), ("SpinfulFermions", "U1"), ("SpinfulFermions", "U1xU1"), ("SpinfulFermions", "U1xU1xZ2"),
           ("SpinfulFermions_tJ", "Z2"), ("SpinfulFermions_tJ", "U1"), ("SpinfulFermions_tJ", "U1xU1"),
           ("SpinfulFermions_tJ", "U1xU1xZ2"), ("Qdit", "dense")],
      ∃ F ∈ OpTables.all, F.cls = p.1 ∧ F.sym = p.2 := by decide

/-- every dumped operator is exactly representable, `d × d`, with a charge of `NSYM` components -/
theorem tables_exact : OpTables.all.all Family.wellFormed = true := by decide

/-- **every predefined operator is parity-definite**: a non-zero entry `A[r][c]` connects basis states whose
fermionic parities differ by the parity of the declared charge `A.n` (so `Z^{m} A = (−1)^{⟨A.n, m⟩} A Z^{m}`) -/
theorem tables_parity_definite : OpTables.all.all (fun F => F.ops.all F.parityDefinite) = true := by decide

/-- fermionic flags: spin and qdit families are bosonic; fermionic families are fermionic in every component,
except `U1xU1xZ2` where only the `Z2` (parity) component counts -/
theorem tables_fermionic_flags :
    ∀ F ∈ OpTables.all,
      F.ferm = (if F.cls = "Spin12" ∨ F.cls = "Spin1" ∨ F.cls = "Qdit" then Fermionic.none
                else if F.sym = "U1xU1xZ2" then Fermionic.mask [false, false, true] else Fermionic.all) := by decide

/-- the identity of every family is the identity matrix with zero charge -/
theorem tables_identity : ∀ F ∈ OpTables.all, (F.op "I" ≃ SMat.identOf F.d) ∧ F.charge "I" = List.replicate F.nsym 0 := by decide

/-- spinless fermions: `{c, c†} = 1`, `c² = c†² = 0`, `n = c†c`, `c† = cᵀ` -/
def SpinlessCAR (F : Family) : Prop :=
  let c := F.op "c"; let cp := F.op "cp"; let n := F.op "n"; let I := F.op "I"
  (acomm c cp ≃ I) ∧ (c * c ≃ SMat.zeroOf F.d) ∧ (cp * cp ≃ SMat.zeroOf F.d) ∧ (n ≃ cp * c) ∧ (cp ≃ c.transposeS)
instance (F : Family) : Decidable (SpinlessCAR F) := by unfold SpinlessCAR; infer_instance

theorem SpinlessFermions_Z2_car : SpinlessCAR SpinlessFermions_Z2 := by decide
theorem SpinlessFermions_U1_car : SpinlessCAR SpinlessFermions_U1 := by decide

/-- relations shared by all spinful variants: `{c_σ, c†_σ} = 1`, `c_σ² = 0`, `n_σ = c†_σ c_σ`, `c†_σ = c_σᵀ`,
`Sᶻ = (n_u − n_d)/2`, `S⁺ = c†_u c_d`, `S⁻ = c†_d c_u`, `[S⁺, S⁻] = 2Sᶻ`, `[Sᶻ, S^±] = ±S^±` -/
def SpinfulCommon (F : Family) : Prop :=
  let cu := F.op "c:u"; let cd := F.op "c:d"; let cpu := F.op "cp:u"; let cpd := F.op "cp:d"
  let nu := F.op "n:u"; let nd := F.op "n:d"; let I := F.op "I"
  let Sz := F.op "Sz"; let Sp := F.op "Sp"; let Sm := F.op "Sm"
  (acomm cu cpu ≃ I) ∧ (acomm cd cpd ≃ I) ∧ (cu * cu ≃ SMat.zeroOf F.d) ∧ (cd * cd ≃ SMat.zeroOf F.d) ∧
  (nu ≃ cpu * cu) ∧ (nd ≃ cpd * cd) ∧ (cpu ≃ cu.transposeS) ∧ (cpd ≃ cd.transposeS) ∧
  (Sz ≃ (nu - nd).divNat 2) ∧ (Sp ≃ cpu * cd) ∧ (Sm ≃ cpd * cu) ∧
  (comm Sp Sm ≃ SMat.smulInt 2 Sz) ∧ (comm Sz Sp ≃ Sp) ∧ (comm Sz Sm ≃ -Sm)
instance (F : Family) : Decidable (SpinfulCommon F) := by unfold SpinfulCommon; infer_instance

/-- indistinguishable species (`Z2`, `U1`, `U1xU1xZ2`): the on-site matrices carry the internal up/down string, so
different species ANTIcommute: `{c_u, c†_d} = {c_d, c†_u} = {c_u, c_d} = {c†_u, c†_d} = 0` -/
def SpinfulAnticommuting (F : Family) : Prop :=
  let cu := F.op "c:u"; let cd := F.op "c:d"; let cpu := F.op "cp:u"; let cpd := F.op "cp:d"
  let Z := SMat.zeroOf F.d
  (acomm cu cpd ≃ Z) ∧ (acomm cd cpu ≃ Z) ∧ (acomm cu cd ≃ Z) ∧ (acomm cpu cpd ≃ Z)
instance (F : Family) : Decidable (SpinfulAnticommuting F) := by unfold SpinfulAnticommuting; infer_instance

/-- distinguishable species (`U1xU1`, fermionic in both components): no internal string, different species COMMUTE
on a site: `[c_u, c†_d] = [c_d, c†_u] = [c_u, c_d] = [c†_u, c†_d] = 0` (their charges are orthogonal, `⟨n_u, n_d⟩ = 0`) -/
def SpinfulCommuting (F : Family) : Prop :=
  let cu := F.op "c:u"; let cd := F.op "c:d"; let cpu := F.op "cp:u"; let cpd := F.op "cp:d"
  let Z := SMat.zeroOf F.d
  (comm cu cpd ≃ Z) ∧ (comm cd cpu ≃ Z) ∧ (comm cu cd ≃ Z) ∧ (comm cpu cpd ≃ Z) ∧
  fdot F.fss (F.charge "c:u") (F.charge "c:d") = 0 ∧ fdot F.fss (F.charge "c:u") (F.charge "cp:d") = 0
instance (F : Family) : Decidable (SpinfulCommuting F) := by unfold SpinfulCommuting; infer_instance

/-- for the anticommuting variants the charges of different species have ODD pairing (they anticommute between sites too) -/
def SpinfulOddPairing (F : Family) : Prop :=
  sgn (F.ferm.weight (F.charge "c:u") (F.charge "c:d")) = -1 ∧ sgn (F.ferm.weight (F.charge "c:u") (F.charge "cp:d")) = -1 ∧
  sgn (F.ferm.weight (F.charge "c:u") (F.charge "cp:u")) = -1 ∧ sgn (F.ferm.weight (F.charge "c:d") (F.charge "cp:d")) = -1
instance (F : Family) : Decidable (SpinfulOddPairing F) := by unfold SpinfulOddPairing; infer_instance

theorem SpinfulFermions_Z2_car : SpinfulCommon SpinfulFermions_Z2 ∧ SpinfulAnticommuting SpinfulFermions_Z2 ∧ SpinfulOddPairing SpinfulFermions_Z2 := by decide
theorem SpinfulFermions_U1_car : SpinfulCommon SpinfulFermions_U1 ∧ SpinfulAnticommuting SpinfulFermions_U1 ∧ SpinfulOddPairing SpinfulFermions_U1 := by decide
theorem SpinfulFermions_U1xU1xZ2_car :
    SpinfulCommon SpinfulFermions_U1xU1xZ2 ∧ SpinfulAnticommuting SpinfulFermions_U1xU1xZ2 ∧ SpinfulOddPairing SpinfulFermions_U1xU1xZ2 := by decide
theorem SpinfulFermions_U1xU1_car : SpinfulCommon SpinfulFermions_U1xU1 ∧ SpinfulCommuting SpinfulFermions_U1xU1 := by decide

/-- t-J (no double occupancy; `h` = hole projector): `c_σ c†_σ' = δ_σσ' h`, `c†_σ c†_σ' = c_σ c_σ' = 0`,
`n_σ = c†_σ c_σ`, `n_u + n_d + h = 1`, `n_u n_d = 0`, `{c_σ, c†_σ} = 1 − n_σ̄`, `c†_σ = c_σᵀ`,
`Sᶻ = (n_u − n_d)/2`, `S⁺ = c†_u c_d`, `S⁻ = c†_d c_u`, `[S⁺,S⁻] = 2Sᶻ`, `[Sᶻ,S^±] = ±S^±` -/
def TJRelations (F : Family) : Prop :=
  let cu := F.op "c:u"; let cd := F.op "c:d"; let cpu := F.op "cp:u"; let cpd := F.op "cp:d"
  let nu := F.op "n:u"; let nd := F.op "n:d"; let I := F.op "I"; let h := F.op "h"
  let Sz := F.op "Sz"; let Sp := F.op "Sp"; let Sm := F.op "Sm"; let Z := SMat.zeroOf F.d
  (cu * cpu ≃ h) ∧ (cd * cpd ≃ h) ∧ (cu * cpd ≃ Z) ∧ (cd * cpu ≃ Z) ∧
  (cpu * cpu ≃ Z) ∧ (cpu * cpd ≃ Z) ∧ (cpd * cpu ≃ Z) ∧ (cpd * cpd ≃ Z) ∧
  (cu * cu ≃ Z) ∧ (cu * cd ≃ Z) ∧ (cd * cu ≃ Z) ∧ (cd * cd ≃ Z) ∧
  (nu ≃ cpu * cu) ∧ (nd ≃ cpd * cd) ∧ (nu + nd + h ≃ I) ∧ (nu * nd ≃ Z) ∧
  (acomm cu cpu ≃ I - nd) ∧ (acomm cd cpd ≃ I - nu) ∧ (cpu ≃ cu.transposeS) ∧ (cpd ≃ cd.transposeS) ∧
  (Sz ≃ (nu - nd).divNat 2) ∧ (Sp ≃ cpu * cd) ∧ (Sm ≃ cpd * cu) ∧
  (comm Sp Sm ≃ SMat.smulInt 2 Sz) ∧ (comm Sz Sp ≃ Sp) ∧ (comm Sz Sm ≃ -Sm)
instance (F : Family) : Decidable (TJRelations F) := by unfold TJRelations; infer_instance

theorem SpinfulFermions_tJ_Z2_relations : TJRelations SpinfulFermions_tJ_Z2 := by decide
theorem SpinfulFermions_tJ_U1_relations : TJRelations SpinfulFermions_tJ_U1 := by decide
theorem SpinfulFermions_tJ_U1xU1_relations : TJRelations SpinfulFermions_tJ_U1xU1 := by decide
theorem SpinfulFermions_tJ_U1xU1xZ2_relations : TJRelations SpinfulFermions_tJ_U1xU1xZ2 := by decide

/-- su(2) in the ladder basis (every spin table): `[S⁺,S⁻] = 2Sᶻ`, `[Sᶻ,S⁺] = S⁺`, `[Sᶻ,S⁻] = −S⁻`, `S⁻ = (S⁺)ᵀ` -/
def SU2Ladder (F : Family) : Prop :=
  let sp := F.op "sp"; let sm := F.op "sm"; let sz := F.op "sz"
  (comm sp sm ≃ SMat.smulInt 2 sz) ∧ (comm sz sp ≃ sp) ∧ (comm sz sm ≃ -sm) ∧ (sm ≃ sp.transposeS)
instance (F : Family) : Decidable (SU2Ladder F) := by unfold SU2Ladder; infer_instance

/-- su(2) in the Cartesian basis (tables that define `sx`, `sy`): `[Sˣ,Sʸ] = iSᶻ` (cyclic), `S^± = Sˣ ± iSʸ`,
`isy = i·Sʸ`, Casimir `Sˣ² + Sʸ² + Sᶻ² = s(s+1)·1` given as `cas4/4` -/
def SU2Cartesian (F : Family) (cas4 : Int) : Prop :=
  let sx := F.op "sx"; let sy := F.op "sy"; let sz := F.op "sz"; let sp := F.op "sp"; let sm := F.op "sm"
  let isy := F.op "isy"; let I := F.op "I"
  (comm sx sy ≃ SMat.smulK K.I sz) ∧ (comm sy sz ≃ SMat.smulK K.I sx) ∧ (comm sz sx ≃ SMat.smulK K.I sy) ∧
  (sp ≃ sx + SMat.smulK K.I sy) ∧ (sm ≃ sx - SMat.smulK K.I sy) ∧ (isy ≃ SMat.smulK K.I sy) ∧
  (sx * sx + sy * sy + sz * sz ≃ (SMat.smulInt cas4 I).divNat 4)
instance (F : Family) (c : Int) : Decidable (SU2Cartesian F c) := by unfold SU2Cartesian; infer_instance

/-- Pauli matrices: `x² = y² = z² = 1`, `xy = iz` (cyclic), `iy = i·y`, `sα = α/2` -/
def Pauli (F : Family) : Prop :=
  let x := F.op "x"; let y := F.op "y"; let z := F.op "z"; let iy := F.op "iy"; let I := F.op "I"
  (x * x ≃ I) ∧ (y * y ≃ I) ∧ (z * z ≃ I) ∧ (x * y ≃ SMat.smulK K.I z) ∧ (y * z ≃ SMat.smulK K.I x) ∧
  (z * x ≃ SMat.smulK K.I y) ∧ (iy ≃ SMat.smulK K.I y) ∧
  (F.op "sx" ≃ x.divNat 2) ∧ (F.op "sy" ≃ y.divNat 2) ∧ (F.op "sz" ≃ z.divNat 2) ∧ (F.op "isy" ≃ iy.divNat 2)
instance (F : Family) : Decidable (Pauli F) := by unfold Pauli; infer_instance

theorem Spin12_dense_algebra : SU2Ladder Spin12_dense ∧ SU2Cartesian Spin12_dense 3 ∧ Pauli Spin12_dense := by decide
theorem Spin12_Z2_algebra : SU2Ladder Spin12_Z2 ∧ SU2Cartesian Spin12_Z2 3 ∧ Pauli Spin12_Z2 := by decide
/-- `U1` defines only `z`, `sz`, `sp`, `sm` -/
theorem Spin12_U1_algebra :
    SU2Ladder Spin12_U1 ∧ (Spin12_U1.op "z" * Spin12_U1.op "z" ≃ Spin12_U1.op "I") ∧
      (Spin12_U1.op "sz" ≃ (Spin12_U1.op "z").divNat 2) := by decide
/-- spin 1 (entries `√2` exact in ℤ[√2]): Casimir `s(s+1) = 2 = 8/4` -/
theorem Spin1_dense_algebra : SU2Ladder Spin1_dense ∧ SU2Cartesian Spin1_dense 8 := by decide
theorem Spin1_Z3_algebra : SU2Ladder Spin1_Z3 := by decide
theorem Spin1_U1_algebra : SU2Ladder Spin1_U1 := by decide
/-- `Qdit` offers only the identity -/
theorem Qdit_dense_algebra : (Qdit_dense.op "I" ≃ SMat.identOf Qdit_dense.d) ∧ Qdit_dense.ops.length = 1 := by decide

/-- non-vacuity: `≃` is not trivially true — a missing operator is equivalent to nothing, and `c ≄ c†` -/
example : ¬ (Spin12_U1.op "x" ≃ Spin12_U1.op "x") := by decide
example : ¬ (SpinlessFermions_U1.op "c" ≃ SpinlessFermions_U1.op "cp") := by decide
example : ¬ SpinfulAnticommuting SpinfulFermions_U1xU1 := by decide
example : ¬ SpinfulCommuting SpinfulFermions_U1 := by decide

/-! ## 2. `_parse_2site_bonds` -/

/-- **parse_bonds_spec** (all `N`, all flag combinations and offset lists): the result of `_parse_2site_bonds` is
strictly increasing in the lexicographic order (hence sorted and duplicate-free) and contains EXACTLY the pairs the
documentation assigns to the pattern (`inPattern`): `'a'` all `(i,j)`; `'<'`: `i<j`; `'='`: `i=j`; `'>'`: `i>j`;
`'rX'`: `(i, i+X)` inside the chain; with `'p'`: `(i, (i+X) mod N)`. -/
theorem parse_bonds_spec (p : Pattern) (N : Nat) :
    (∀ x, x ∈ bondsOf p N ↔ inPattern p N x) ∧ (bondsOf p N).Pairwise lexLt := by
  unfold bondsOf
  obtain ⟨h1, h2⟩ := sortedSet_spec (rawPairs p N)
  exact ⟨fun x => (h1 x).trans (mem_rawPairs p N x), h2⟩

/-- the string-level function is the scanner followed by `bondsOf`; `none` ⇔ `int(r)` raises -/
theorem parse2siteBonds_eq (s : String) (N : Nat) : parse2siteBonds s N = (parsePattern s).map (fun p => bondsOf p N) := rfl

/-- the scanner on the documented pattern strings -/
theorem parsePattern_documented :
    parsePattern "<" = some ⟨false, true, false, false, false, []⟩ ∧
    parsePattern "=" = some ⟨false, false, true, false, false, []⟩ ∧
    parsePattern ">" = some ⟨false, false, false, true, false, []⟩ ∧
    parsePattern "a" = some ⟨true, false, false, false, false, []⟩ ∧
    parsePattern "<=>" = some ⟨false, true, true, true, false, []⟩ ∧
    parsePattern "r1" = some ⟨false, false, false, false, false, [1]⟩ ∧
    parsePattern "r-2" = some ⟨false, false, false, false, false, [-2]⟩ ∧
    parsePattern "r1p" = some ⟨false, false, false, false, true, [1]⟩ ∧
    parsePattern "pr1r-3" = some ⟨false, false, false, false, true, [1, -3]⟩ ∧
    parsePattern "<r-1" = some ⟨false, true, false, false, false, [-1]⟩ ∧
    parsePattern "r" = none ∧ parsePattern "r1.5" = none := by decide

/-- `'a'` is equivalent to `"<=>"` (documentation) -/
theorem pattern_a_eq_all (N : Nat) (x : Int × Int) :
    x ∈ bondsOf ⟨true, false, false, false, false, []⟩ N ↔ x ∈ bondsOf ⟨false, true, true, true, false, []⟩ N := by
  rw [(parse_bonds_spec _ N).1, (parse_bonds_spec _ N).1]
  unfold inPattern
  simp only [Bool.false_eq_true, false_and, false_or, true_and, and_true, List.not_mem_nil, exists_false, or_false]
  constructor
  · rintro ⟨h1, h2⟩; exact ⟨h1, h2, by omega⟩
  · rintro ⟨h1, h2, _⟩; exact ⟨h1, h2⟩

example : bondsOf ⟨false, false, false, false, true, [1]⟩ 4 = [(0, 1), (1, 2), (2, 3), (3, 0)] := by decide
example : bondsOf ⟨false, true, false, false, false, [-1]⟩ 3 = [(0, 1), (0, 2), (1, 0), (1, 2), (2, 1)] := by decide
example : parse2siteBonds "r1r-1" 3 = some [(0, 1), (1, 0), (1, 2), (2, 1)] := by decide

/-! ## 3. sign algebra of the Jordan–Wigner embedding

`L` is the local operator algebra (any ring; the executable model instantiates the same generic `embedAt` with list
matrices), `z m` the string operator `Z^{m}`, `S : KronSem L D k` the Kronecker product of `k` local factors with the
mixed-product property and sign-homogeneity (validated for the executable `kronAll` and NumPy's `kron` by the
correspondence run).  `Graded w z A nA` (parity-definiteness) holds for every table operator by
`tables_parity_definite`. -/
section signs
variable {L D : Type} [Ring L] [Ring D] {k : Nat}

/-- `embed i A` as a dense operator -/
def embedD (S : KronSem L D k) (z : Charge → L) (fpos : Nat → Int) (i : Nat) (A : L) (nA : Charge) : D :=
  S.dense (embedAt 1 z fpos i A nA)

/-- **graded_commute**: parity-definite `A`, `B` on sites at different fermionic positions satisfy
`embed i A · embed j B = (−1)^{⟨|A|,|B|⟩} embed j B · embed i A`. -/
theorem graded_commute (S : KronSem L D k) (f : Fermionic) (z : Charge → L) (fpos : Nat → Int)
    (hzz : ∀ a b, z a * z b = z b * z a) {i j : Nat} (hi : i < k) (hj : j < k) (hne : fpos i ≠ fpos j)
    (A B : L) (nA nB : Charge) (hA : Graded f.weight z A nA) (hB : Graded f.weight z B nB) :
    embedD S z fpos i A nA * embedD S z fpos j B nB
      = ((sgn (f.weight nA nB) : Int) : D) * (embedD S z fpos j B nB * embedD S z fpos i A nA) := by
  have hij : i ≠ j := fun h => hne (by rw [h])
  unfold embedD
  rcases Int.lt_or_gt_of_ne hne with h | h
  · have := embed_graded_commute_lt S f.weight z fpos hzz hi h hij A B nA nB hA
    rw [this, ← mul_assoc, cast_sgn_mul_self, one_mul]
  · have := embed_graded_commute_lt S f.weight z fpos hzz hj h (Ne.symm hij) B A nB nA hB
    rw [this, weight_comm]

theorem swapSign_single (f : Fermionic) (a b : Charge) : swapSign f [a] [b] = sgn (f.weight a b) := by
  rw [swap_sign_formula]
  by_cases ht : f.truthy = true
  · simp [ht, sprod]
  · have ht' : f.truthy = false := by simpa using ht
    simp [ht', weight_falsy f ht', sgn_zero]

/-- **measure2_reversed_sign**: for `i > j` (linear fermionic order of an MPS) `measure_2site` evaluates `⟨P_j O_i⟩`
and multiplies by `swap_charges([O.n],[P.n])` (`_measure.py:233`): `O_i P_j = swapSign(O.n, P.n) · P_j O_i`, hence
`ev(O_i P_j) = swapSign · ev(P_j O_i)` for every sign-homogeneous evaluation `ev` (e.g. `⟨bra| · |ket⟩`). -/
theorem measure2_reversed_sign (S : KronSem L D k) (f : Fermionic) (z : Charge → L)
    (hzz : ∀ a b, z a * z b = z b * z a) {i j : Nat} (hi : i < k) (hji : j < i)
    (O P : L) (nO nP : Charge) (hO : Graded f.weight z O nO) (hP : Graded f.weight z P nP)
    {R : Type} [Ring R] (ev : D → R) (hev : ∀ (s : Int) (X : D), ev ((s : D) * X) = (s : R) * ev X) :
    let fpos : Nat → Int := fun s => (s : Int)
    embedD S z fpos i O nO * embedD S z fpos j P nP
        = ((swapSign f [nO] [nP] : Int) : D) * (embedD S z fpos j P nP * embedD S z fpos i O nO) ∧
      ev (embedD S z fpos i O nO * embedD S z fpos j P nP)
        = ((swapSign f [nO] [nP] : Int) : R) * ev (embedD S z fpos j P nP * embedD S z fpos i O nO) := by
  intro fpos
  have hj : j < k := by omega
  have hne : fpos i ≠ fpos j := by simp only [fpos]; omega
  have h := graded_commute S f z fpos hzz (i := i) (j := j) hi hj hne O P nO nP hO hP
  rw [swapSign_single]
  exact ⟨h, by rw [h, hev]⟩

/-- one operator of an `Hterm`: site, local operator, charge -/
structure TermOp (L : Type) where
  site : Nat
  A : L
  n : Charge

def TermOp.toE (S : KronSem L D k) (z : Charge → L) (fpos : Nat → Int) (o : TermOp L) : EOp Int D :=
  ⟨fpos o.site, o.n, embedD S z fpos o.site o.A o.n⟩

/- FULL statement (not proved as a whole):
   theorem term_eq_ordered_product : for every operator tuple, positions (with repetitions, any order) and injective f_map,
     userProduct L fpos k ops = mpoRule L f nsym fpos k ops
   i.e. `∏_user embed(site_m, A_m) = signCanonicalOrder(f-positions, charges) · ⨂_n (onsiteProduct_n · Z^{fCharge n})`.
   Proved below: ALL the sign content — the user-order product equals `signCanonicalOrder` times the product of the SAME
   embedded operators in canonical order (stable sort by fermionic position: same-site operators keep the given order).
   Not proved in Lean (sign-free Kronecker bookkeeping, covered by the exact model-vs-NumPy-vs-real-code correspondence
   of `mpoRule`): that the canonically ordered product merges into `⨂_n (onsiteProduct_n · Z^{Σ later charges})`. -/
/-- **term_eq_ordered_product (sign part)**: `generate_mpo`'s sign `sign_canonical_order(f-mapped positions)` is exactly
the sign that brings the user's product into canonical order — for any number of operators, repeated sites, any
order, any fermionic map that is injective on the sites used. -/
theorem term_eq_ordered_product_partial (S : KronSem L D k) (f : Fermionic) (z : Charge → L) (fpos : Nat → Int)
    (hzz : ∀ a b, z a * z b = z b * z a) (ops : List (TermOp L))
    (hsite : ∀ o ∈ ops, o.site < k)
    (hgraded : ∀ o ∈ ops, Graded f.weight z o.A o.n) :
    prodE (ops.map (TermOp.toE S z fpos))
      = ((signCanonicalOrder f (fun (a b : Int) => decide (a ≤ b)) (ops.map (fun o => (fpos o.site, o.n))) : Int) : D)
          * prodE (isort (leE (fun (a b : Int) => decide (a ≤ b))) (ops.map (TermOp.toE S z fpos))) := by
  rw [signCanonicalOrder_eq_inversions f int_le_totalPreorder]
  have hkey : (ops.map (TermOp.toE S z fpos)).map EOp.key = ops.map (fun o => (fpos o.site, o.n)) := by
    rw [List.map_map]; rfl
  rw [← hkey]
  apply prodE_reorder f int_le_totalPreorder
  intro a ha b hb hab
  obtain ⟨oa, hoa, rfl⟩ := List.mem_map.mp ha
  obtain ⟨ob, hob, rfl⟩ := List.mem_map.mp hb
  have hab' : ¬ (fpos oa.site ≤ fpos ob.site) := by
    intro hle
    have hd : decide (fpos oa.site ≤ fpos ob.site) = true := decide_eq_true hle
    have hab2 : decide (fpos oa.site ≤ fpos ob.site) = false := hab
    rw [hd] at hab2
    exact absurd hab2 (by decide)
  have hne : fpos oa.site ≠ fpos ob.site := by omega
  simp only [TermOp.toE]
  exact graded_commute S f z fpos hzz (hsite oa hoa) (hsite ob hob) hne oa.A ob.A oa.n ob.n
    (hgraded oa hoa) (hgraded ob hob)

end signs

/-! ### bosonic configurations -/

theorem zmat_bosonic (fss : List Bool) (hf : ∀ x ∈ fss, x = false) (basis : List Charge) (n : Charge) :
    zmat fss basis n = ident basis.length := by
  unfold zmat diagMat ident zdiag
  simp only [List.length_map]
  apply List.map_congr_left
  intro i hi
  apply List.map_congr_left
  intro j _
  by_cases hij : i = j
  · simp only [hij, if_true]
    have hj : j < basis.length := by rw [← hij]; exact List.mem_range.mp hi
    simp [List.getD, hj, fdot_allFalse fss _ _ hf, sgn_zero]
    rfl
  · simp only [hij, if_false]

/-- **strings_absent_bosonic**: with a falsy `config.fermionic` (`False` or an empty tuple) `generate_mpo`'s sign is `+1`
for every term, and whenever no charge component is fermionic (`False`, empty or all-`False` mask) every string
`Z^{n}` is the identity, so each embedding is the plain Kronecker product `1 ⊗ … ⊗ A ⊗ … ⊗ 1`. -/
theorem strings_absent_bosonic (F : Local) (f : Fermionic) (fpos : Nat → Int) :
    (f.truthy = false → ∀ ops : List TOp, ruleSign f fpos ops = 1) ∧
    ((∀ x ∈ F.fss, x = false) → ∀ (n : Charge), zmat F.fss F.basis n = ident F.d) ∧
    ((∀ x ∈ F.fss, x = false) → ∀ (k i : Nat) (A : Mat) (nA : Charge),
        embedFactors F fpos k i A nA = (List.range k).map (fun j => if j = i then A else ident F.d)) := by
  refine ⟨?_, ?_, ?_⟩
  · intro hf ops
    unfold ruleSign signCanonicalOrder
    simp [hf]
  · intro hf n
    exact zmat_bosonic F.fss hf F.basis n
  · intro hf k i A nA
    unfold embedFactors
    apply List.map_congr_left
    intro j _
    unfold embedAt
    rw [zmat_bosonic F.fss hf F.basis nA]
    simp only [Local.d, ite_self]

/-- every bosonic table has no fermionic component -/
theorem tables_bosonic_no_strings :
    ∀ F ∈ OpTables.all, F.ferm = Fermionic.none → (∀ x ∈ F.loc.fss, x = false) := by decide

/-! ### non-vacuity -/

/-- the hypotheses of `KronSem` are satisfiable: two sites over a commutative ring, `dense a = a 0 · a 1` -/
def kronInt2 : KronSem Int Int 2 where
  dense a := a 0 * a 1
  dense_congr a b h := by rw [h 0 (by omega), h 1 (by omega)]
  dense_mul a b := by simp only [Int.mul_assoc, Int.mul_left_comm, Int.mul_comm]
  dense_sign a m s hm := by
    have : m = 0 ∨ m = 1 := by omega
    rcases this with rfl | rfl
    · simp [Function.update, Int.mul_assoc]
    · simp [Function.update, Int.mul_left_comm]

/-- … and by the genuine (non-commutative) Kronecker product of Mathlib on two sites of `2 × 2` integer matrices -/
example : KronSem (Matrix (Fin 2) (Fin 2) ℤ) (Matrix (Fin 2 × Fin 2) (Fin 2 × Fin 2) ℤ) 2 := kronMat2

/-- the executable model on a concrete non-trivial instance: spinless fermions (`U1`), two sites:
`c_0 c†_1 = − c†_1 c_0` and generate_mpo's rule reproduces the user-order product for an out-of-order term -/
example :
    let F := SpinlessFermions_U1
    let c : TOp := ⟨0, (F.op "c").m, F.charge "c"⟩
    let cp : TOp := ⟨1, (F.op "cp").m, F.charge "cp"⟩
    userProduct F.loc (fun s => s) 2 [cp, c] = matScale (K.ofInt (-1)) (userProduct F.loc (fun s => s) 2 [c, cp]) ∧
    mpoRule F.loc F.ferm F.nsym (fun s => s) 2 [cp, c] = userProduct F.loc (fun s => s) 2 [cp, c] ∧
    ruleSign F.ferm (fun s => s) [cp, c] = -1 := by decide

end YModel.JW
