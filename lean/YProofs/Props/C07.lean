import YModel.JW
import YModel.OpTables
namespace YModel.JW
theorem tables_wellFormed : OpTables.all.all Family.wellFormed = true := by decide
end YModel.JW
