import YModel.JW
import YModel.OpTables
import YProofs.Lemmas.JWBonds
import YProofs.Lemmas.JWReorder
/-!
# C07 — MPO construction and measurements realise Jordan–Wigner operators

Model: `YModel/JW.lean` (M11) + `YModel/Swap.lean` (M8, shared with C05) + the operator tables
`YModel/OpTables.lean`, which `gen/gen_optables.py` REGENERATES from `yastn/operators/*.py` on every run.

1. on-site algebra of every predefined family and symmetry, about the regenerated tables (kernel evaluation);
2. `parse_bonds_spec`: `_parse_2site_bonds` for ALL `N`;
3. the sign algebra of the Jordan–Wigner embedding: `graded_commute`, `measure2_reversed_sign`,
   `term_eq_ordered_product_partial`, `strings_absent_bosonic`.
-/
namespace YModel.JW
open OpTables

/-! ## 1. on-site algebra from the regenerated tables -/

def acomm (A B : SMat) : SMat := A * B + B * A
def comm (A B : SMat) : SMat := A * B - B * A
/-- equality of the represented matrices (both operands present and exact in the table) -/
notation:50 A " ≃ " B => SMat.eqv A B = true

/-- (tie to source) all 17 (class, symmetry) tables are present -/
theorem tables_complete :
    ∀ p ∈ [("Spin12", "dense"), ("Spin12", "Z2"), ("Spin12", "U1"), ("Spin1", "dense"), ("Spin1", "Z3"), ("Spin1", "U1"),
           ("SpinlessFermions", "Z2"), ("SpinlessFermions", "U1"),
           ("SpinfulFermions", "Z2"), ("SpinfulFermions", "U1"), ("SpinfulFermions", "U1xU1"), ("SpinfulFermions", "U1xU1xZ2"),
           ("SpinfulFermions_tJ", "Z2"), ("SpinfulFermions_tJ", "U1"), ("SpinfulFermions_tJ", "U1xU1"),
           ("SpinfulFermions_tJ", "U1xU1xZ2"), ("Qdit", "dense")],
      ∃ F ∈ OpTables.all, F.cls = p.1 ∧ F.sym = p.2 := by decide

/-- every dumped operator is exactly representable, `d × d`, with a charge of `NSYM` components -/
theorem tables_exact : OpTables.all.all Family.wellFormed = true := by decide

/-- **every predefined operator is parity-definite**: a non-zero entry `A[r][c]` connects basis states whose
fermionic parities differ by the parity of the declared charge `A.n` (so `Z^{m} A = (−1)^{⟨A.n, m⟩} A Z^{m}`) -/
theorem tables_parity_definite : OpTables.all.all (fun F => F.ops.all F.parityDefinite) = true := by decide

/-- fermionic flags: spin and qdit families are bosonic; fermionic families are fermionic in every component,
except `U1xU1xZ2` where only the `Z2` (parity) component counts -/
theorem tables_fermionic_flags :
    ∀ F ∈ OpTables.all,
      F.ferm = (if F.cls = "Spin12" ∨ F.cls = "Spin1" ∨ F.cls = "Qdit" then Fermionic.none
                else if F.sym = "U1xU1xZ2" then Fermionic.mask [false, false, true] else Fermionic.all) := by decide

/-- the identity of every family is the identity matrix with zero charge -/
theorem tables_identity : ∀ F ∈ OpTables.all, (F.op "I" ≃ SMat.identOf F.d) ∧ F.charge "I" = List.replicate F.nsym 0 := by decide

/-- spinless fermions: `{c, c†} = 1`, `c² = c†² = 0`, `n = c†c`, `c† = cᵀ` -/
def SpinlessCAR (F : Family) : Prop :=
  let c := F.op "c"; let cp := F.op "cp"; let n := F.op "n"; let I := F.op "I"
  (acomm c cp ≃ I) ∧ (c * c ≃ SMat.zeroOf F.d) ∧ (cp * cp ≃ SMat.zeroOf F.d) ∧ (n ≃ cp * c) ∧ (cp ≃ c.transposeS)
instance (F : Family) : Decidable (SpinlessCAR F) := by unfold SpinlessCAR; infer_instance

theorem SpinlessFermions_Z2_car : SpinlessCAR SpinlessFermions_Z2 := by decide
theorem SpinlessFermions_U1_car : SpinlessCAR SpinlessFermions_U1 := by decide

/-- relations shared by all spinful variants: `{c_σ, c†_σ} = 1`, `c_σ² = 0`, `n_σ = c†_σ c_σ`, `c†_σ = c_σᵀ`,
`Sᶻ = (n_u − n_d)/2`, `S⁺ = c†_u c_d`, `S⁻ = c†_d c_u`, `[S⁺, S⁻] = 2Sᶻ`, `[Sᶻ, S^±] = ±S^±` -/
def SpinfulCommon (F : Family) : Prop :=
  let cu := F.op "c:u"; let cd := F.op "c:d"; let cpu := F.op "cp:u"; let cpd := F.op "cp:d"
  let nu := F.op "n:u"; let nd := F.op "n:d"; let I := F.op "I"
  let Sz := F.op "Sz"; let Sp := F.op "Sp"; let Sm := F.op "Sm"
  (acomm cu cpu ≃ I) ∧ (acomm cd cpd ≃ I) ∧ (cu * cu ≃ SMat.zeroOf F.d) ∧ (cd * cd ≃ SMat.zeroOf F.d) ∧
  (nu ≃ cpu * cu) ∧ (nd ≃ cpd * cd) ∧ (cpu ≃ cu.transposeS) ∧ (cpd ≃ cd.transposeS) ∧
  (Sz ≃ (nu - nd).divNat 2) ∧ (Sp ≃ cpu * cd) ∧ (Sm ≃ cpd * cu) ∧
  (comm Sp Sm ≃ SMat.smulInt 2 Sz) ∧ (comm Sz Sp ≃ Sp) ∧ (comm Sz Sm ≃ -Sm)
instance (F : Family) : Decidable (SpinfulCommon F) := by unfold SpinfulCommon; infer_instance

/-- indistinguishable species (`Z2`, `U1`, `U1xU1xZ2`): the on-site matrices carry the internal up/down string, so
different species ANTIcommute: `{c_u, c†_d} = {c_d, c†_u} = {c_u, c_d} = {c†_u, c†_d} = 0` -/
def SpinfulAnticommuting (F : Family) : Prop :=
  let cu := F.op "c:u"; let cd := F.op "c:d"; let cpu := F.op "cp:u"; let cpd := F.op "cp:d"
  let Z := SMat.zeroOf F.d
  (acomm cu cpd ≃ Z) ∧ (acomm cd cpu ≃ Z) ∧ (acomm cu cd ≃ Z) ∧ (acomm cpu cpd ≃ Z)
instance (F : Family) : Decidable (SpinfulAnticommuting F) := by unfold SpinfulAnticommuting; infer_instance

/-- distinguishable species (`U1xU1`, fermionic in both components): no internal string, different species COMMUTE
on a site: `[c_u, c†_d] = [c_d, c†_u] = [c_u, c_d] = [c†_u, c†_d] = 0` (their charges are orthogonal, `⟨n_u, n_d⟩ = 0`) -/
def SpinfulCommuting (F : Family) : Prop :=
  let cu := F.op "c:u"; let cd := F.op "c:d"; let cpu := F.op "cp:u"; let cpd := F.op "cp:d"
  let Z := SMat.zeroOf F.d
  (comm cu cpd ≃ Z) ∧ (comm cd cpu ≃ Z) ∧ (comm cu cd ≃ Z) ∧ (comm cpu cpd ≃ Z) ∧
  fdot F.fss (F.charge "c:u") (F.charge "c:d") = 0 ∧ fdot F.fss (F.charge "c:u") (F.charge "cp:d") = 0
instance (F : Family) : Decidable (SpinfulCommuting F) := by unfold SpinfulCommuting; infer_instance

/-- for the anticommuting variants the charges of different species have ODD pairing (they anticommute between sites too) -/
def SpinfulOddPairing (F : Family) : Prop :=
  sgn (F.ferm.weight (F.charge "c:u") (F.charge "c:d")) = -1 ∧ sgn (F.ferm.weight (F.charge "c:u") (F.charge "cp:d")) = -1 ∧
  sgn (F.ferm.weight (F.charge "c:u") (F.charge "cp:u")) = -1 ∧ sgn (F.ferm.weight (F.charge "c:d") (F.charge "cp:d")) = -1
instance (F : Family) : Decidable (SpinfulOddPairing F) := by unfold SpinfulOddPairing; infer_instance

theorem SpinfulFermions_Z2_car : SpinfulCommon SpinfulFermions_Z2 ∧ SpinfulAnticommuting SpinfulFermions_Z2 ∧ SpinfulOddPairing SpinfulFermions_Z2 := by decide
theorem SpinfulFermions_U1_car : SpinfulCommon SpinfulFermions_U1 ∧ SpinfulAnticommuting SpinfulFermions_U1 ∧ SpinfulOddPairing SpinfulFermions_U1 := by decide
theorem SpinfulFermions_U1xU1xZ2_car :
    SpinfulCommon SpinfulFermions_U1xU1xZ2 ∧ SpinfulAnticommuting SpinfulFermions_U1xU1xZ2 ∧ SpinfulOddPairing SpinfulFermions_U1xU1xZ2 := by decide
theorem SpinfulFermions_U1xU1_car : SpinfulCommon SpinfulFermions_U1xU1 ∧ SpinfulCommuting SpinfulFermions_U1xU1 := by decide

/-- t-J (no double occupancy; `h` = hole projector): `c_σ c†_σ' = δ_σσ' h`, `c†_σ c†_σ' = c_σ c_σ' = 0`,
`n_σ = c†_σ c_σ`, `n_u + n_d + h = 1`, `n_u n_d = 0`, `{c_σ, c†_σ} = 1 − n_σ̄`, `c†_σ = c_σᵀ`,
`Sᶻ = (n_u − n_d)/2`, `S⁺ = c†_u c_d`, `S⁻ = c†_d c_u`, `[S⁺,S⁻] = 2Sᶻ`, `[Sᶻ,S^±] = ±S^±` -/
def TJRelations (F : Family) : Prop :=
  let cu := F.op "c:u"; let cd := F.op "c:d"; let cpu := F.op "cp:u"; let cpd := F.op "cp:d"
  let nu := F.op "n:u"; let nd := F.op "n:d"; let I := F.op "I"; let h := F.op "h"
  let Sz := F.op "Sz"; let Sp := F.op "Sp"; let Sm := F.op "Sm"; let Z := SMat.zeroOf F.d
  (cu * cpu ≃ h) ∧ (cd * cpd ≃ h) ∧ (cu * cpd ≃ Z) ∧ (cd * cpu ≃ Z) ∧
  (cpu * cpu ≃ Z) ∧ (cpu * cpd ≃ Z) ∧ (cpd * cpu ≃ Z) ∧ (cpd * cpd ≃ Z) ∧
  (cu * cu ≃ Z) ∧ (cu * cd ≃ Z) ∧ (cd * cu ≃ Z) ∧ (cd * cd ≃ Z) ∧
  (nu ≃ cpu * cu) ∧ (nd ≃ cpd * cd) ∧ (nu + nd + h ≃ I) ∧ (nu * nd ≃ Z) ∧
  (acomm cu cpu ≃ I - nd) ∧ (acomm cd cpd ≃ I - nu) ∧ (cpu ≃ cu.transposeS) ∧ (cpd ≃ cd.transposeS) ∧
  (Sz ≃ (nu - nd).divNat 2) ∧ (Sp ≃ cpu * cd) ∧ (Sm ≃ cpd * cu) ∧
  (comm Sp Sm ≃ SMat.smulInt 2 Sz) ∧ (comm Sz Sp ≃ Sp) ∧ (comm Sz Sm ≃ -Sm)
instance (F : Family) : Decidable (TJRelations F) := by unfold TJRelations; infer_instance

theorem SpinfulFermions_tJ_Z2_relations : TJRelations SpinfulFermions_tJ_Z2 := by decide
theorem SpinfulFermions_tJ_U1_relations : TJRelations SpinfulFermions_tJ_U1 := by decide
theorem SpinfulFermions_tJ_U1xU1_relations : TJRelations SpinfulFermions_tJ_U1xU1 := by decide
theorem SpinfulFermions_tJ_U1xU1xZ2_relations : TJRelations SpinfulFermions_tJ_U1xU1xZ2 := by decide

/-- su(2) in the ladder basis (every spin table): `[S⁺,S⁻] = 2Sᶻ`, `[Sᶻ,S⁺] = S⁺`, `[Sᶻ,S⁻] = −S⁻`, `S⁻ = (S⁺)ᵀ` -/
def SU2Ladder (F : Family) : Prop :=
  let sp := F.op "sp"; let sm := F.op "sm"; let sz := F.op "sz"
  (comm sp sm ≃ SMat.smulInt 2 sz) ∧ (comm sz sp ≃ sp) ∧ (comm sz sm ≃ -sm) ∧ (sm ≃ sp.transposeS)
instance (F : Family) : Decidable (SU2Ladder F) := by unfold SU2Ladder; infer_instance

/-- su(2) in the Cartesian basis (tables that define `sx`, `sy`): `[Sˣ,Sʸ] = iSᶻ` (cyclic), `S^± = Sˣ ± iSʸ`,
`isy = i·Sʸ`, Casimir `Sˣ² + Sʸ² + Sᶻ² = s(s+1)·1` given as `cas4/4` -/
def SU2Cartesian (F : Family) (cas4 : Int) : Prop :=
  let sx := F.op "sx"; let sy := F.op "sy"; let sz := F.op "sz"; let sp := F.op "sp"; let sm := F.op "sm"
  let isy := F.op "isy"; let I := F.op "I"
  (comm sx sy ≃ SMat.smulK K.I sz) ∧ (comm sy sz ≃ SMat.smulK K.I sx) ∧ (comm sz sx ≃ SMat.smulK K.I sy) ∧
  (sp ≃ sx + SMat.smulK K.I sy) ∧ (sm ≃ sx - SMat.smulK K.I sy) ∧ (isy ≃ SMat.smulK K.I sy) ∧
  (sx * sx + sy * sy + sz * sz ≃ (SMat.smulInt cas4 I).divNat 4)
instance (F : Family) (c : Int) : Decidable (SU2Cartesian F c) := by unfold SU2Cartesian; infer_instance

/-- Pauli matrices: `x² = y² = z² = 1`, `xy = iz` (cyclic), `iy = i·y`, `sα = α/2` -/
def Pauli (F : Family) : Prop :=
  let x := F.op "x"; let y := F.op "y"; let z := F.op "z"; let iy := F.op "iy"; let I := F.op "I"
  (x * x ≃ I) ∧ (y * y ≃ I) ∧ (z * z ≃ I) ∧ (x * y ≃ SMat.smulK K.I z) ∧ (y * z ≃ SMat.smulK K.I x) ∧
  (z * x ≃ SMat.smulK K.I y) ∧ (iy ≃ SMat.smulK K.I y) ∧
  (F.op "sx" ≃ x.divNat 2) ∧ (F.op "sy" ≃ y.divNat 2) ∧ (F.op "sz" ≃ z.divNat 2) ∧ (F.op "isy" ≃ iy.divNat 2)
instance (F : Family) : Decidable (Pauli F) := by unfold Pauli; infer_instance

theorem Spin12_dense_algebra : SU2Ladder Spin12_dense ∧ SU2Cartesian Spin12_dense 3 ∧ Pauli Spin12_dense := by decide
theorem Spin12_Z2_algebra : SU2Ladder Spin12_Z2 ∧ SU2Cartesian Spin12_Z2 3 ∧ Pauli Spin12_Z2 := by decide
/-- `U1` defines only `z`, `sz`, `sp`, `sm` -/
theorem Spin12_U1_algebra :
    SU2Ladder Spin12_U1 ∧ (Spin12_U1.op "z" * Spin12_U1.op "z" ≃ Spin12_U1.op "I") ∧
      (Spin12_U1.op "sz" ≃ (Spin12_U1.op "z").divNat 2) := by decide
/-- spin 1 (entries `√2` exact in ℤ[√2]): Casimir `s(s+1) = 2 = 8/4` -/
theorem Spin1_dense_algebra : SU2Ladder Spin1_dense ∧ SU2Cartesian Spin1_dense 8 := by decide
theorem Spin1_Z3_algebra : SU2Ladder Spin1_Z3 := by decide
theorem Spin1_U1_algebra : SU2Ladder Spin1_U1 := by decide
/-- `Qdit` offers only the identity -/
theorem Qdit_dense_algebra : (Qdit_dense.op "I" ≃ SMat.identOf Qdit_dense.d) ∧ Qdit_dense.ops.length = 1 := by decide

/-- non-vacuity: `≃` is not trivially true — a missing operator is equivalent to nothing, and `c ≄ c†` -/
example : ¬ (Spin12_U1.op "x" ≃ Spin12_U1.op "x") := by decide
example : ¬ (SpinlessFermions_U1.op "c" ≃ SpinlessFermions_U1.op "cp") := by decide
example : ¬ SpinfulAnticommuting SpinfulFermions_U1xU1 := by decide
example : ¬ SpinfulCommuting SpinfulFermions_U1 := by decide

end YModel.JW
