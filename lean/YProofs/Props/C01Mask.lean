import YProofs.Props.C01Broadcast
/-!
# C01/C02 (continued) — `apply_mask`

`wf_applyMask`: the masked tensor is well-formed with the signature and charge of `a`.
`toDense_applyMask`: the dense array of the masked tensor, on the leg spaces `L` with the space of leg `ax` replaced by
the masked space (every sector shrunk to its number of kept positions, empty sectors removed), at index `idx'`, is the
dense array of `a` on `L` at the index whose `ax` entry is the ORIGINAL position of the kept entry
(`numpy.take(dense(a), kept_positions, axis=ax)`), for every symmetry, rank and sector content.
-/
namespace YModel
variable {R : Type} {ms : List Nat}

theorem applyMask_ok_iff [Zero R] [DecidableEq R] {m a c : Tensor R} {ax : Nat} (h : applyMask m a ax = .ok c) :
    ax < a.rank ∧
    c = { a with blocks := (a.blocks.filter (fun kb => !(maskIdx m (kb.1.getD ax [])).isEmpty)).map (fun kb =>
            (kb.1, ⟨kb.2.shape.set ax (maskIdx m (kb.1.getD ax [])).length,
                    fun i => kb.2.val (i.set ax ((maskIdx m (kb.1.getD ax [])).getD (i.getD ax 0) 0))⟩)) } := by
  unfold applyMask at h
  split at h; · cases h
  split at h; · cases h
  split at h; · cases h
  split at h; · cases h
  simp only at h
  split at h; · cases h
  cases h
  rename_i _ _ _ h4 _
  exact ⟨by omega, rfl⟩

theorem getD_set {α} (l : List α) (ax : Nat) (x d : α) (i : Nat) (h : ax < l.length) :
    (l.set ax x).getD i d = if i = ax then x else l.getD i d := by
  simp only [List.getD_eq_getElem?_getD, List.getElem?_set]
  by_cases c : ax = i
  · subst c; simp [h]
  · have : ¬ i = ax := fun e => c e.symm
    simp [c, this]

/-- the masked tensor is well-formed, with the signature, charge and symmetry of `a` -/
theorem wf_applyMask [Zero R] [DecidableEq R] {m a c : Tensor R} {ax : Nat} (ha : WF ms a) (h : applyMask m a ax = .ok c) :
    WF ms c ∧ c.s = a.s ∧ c.n = a.n ∧ c.sym = a.sym := by
  obtain ⟨hax, hc⟩ := applyMask_ok_iff h
  have hsub : ∀ x ∈ c.blocks, ∃ kb ∈ a.blocks, (maskIdx m (kb.1.getD ax [])) ≠ [] ∧ x.1 = kb.1 ∧
      x.2.shape = kb.2.shape.set ax (maskIdx m (kb.1.getD ax [])).length := by
    intro x hx
    rw [hc] at hx
    simp only [List.mem_map, List.mem_filter] at hx
    obtain ⟨kb, ⟨hkb, hne⟩, rfl⟩ := hx
    refine ⟨kb, hkb, ?_, rfl, rfl⟩
    intro he; rw [he] at hne; simp at hne
  have hcs : c.s = a.s := by rw [hc]
  have hcn : c.n = a.n := by rw [hc]
  have hcsym : c.sym = a.sym := by rw [hc]
  have hrank : c.rank = a.rank := by unfold Tensor.rank; rw [hcs]
  refine ⟨⟨?_, ?_, ?_, ?_, ?_, ?_, ?_, ?_⟩, hcs, hcn, hcsym⟩
  · intro x hx; rw [hcs] at hx; exact ha.sig x hx
  · rw [hcn]; exact ha.ncanon
  · rw [hc]
    simp only [Tensor.keys, List.map_map, Function.comp_def]
    have hs := ha.sorted
    simp only [Tensor.keys] at hs
    exact (hs.sublist (List.Sublist.map _ (List.filter_sublist)))
  · intro x hx
    obtain ⟨kb, hkb, _, h1, h2⟩ := hsub x hx
    rw [h1, h2, hrank, List.length_set]; exact ha.keyRank kb hkb
  · intro x hx ch hch
    obtain ⟨kb, hkb, _, h1, _⟩ := hsub x hx
    rw [h1] at hch; exact ha.canon kb hkb ch hch
  · intro x hx
    obtain ⟨kb, hkb, _, h1, _⟩ := hsub x hx
    show chargeOfKey c.sym c.s x.1 = c.n
    rw [hcsym, hcs, hcn, h1]; exact ha.rule kb hkb
  · intro x hx dd hdd
    obtain ⟨kb, hkb, hne, _, h2⟩ := hsub x hx
    rw [h2] at hdd
    rcases List.mem_or_eq_of_mem_set hdd with h' | h'
    · exact ha.dimsPos kb hkb dd h'
    · rw [h']; exact List.length_pos_iff.mpr hne
  · intro x hx y hy i hxy
    obtain ⟨kx, hkx, _, x1, x2⟩ := hsub x hx
    obtain ⟨ky, hky, _, y1, y2⟩ := hsub y hy
    rw [x2, y2]; rw [x1, y1] at hxy
    have hlx : ax < kx.2.shape.length := by rw [(ha.keyRank kx hkx).2]; exact hax
    have hly : ax < ky.2.shape.length := by rw [(ha.keyRank ky hky).2]; exact hax
    rw [getD_set _ _ _ _ _ hlx, getD_set _ _ _ _ _ hly]
    by_cases c1 : i = ax
    · rw [if_pos c1, if_pos c1]; rw [c1] at hxy; rw [hxy]
    · rw [if_neg c1, if_neg c1]; exact ha.dimsCons kx hkx ky hky i hxy

/-! ### the masked leg space and the embedding of kept positions -/

/-- leg space after masking: every sector shrunk to the number of kept positions; sectors without a kept position removed -/
def maskSpace [Zero R] [DecidableEq R] (m : Tensor R) (M : LegSpace) : LegSpace :=
  M.filterMap (fun td => if (maskIdx m td.1).isEmpty then none else some (td.1, (maskIdx m td.1).length))

/-- dense offset of sector `γ` in a leg space -/
def offsetOf : LegSpace → Charge → Nat
  | [], _ => 0
  | (t, d) :: rest, γ => if t == γ then 0 else d + offsetOf rest γ

theorem locate_offset (M : LegSpace) (γ : Charge) (D p : Nat) (hnd : (M.map (·.1)).Nodup) (hm : (γ, D) ∈ M) (hp : p < D) :
    locate M (offsetOf M γ + p) = some (γ, p) := by
  induction M with
  | nil => cases hm
  | cons hd rest ih =>
    obtain ⟨t, d⟩ := hd
    rw [List.map_cons, List.nodup_cons] at hnd
    by_cases ht : t = γ
    · subst ht
      have hd' : d = D := by
        rcases List.mem_cons.mp hm with h' | h'
        · exact (Prod.mk.inj h').2.symm
        · exact absurd (List.mem_map_of_mem (f := (·.1)) h') hnd.1
      subst hd'
      simp [offsetOf, locate, hp]
    · have hne : (t == γ) = false := by simpa using ht
      have hm' : (γ, D) ∈ rest := by
        rcases List.mem_cons.mp hm with h' | h'
        · exact absurd (Prod.mk.inj h').1.symm ht
        · exact h'
      simp only [offsetOf, hne, Bool.false_eq_true, if_false, locate]
      rw [if_neg (by omega), show d + offsetOf rest γ + p - d = offsetOf rest γ + p by omega]
      exact ih hnd.2 hm'

theorem locate_maskSpace [Zero R] [DecidableEq R] (m : Tensor R) (M : LegSpace) (x : Nat) {γ : Charge} {q : Nat}
    (h : locate (maskSpace m M) x = some (γ, q)) :
    q < (maskIdx m γ).length ∧ ∃ D, (γ, D) ∈ M := by
  induction M generalizing x with
  | nil => simp [maskSpace, locate] at h
  | cons hd rest ih =>
    obtain ⟨t, d⟩ := hd
    unfold maskSpace at h
    rw [List.filterMap_cons] at h
    by_cases he : (maskIdx m t).isEmpty = true
    · simp only [he, if_true] at h
      obtain ⟨h1, D, hD⟩ := ih x h
      exact ⟨h1, D, List.mem_cons_of_mem _ hD⟩
    · simp only [he, Bool.false_eq_true, if_false, locate] at h
      by_cases hx : x < (maskIdx m t).length
      · rw [if_pos hx] at h
        have := Option.some.inj h
        obtain ⟨rfl, rfl⟩ := Prod.mk.inj this
        exact ⟨hx, d, by simp⟩
      · rw [if_neg hx] at h
        obtain ⟨h1, D, hD⟩ := ih _ h
        exact ⟨h1, D, List.mem_cons_of_mem _ hD⟩

theorem all_congr' {α} {f g : α → Bool} : ∀ {l : List α}, (∀ x ∈ l, f x = g x) → l.all f = l.all g
  | [], _ => rfl
  | x :: xs, h => by
    simp only [List.all_cons]
    rw [h x (by simp), all_congr' (l := xs) (fun y hy => h y (by simp [hy]))]

/-- **`apply_mask` = `numpy.take` along the masked leg** -/
theorem toDense_applyMask [Zero R] [DecidableEq R] {m a c : Tensor R} {ax : Nat} (ha : WF ms a)
    (h : applyMask m a ax = .ok c) (L : List LegSpace) (idx' : List Nat)
    (hL : L.length = a.rank) (hi : idx'.length = a.rank)
    (hnd : ((L.getD ax []).map (·.1)).Nodup)
    (hdim : ∀ γ D, (γ, D) ∈ L.getD ax [] → ∀ q ∈ maskIdx m γ, q < D) :
    toDenseOn (L.set ax (maskSpace m (L.getD ax []))) c idx' =
      match locate (maskSpace m (L.getD ax [])) (idx'.getD ax 0) with
      | none => 0
      | some (γ, q) => toDenseOn L a (idx'.set ax (offsetOf (L.getD ax []) γ + (maskIdx m γ).getD q 0)) := by
  obtain ⟨hax, hc⟩ := applyMask_ok_iff h
  have hrank : c.rank = a.rank := by rw [hc]; rfl
  have hLl : ax < L.length := by omega
  have hil : ax < idx'.length := by omega
  have hlocne : ∀ (J : List Nat) (i : Nat), i ≠ ax → J.length = a.rank → (∀ k, k ≠ ax → J.getD k 0 = idx'.getD k 0) →
      locAt L J i = locAt (L.set ax (maskSpace m (L.getD ax []))) idx' i := by
    intro J i hne _ hJ
    unfold locAt
    rw [getD_set _ _ _ _ _ hLl, if_neg hne, hJ i hne]
  have hlocax : locAt (L.set ax (maskSpace m (L.getD ax []))) idx' ax = locate (maskSpace m (L.getD ax [])) (idx'.getD ax 0) := by
    unfold locAt; rw [getD_set _ _ _ _ _ hLl, if_pos rfl]
  cases hloc : locate (maskSpace m (L.getD ax [])) (idx'.getD ax 0) with
  | none =>
    unfold toDenseOn
    rw [hrank]
    have : (List.range a.rank).all (fun i => (locAt (L.set ax (maskSpace m (L.getD ax []))) idx' i).isSome) = false := by
      rw [List.all_eq_false]
      exact ⟨ax, List.mem_range.mpr hax, by rw [hlocax, hloc]; simp⟩
    rw [this]; rfl
  | some tq =>
    obtain ⟨γ, q⟩ := tq
    obtain ⟨hq, D, hD⟩ := locate_maskSpace m _ _ hloc
    have hpD : (maskIdx m γ).getD q 0 < D := by
      apply hdim γ D hD
      rw [List.getD_eq_getElem?_getD, List.getElem?_eq_getElem hq]
      exact List.getElem_mem hq
    -- the embedded index
    show toDenseOn (L.set ax (maskSpace m (L.getD ax []))) c idx' =
      toDenseOn L a (idx'.set ax (offsetOf (L.getD ax []) γ + (maskIdx m γ).getD q 0))
    generalize hJ : idx'.set ax (offsetOf (L.getD ax []) γ + (maskIdx m γ).getD q 0) = J
    have hJl : J.length = a.rank := by rw [← hJ, List.length_set]; exact hi
    have hJne : ∀ k, k ≠ ax → J.getD k 0 = idx'.getD k 0 := by
      intro k hk; rw [← hJ, getD_set _ _ _ _ _ hil, if_neg hk]
    have hJax : locAt L J ax = some (γ, (maskIdx m γ).getD q 0) := by
      unfold locAt
      rw [← hJ, getD_set _ _ _ _ _ hil, if_pos rfl]
      exact locate_offset _ γ D _ hnd hD hpD
    unfold toDenseOn
    rw [hrank]
    have hall : (List.range a.rank).all (fun i => (locAt (L.set ax (maskSpace m (L.getD ax []))) idx' i).isSome) =
        (List.range a.rank).all (fun i => (locAt L J i).isSome) := by
      apply all_congr'
      intro i _
      by_cases c1 : i = ax
      · rw [c1, hlocax, hloc, hJax]; rfl
      · rw [hlocne J i c1 hJl hJne]
    rw [hall]
    by_cases hA : (List.range a.rank).all (fun i => (locAt L J i).isSome) = true
    · rw [if_pos hA, if_pos hA]
      have hkey : keyAt (L.set ax (maskSpace m (L.getD ax []))) idx' a.rank = keyAt L J a.rank := by
        unfold keyAt
        apply List.map_congr_left
        intro i _
        by_cases c1 : i = ax
        · rw [c1, hlocax, hloc, hJax]; rfl
        · rw [hlocne J i c1 hJl hJne]
      have hpos : posAt (L.set ax (maskSpace m (L.getD ax []))) idx' a.rank = (posAt L J a.rank).set ax q := by
        unfold posAt
        apply List.ext_getElem
        · simp
        · intro k h1 h2
          have hk : k < a.rank := by simpa using h1
          simp only [List.getElem_map, List.getElem_range, List.getElem_set]
          by_cases c1 : ax = k
          · subst c1; rw [if_pos rfl, hlocax, hloc]; rfl
          · rw [if_neg c1, hlocne J k (fun e => c1 e.symm) hJl hJne]
      rw [hkey, hpos]
      have hKax : (keyAt L J a.rank).getD ax [] = γ := by
        unfold keyAt
        rw [List.getD_eq_getElem?_getD, List.getElem?_map, List.getElem?_range hax]
        simp [hJax]
      have hPax : (posAt L J a.rank).getD ax 0 = (maskIdx m γ).getD q 0 := by
        unfold posAt
        rw [List.getD_eq_getElem?_getD, List.getElem?_map, List.getElem?_range hax]
        simp [hJax]
      have hPl : ax < (posAt L J a.rank).length := by simp [posAt]; exact hax
      -- lookup in the filtered / reshaped block list
      have hcb : c.blocks = (a.blocks.filter (fun kb => !(maskIdx m (kb.1.getD ax [])).isEmpty)).map (fun kb =>
          (kb.1, (⟨kb.2.shape.set ax (maskIdx m (kb.1.getD ax [])).length,
            fun i => kb.2.val (i.set ax ((maskIdx m (kb.1.getD ax [])).getD (i.getD ax 0) 0))⟩ : Block R))) := by rw [hc]
      have key := find?_filter_map_key a.blocks (fun k => !(maskIdx m (k.getD ax [])).isEmpty)
        (fun kb => (⟨kb.2.shape.set ax (maskIdx m (kb.1.getD ax [])).length,
            fun i => kb.2.val (i.set ax ((maskIdx m (kb.1.getD ax [])).getD (i.getD ax 0) 0))⟩ : Block R))
        (keyAt L J a.rank)
      have e1 : c.get? (keyAt L J a.rank) = (c.blocks.find? (fun kb => kb.1 == keyAt L J a.rank)).map (·.2) := rfl
      have e2 : a.get? (keyAt L J a.rank) = (a.blocks.find? (fun kb => kb.1 == keyAt L J a.rank)).map (·.2) := rfl
      have hne : (!(maskIdx m ((keyAt L J a.rank).getD ax [])).isEmpty) = true := by
        rw [hKax]
        cases hmi : maskIdx m γ with
        | nil => rw [hmi] at hq; simp at hq
        | cons _ _ => rfl
      rw [e1, hcb, key, if_pos hne, e2]
      cases hf : a.blocks.find? (fun kb => kb.1 == keyAt L J a.rank) with
      | none => rfl
      | some kb =>
        have hkk : kb.1 = keyAt L J a.rank := by
          have := List.find?_some hf
          simpa using this
        simp only [Option.map_some]
        rw [hkk, hKax, getD_set _ _ _ _ _ hPl, if_pos rfl, List.set_set]
        congr 1
        apply List.ext_getElem
        · simp
        · intro k h1 h2
          simp only [List.getElem_set]
          by_cases c1 : ax = k
          · subst c1
            rw [if_pos rfl]
            have : (posAt L J a.rank)[ax] = (posAt L J a.rank).getD ax 0 := by
              rw [List.getD_eq_getElem?_getD, List.getElem?_eq_getElem h2]; rfl
            rw [this, hPax]
          · rw [if_neg c1]
    · have hA' : (List.range a.rank).all (fun i => (locAt L J i).isSome) = false := by simpa using hA
      rw [hA']; simp

end YModel

namespace YModel
section examples
open SymGen
def exD : Tensor Int :=
  { sym := sym_U1, s := [1, -1], n := [0], isdiag := false,
    blocks := [([[0], [0]], ⟨[1, 2], fun i => 10 * i.getD 0 0 + i.getD 1 0⟩),
               ([[1], [1]], ⟨[2, 3], fun i => 100 + 10 * i.getD 0 0 + i.getD 1 0⟩)] }
/-- a mask on the first leg: keeps position 0 of sector 0 and position 1 of sector 1 -/
def exMask : Tensor Int :=
  { sym := sym_U1, s := [1, -1], n := [0], isdiag := true,
    blocks := [([[0], [0]], ⟨[1, 1], fun _ => 1⟩),
               ([[1], [1]], ⟨[2, 2], fun i => if i = [1, 1] then 1 else 0⟩)] }
def exL : List LegSpace := [[([0], 1), ([1], 2)], [([0], 2), ([1], 3)]]
/-- non-vacuity: hypotheses hold and both sides evaluate to 110 (row 2 of the dense array is the kept row of sector 1) -/
example : WF [0] exD := wfCheck_sound (by decide)
example : ∀ td ∈ exL.getD 0 [], ∀ q ∈ maskIdx exMask td.1, q < td.2 := by decide
example : maskSpace exMask (exL.getD 0 []) = [([0], 1), ([1], 1)] := by decide
example : (applyMask exMask exD 0).toOption.map (fun c => toDenseOn (exL.set 0 (maskSpace exMask (exL.getD 0 []))) c [1, 2]) = some 110 := by decide
example : toDenseOn exL exD [2, 2] = 110 := by decide
end examples
end YModel
