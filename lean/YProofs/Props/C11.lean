import YProofs.Lemmas.GateMatrix
/-!
# C11 — PEPS gates equal the exponentials of their Hamiltonians (clause 1 of the property)

The gates of `yastn/tn/fpeps/gates.py` that are written as closed forms are stored as *data* in
`YModel.Gates.ClosedForm` (which integer Jordan–Wigner matrix carries which coefficient function of which
parameter expression).  The driver `drv_c11` evaluates exactly this data in `Float` and the harness compares it
with the dense matrices of the real constructors (and the integer matrices with the real `fkron` outputs); here
the same data is evaluated over `ℝ` and `ℂ` (`ClosedForm.eval`) and shown to be `exp (−step • H)` **for every
parameter value**.  `H` is `ClosedForm.hamiltonian`, whose unfolded form is stated next to each theorem.

* `exp_spectral`, `exp_sum_orth_idem`  — exponential of a combination of orthogonal idempotents (any Banach algebra);
* `gate_occupation_eq_exp`, `gate_field_eq_exp`, `gate_Ising_eq_exp`, `gate_hopping_eq_exp`,
  `gate_Coulomb_eq_exp` (+ `_complex` versions) — the five closed forms;
* `gate_*_of_relation` — the same statements for ANY matrices satisfying the algebraic relation
  (`K³ = K`, `X² = 1`, `n² = n`, orthogonal projectors): these cover the 9×9 / 16×16 spinful and t-J variants,
  whose relations the harness checks exactly on the real operators on every run;
* `gate_exp_via_eigh` — `U exp(−s D) U† = exp(−s H)` under the `eigh` contract (Heisenberg, t-J, generic gates);
* `decompose_reconstructs` — `(U √S)(√S V) = G` under the SVD contract (`decompose_nn_gate`).
-/
open NormedSpace Matrix

namespace YModel.Gates

/-! ## evaluation of the closed-form data over a field -/

def AExpr.eval {𝕂 : Type*} [Field 𝕂] (ps : List 𝕂) : AExpr → 𝕂
  | .p i => ps.getD i 0
  | .mul x y => x.eval ps * y.eval ps
  | .add x y => x.eval ps + y.eval ps
  | .half x => x.eval ps / 2

/-- the coefficient functions over `ℝ` -/
noncomputable def Fn.real : Fn → ℝ → ℝ
  | .one, _ => 1
  | .cosh, x => Real.cosh x
  | .coshm1, x => Real.cosh x - 1
  | .sinh, x => Real.sinh x
  | .negsinh, x => - Real.sinh x
  | .expm1, x => Real.exp x - 1

/-- the coefficient functions over `ℂ` -/
noncomputable def Fn.complex : Fn → ℂ → ℂ
  | .one, _ => 1
  | .cosh, x => Complex.cosh x
  | .coshm1, x => Complex.cosh x - 1
  | .sinh, x => Complex.sinh x
  | .negsinh, x => - Complex.sinh x
  | .expm1, x => Complex.exp x - 1

/-- value of a closed form: `Σ_k f_k(arg_k(ps)) • M_k` -/
def ClosedForm.eval {𝕂 : Type*} [Field 𝕂] (fn : Fn → 𝕂 → 𝕂) (cf : ClosedForm) (n : ℕ) (ps : List 𝕂) :
    Matrix (Fin n) (Fin n) 𝕂 :=
  (cf.terms.map fun t => fn t.fn (t.arg.eval ps) • toM 𝕂 n t.mat).sum

/-- the Hamiltonian recorded with a closed form: `Σ sign • coefficient(ps) • M` -/
def ClosedForm.hamiltonian {𝕂 : Type*} [Field 𝕂] (cf : ClosedForm) (n : ℕ) (ps : List 𝕂) :
    Matrix (Fin n) (Fin n) 𝕂 :=
  (cf.ham.map fun t => ((t.1 : ℤ) : 𝕂) • (t.2.1.eval ps • toM 𝕂 n t.2.2)).sum

/-! ## the integer relations (decided on the model's matrices) -/

/-- (tie to the JW convention) the literal matrices are the Jordan–Wigner products, in the list algebra of the model -/
theorem model_matrices_are_JW :
    K = madd (mmul c1dag c2) (mmul c2dag c1) ∧
    NH = madd (mmul (mmul c1dag c1) (mmul c2 c2dag)) (mmul (mmul c1 c1dag) (mmul c2dag c2)) ∧
    XX = kron X X ∧ nOcc = mmul adag a ∧ hOcc = mmul a adag ∧
    Pdn = msub nDn nUpDn ∧ Pup = msub nUp nUpDn ∧ Pud = nUpDn ∧
    mmul K K = NH ∧ mmul (mmul K K) K = K ∧ mmul XX XX = I4 ∧ mmul X X = I2 ∧ mmul nOcc nOcc = nOcc ∧
    madd (madd P00 Pdn) (madd Pup Pud) = I4 ∧
    -- canonical anticommutation relations of the two JW modes
    madd (mmul c1 c1dag) (mmul c1dag c1) = I4 ∧ madd (mmul c2 c2dag) (mmul c2dag c2) = I4 ∧
    madd (mmul c1 c2) (mmul c2 c1) = zeros 4 4 ∧ madd (mmul c1 c2dag) (mmul c2dag c1) = zeros 4 4 := by
  decide

/-! The relations `K_sq`, `K_cube`, `XX_sq`, `X_sq`, `n_idem`, `P*_idem`, `P*_P*`, `nUp_split`, … used below are decided
over `ℤ` on the same list matrices and transported to `ℝ`/`ℂ` in `YProofs/Lemmas/GateMatrix.lean`. -/

/-! ## general statements: any matrices with the algebraic relation (cover all symmetry variants) -/

section general
variable {n : Type*} [Fintype n] [DecidableEq n] {𝕂 : Type*} [RCLike 𝕂]

/-- **occupation gate**, any idempotent `N`: `1 + (e^{μ·step} − 1) N = exp(−step • (−μ • N))` -/
theorem gate_occupation_of_relation (N : Matrix n n 𝕂) (hN : N * N = N) (mu step : 𝕂) :
    1 + (exp (mu * step) - 1) • N = exp (-step • (-mu • N)) := by
  rw [smul_smul, neg_mul_neg, mul_comm step mu, exp_smul_idem' N hN]

/-- **field / Ising gate**, any involution `X`: `cosh θ • 1 + sinh θ • X = exp(θ • X)` -/
theorem gate_involution_of_relation (X : Matrix n n 𝕂) (hX : X * X = 1) (θ : 𝕂) :
    ((exp θ + exp (-θ)) / 2) • (1 : Matrix n n 𝕂) + ((exp θ - exp (-θ)) / 2) • X = exp (θ • X) :=
  (exp_smul_of_sq_one' X hX θ).symm

/-- **hopping gate**, any tripotent `K`: `1 + (cosh θ − 1) K² + sinh θ K = exp(θ • K)` -/
theorem gate_hopping_of_relation (K : Matrix n n 𝕂) (hK : K * K * K = K) (θ : 𝕂) :
    1 + ((exp θ + exp (-θ)) / 2 - 1) • (K * K) + ((exp θ - exp (-θ)) / 2) • K = exp (θ • K) :=
  (exp_smul_of_cube_eq' K hK θ).symm

/-- **Coulomb gate**, any three pairwise orthogonal projectors -/
theorem gate_Coulomb_of_relation (P₁ P₂ P₃ : Matrix n n 𝕂)
    (h₁ : P₁ * P₁ = P₁) (h₂ : P₂ * P₂ = P₂) (h₃ : P₃ * P₃ = P₃)
    (h₁₂ : P₁ * P₂ = 0) (h₁₃ : P₁ * P₃ = 0) (h₂₁ : P₂ * P₁ = 0) (h₂₃ : P₂ * P₃ = 0)
    (h₃₁ : P₃ * P₁ = 0) (h₃₂ : P₃ * P₂ = 0) (a₁ a₂ a₃ : 𝕂) :
    1 + (exp a₁ - 1) • P₁ + (exp a₂ - 1) • P₂ + (exp a₃ - 1) • P₃ = exp (a₁ • P₁ + a₂ • P₂ + a₃ • P₃) := by
  have := exp_sum_orth_idem' (𝕂 := 𝕂) (Finset.univ : Finset (Fin 3)) ![P₁, P₂, P₃] ![a₁, a₂, a₃]
    (by intro i _; fin_cases i <;> simp [h₁, h₂, h₃])
    (by intro i _ j _ h; fin_cases i <;> fin_cases j <;> simp_all)
  simp only [Fin.sum_univ_three, Matrix.cons_val_zero, Matrix.cons_val_one, Matrix.cons_val_two,
    Matrix.head_cons, Matrix.tail_cons] at this
  rw [this]; abel

/-- **generic exponentials through `eigh`** (`gate_nn_exp`, `gate_local_exp`, Heisenberg, t-J):
if `H = U D U†` with `U U† = 1` then the code's `U · exp(−step·D) · U†` is `exp(−step • H)`. -/
theorem gate_exp_via_eigh (H U : Matrix n n 𝕂) (d : n → 𝕂) (s : 𝕂)
    (hU : U * star U = 1) (hH : H = U * Matrix.diagonal d * star U) :
    U * Matrix.diagonal (fun i => exp (-s * d i)) * star U = exp (-s • H) := by
  have hinv : U⁻¹ = star U := Matrix.inv_eq_right_inv hU
  have hunit : IsUnit U := (Matrix.isUnit_iff_isUnit_det U).mpr (Matrix.isUnit_det_of_right_inverse hU)
  have h1 : -s • H = U * Matrix.diagonal (fun i => -s * d i) * U⁻¹ := by
    rw [hH, hinv, ← Matrix.smul_mul, ← Matrix.mul_smul]
    congr 2
    ext i j
    by_cases h : i = j <;> simp [Matrix.diagonal, h]
  rw [h1, Matrix.exp_conj _ _ hunit, Matrix.exp_diagonal, hinv]
  congr 3
  exact (Pi.exp_def _).symm

/-- **SVD splitting** (`decompose_nn_gate`): under the contract `G = U S V` with `S ≥ 0`, contracting
`G0 = U √S` with `G1 = √S V` over the auxiliary leg gives back `G`. -/
theorem decompose_reconstructs {m r p : Type*} [Fintype r] [DecidableEq r]
    (G : Matrix m p 𝕂) (U : Matrix m r 𝕂) (V : Matrix r p 𝕂) (S : r → ℝ) (hS : ∀ i, 0 ≤ S i)
    (hG : G = U * Matrix.diagonal (fun i => ((S i : ℝ) : 𝕂)) * V) :
    (U * Matrix.diagonal (fun i => ((Real.sqrt (S i) : ℝ) : 𝕂))) *
      (Matrix.diagonal (fun i => ((Real.sqrt (S i) : ℝ) : 𝕂)) * V) = G := by
  rw [hG, Matrix.mul_assoc U, ← Matrix.mul_assoc (Matrix.diagonal _) (Matrix.diagonal _) V,
    Matrix.diagonal_mul_diagonal, ← Matrix.mul_assoc]
  congr 3
  funext i
  rw [← RCLike.ofReal_mul, Real.mul_self_sqrt (hS i)]

end general

/-! ## the closed forms of `gates.py`, real parameters -/

section real_forms

/-- the data `YModel.Gates.hopping` unfolded: `II + (cosh(t·step) − 1)(nh + hn) + sinh(t·step)·cc` -/
theorem hopping_eval (t step : ℝ) : hopping.eval Fn.real 4 [t, step] =
    1 + (Real.cosh (t * step) - 1) • toM ℝ 4 NH + Real.sinh (t * step) • toM ℝ 4 K := by
  simp [ClosedForm.eval, hopping, Fn.real, AExpr.eval, toM_I4, add_assoc]

/-- `H = −t·(c₁†c₂ + c₂†c₁)` -/
theorem hopping_hamiltonian (t step : ℝ) : hopping.hamiltonian 4 [t, step] = -t • toM ℝ 4 K := by
  simp [ClosedForm.hamiltonian, hopping, AExpr.eval]

/-- **C11, hopping gate**: `gate_nn_hopping(t, step)` (as the JW matrix of two spinless sites) equals
`exp(−step·H)`, `H = −t·(c₁†c₂ + c₂†c₁)`, for all real `t`, `step`. -/
theorem gate_hopping_eq_exp (t step : ℝ) :
    hopping.eval Fn.real 4 [t, step] = exp (-step • hopping.hamiltonian 4 [t, step]) := by
  rw [hopping_eval, hopping_hamiltonian, smul_smul, neg_mul_neg, mul_comm step t,
    ← gate_hopping_of_relation _ (K_cube ℝ) (t * step), K_sq, ← Real.exp_eq_exp_ℝ, ← Real.cosh_eq,
    ← Real.sinh_eq]

theorem ising_eval (J step : ℝ) : ising.eval Fn.real 4 [J, step] =
    Real.cosh (J * step) • (1 : Matrix (Fin 4) (Fin 4) ℝ) + (-Real.sinh (J * step)) • toM ℝ 4 XX := by
  simp [ClosedForm.eval, ising, Fn.real, AExpr.eval, toM_I4]

theorem ising_hamiltonian (J step : ℝ) : ising.hamiltonian 4 [J, step] = J • toM ℝ 4 XX := by
  simp [ClosedForm.hamiltonian, ising, AExpr.eval]

/-- **C11, Ising gate**: `cosh(J·step)·II − sinh(J·step)·XX = exp(−step·J·XX)` for all real `J`, `step`. -/
theorem gate_Ising_eq_exp (J step : ℝ) :
    ising.eval Fn.real 4 [J, step] = exp (-step • ising.hamiltonian 4 [J, step]) := by
  rw [ising_eval, ising_hamiltonian, smul_smul,
    show -step * J = -(J * step) by ring,
    ← gate_involution_of_relation _ (XX_sq ℝ) (-(J * step)), ← Real.exp_eq_exp_ℝ, neg_neg,
    Real.cosh_eq, Real.sinh_eq]
  congr 2 <;> ring

theorem field_eval (h step : ℝ) : field.eval Fn.real 2 [h, step] =
    Real.cosh (h * step) • (1 : Matrix (Fin 2) (Fin 2) ℝ) + Real.sinh (h * step) • toM ℝ 2 X := by
  simp [ClosedForm.eval, field, Fn.real, AExpr.eval, toM_I2]

theorem field_hamiltonian (h step : ℝ) : field.hamiltonian 2 [h, step] = -h • toM ℝ 2 X := by
  simp [ClosedForm.hamiltonian, field, AExpr.eval]

/-- **C11, field gate**: `cosh(h·step)·I + sinh(h·step)·X = exp(−step·(−h·X))` for all real `h`, `step`. -/
theorem gate_field_eq_exp (h step : ℝ) :
    field.eval Fn.real 2 [h, step] = exp (-step • field.hamiltonian 2 [h, step]) := by
  rw [field_eval, field_hamiltonian, smul_smul, neg_mul_neg, mul_comm step h,
    ← gate_involution_of_relation _ (X_sq ℝ) (h * step), ← Real.exp_eq_exp_ℝ, ← Real.cosh_eq, ← Real.sinh_eq]

theorem occupation_eval (mu step : ℝ) : occupation.eval Fn.real 2 [mu, step] =
    1 + (Real.exp (mu * step) - 1) • toM ℝ 2 nOcc := by
  simp [ClosedForm.eval, occupation, Fn.real, AExpr.eval, toM_I2]

theorem occupation_hamiltonian (mu step : ℝ) : occupation.hamiltonian 2 [mu, step] = -mu • toM ℝ 2 nOcc := by
  simp [ClosedForm.hamiltonian, occupation, AExpr.eval]

/-- **C11, occupation gate**: `I + n·(e^{μ·step} − 1) = exp(−step·(−μ·n))` for all real `μ`, `step`. -/
theorem gate_occupation_eq_exp (mu step : ℝ) :
    occupation.eval Fn.real 2 [mu, step] = exp (-step • occupation.hamiltonian 2 [mu, step]) := by
  rw [occupation_eval, occupation_hamiltonian, ← gate_occupation_of_relation _ (n_idem ℝ), ← Real.exp_eq_exp_ℝ]

theorem coulomb_eval (mu_up mu_dn U step : ℝ) : coulomb.eval Fn.real 4 [mu_up, mu_dn, U, step] =
    1 + (Real.exp (step * (mu_dn + U / 2)) - 1) • toM ℝ 4 Pdn
      + (Real.exp (step * (mu_up + U / 2)) - 1) • toM ℝ 4 Pup
      + (Real.exp (step * (mu_up + mu_dn)) - 1) • toM ℝ 4 Pud := by
  simp [ClosedForm.eval, coulomb, Fn.real, AExpr.eval, toM_I4, add_assoc]

/-- the Hamiltonian recorded in the model is the docstring's Hamiltonian **minus the constant `U/4`**
("We ignore a constant U / 4 in the above Hamiltonian"):
`U n↑n↓ − (μ↑ + U/2) n↑ − (μ↓ + U/2) n↓ = U (n↑ − ½)(n↓ − ½) − μ↑ n↑ − μ↓ n↓ − U/4`. -/
theorem coulomb_hamiltonian_doc (mu_up mu_dn U step : ℝ) :
    coulomb.hamiltonian 4 [mu_up, mu_dn, U, step] =
      U • ((toM ℝ 4 nUp - (1 / 2 : ℝ) • 1) * (toM ℝ 4 nDn - (1 / 2 : ℝ) • 1))
        - mu_up • toM ℝ 4 nUp - mu_dn • toM ℝ 4 nDn - (U / 4) • 1 := by
  simp only [ClosedForm.hamiltonian, coulomb, AExpr.eval, List.map_cons, List.map_nil, List.sum_cons, List.sum_nil,
    List.getD_cons_zero, List.getD_cons_succ]
  simp only [sub_mul, mul_sub, smul_mul_assoc, mul_smul_comm, one_mul, mul_one, nUp_mul_nDn, smul_sub, smul_smul]
  match_scalars <;> ring

/-- **C11, Coulomb gate**: the closed form equals `exp(−step·H)` with
`H = U(n↑ − ½)(n↓ − ½) − μ↑n↑ − μ↓n↓ − U/4` (see `coulomb_hamiltonian_doc`), for all real parameters. -/
theorem gate_Coulomb_eq_exp (mu_up mu_dn U step : ℝ) :
    coulomb.eval Fn.real 4 [mu_up, mu_dn, U, step]
      = exp (-step • coulomb.hamiltonian 4 [mu_up, mu_dn, U, step]) := by
  have hH : -step • coulomb.hamiltonian 4 [mu_up, mu_dn, U, step]
      = (step * (mu_dn + U / 2)) • toM ℝ 4 Pdn + (step * (mu_up + U / 2)) • toM ℝ 4 Pup
        + (step * (mu_up + mu_dn)) • toM ℝ 4 Pud := by
    simp only [ClosedForm.hamiltonian, coulomb, AExpr.eval, List.map_cons, List.map_nil, List.sum_cons,
      List.sum_nil, List.getD_cons_zero, List.getD_cons_succ]
    rw [nUpDn_eq, ← nUp_split, ← nDn_split]
    simp only [smul_add, smul_smul]
    match_scalars <;> ring
  rw [coulomb_eval, hH, ← gate_Coulomb_of_relation _ _ _ (Pdn_idem ℝ) (Pup_idem ℝ) (Pud_idem ℝ)
    (Pdn_Pup ℝ) (Pdn_Pud ℝ) (Pup_Pdn ℝ) (Pup_Pud ℝ) (Pud_Pdn ℝ) (Pud_Pup ℝ), ← Real.exp_eq_exp_ℝ]

/-- with the constant restored: the gate is `e^{step·U/4} · exp(−step·H_doc)`. -/
theorem gate_Coulomb_eq_exp_doc (mu_up mu_dn U step : ℝ) :
    coulomb.eval Fn.real 4 [mu_up, mu_dn, U, step]
      = exp (-step • (U • ((toM ℝ 4 nUp - (1 / 2 : ℝ) • 1) * (toM ℝ 4 nDn - (1 / 2 : ℝ) • 1))
        - mu_up • toM ℝ 4 nUp - mu_dn • toM ℝ 4 nDn - (U / 4) • 1)) := by
  rw [gate_Coulomb_eq_exp, coulomb_hamiltonian_doc]

end real_forms

/-! ## the closed forms of `gates.py`, complex parameters (imaginary / complex time steps and couplings) -/

section complex_forms

/-- the data `YModel.Gates.hopping` unfolded: `II + (cosh(t·step) − 1)(nh + hn) + sinh(t·step)·cc` -/
theorem hopping_eval_complex (t step : ℂ) : hopping.eval Fn.complex 4 [t, step] =
    1 + (Complex.cosh (t * step) - 1) • toM ℂ 4 NH + Complex.sinh (t * step) • toM ℂ 4 K := by
  simp [ClosedForm.eval, hopping, Fn.complex, AExpr.eval, toM_I4, add_assoc]

/-- `H = −t·(c₁†c₂ + c₂†c₁)` -/
theorem hopping_hamiltonian_complex (t step : ℂ) : hopping.hamiltonian 4 [t, step] = -t • toM ℂ 4 K := by
  simp [ClosedForm.hamiltonian, hopping, AExpr.eval]

/-- **C11, hopping gate**: `gate_nn_hopping(t, step)` (as the JW matrix of two spinless sites) equals
`exp(−step·H)`, `H = −t·(c₁†c₂ + c₂†c₁)`, for all complex `t`, `step`. -/
theorem gate_hopping_eq_exp_complex (t step : ℂ) :
    hopping.eval Fn.complex 4 [t, step] = exp (-step • hopping.hamiltonian 4 [t, step]) := by
  rw [hopping_eval_complex, hopping_hamiltonian_complex, smul_smul, neg_mul_neg, mul_comm step t,
    ← gate_hopping_of_relation _ (K_cube ℂ) (t * step), K_sq, Complex.cosh, Complex.sinh, Complex.exp_eq_exp_ℂ]

theorem ising_eval_complex (J step : ℂ) : ising.eval Fn.complex 4 [J, step] =
    Complex.cosh (J * step) • (1 : Matrix (Fin 4) (Fin 4) ℂ) + (-Complex.sinh (J * step)) • toM ℂ 4 XX := by
  simp [ClosedForm.eval, ising, Fn.complex, AExpr.eval, toM_I4]

theorem ising_hamiltonian_complex (J step : ℂ) : ising.hamiltonian 4 [J, step] = J • toM ℂ 4 XX := by
  simp [ClosedForm.hamiltonian, ising, AExpr.eval]

/-- **C11, Ising gate**: `cosh(J·step)·II − sinh(J·step)·XX = exp(−step·J·XX)` for all complex `J`, `step`. -/
theorem gate_Ising_eq_exp_complex (J step : ℂ) :
    ising.eval Fn.complex 4 [J, step] = exp (-step • ising.hamiltonian 4 [J, step]) := by
  rw [ising_eval_complex, ising_hamiltonian_complex, smul_smul,
    show -step * J = -(J * step) by ring,
    ← gate_involution_of_relation _ (XX_sq ℂ) (-(J * step)), neg_neg,
    Complex.cosh, Complex.sinh, Complex.exp_eq_exp_ℂ]
  congr 2 <;> ring

theorem field_eval_complex (h step : ℂ) : field.eval Fn.complex 2 [h, step] =
    Complex.cosh (h * step) • (1 : Matrix (Fin 2) (Fin 2) ℂ) + Complex.sinh (h * step) • toM ℂ 2 X := by
  simp [ClosedForm.eval, field, Fn.complex, AExpr.eval, toM_I2]

theorem field_hamiltonian_complex (h step : ℂ) : field.hamiltonian 2 [h, step] = -h • toM ℂ 2 X := by
  simp [ClosedForm.hamiltonian, field, AExpr.eval]

/-- **C11, field gate**: `cosh(h·step)·I + sinh(h·step)·X = exp(−step·(−h·X))` for all complex `h`, `step`. -/
theorem gate_field_eq_exp_complex (h step : ℂ) :
    field.eval Fn.complex 2 [h, step] = exp (-step • field.hamiltonian 2 [h, step]) := by
  rw [field_eval_complex, field_hamiltonian_complex, smul_smul, neg_mul_neg, mul_comm step h,
    ← gate_involution_of_relation _ (X_sq ℂ) (h * step), Complex.cosh, Complex.sinh, Complex.exp_eq_exp_ℂ]

theorem occupation_eval_complex (mu step : ℂ) : occupation.eval Fn.complex 2 [mu, step] =
    1 + (Complex.exp (mu * step) - 1) • toM ℂ 2 nOcc := by
  simp [ClosedForm.eval, occupation, Fn.complex, AExpr.eval, toM_I2]

theorem occupation_hamiltonian_complex (mu step : ℂ) : occupation.hamiltonian 2 [mu, step] = -mu • toM ℂ 2 nOcc := by
  simp [ClosedForm.hamiltonian, occupation, AExpr.eval]

/-- **C11, occupation gate**: `I + n·(e^{μ·step} − 1) = exp(−step·(−μ·n))` for all complex `μ`, `step`. -/
theorem gate_occupation_eq_exp_complex (mu step : ℂ) :
    occupation.eval Fn.complex 2 [mu, step] = exp (-step • occupation.hamiltonian 2 [mu, step]) := by
  rw [occupation_eval_complex, occupation_hamiltonian_complex, ← gate_occupation_of_relation _ (n_idem ℂ), ← Complex.exp_eq_exp_ℂ]

theorem coulomb_eval_complex (mu_up mu_dn U step : ℂ) : coulomb.eval Fn.complex 4 [mu_up, mu_dn, U, step] =
    1 + (Complex.exp (step * (mu_dn + U / 2)) - 1) • toM ℂ 4 Pdn
      + (Complex.exp (step * (mu_up + U / 2)) - 1) • toM ℂ 4 Pup
      + (Complex.exp (step * (mu_up + mu_dn)) - 1) • toM ℂ 4 Pud := by
  simp [ClosedForm.eval, coulomb, Fn.complex, AExpr.eval, toM_I4, add_assoc]

/-- the Hamiltonian recorded in the model is the docstring's Hamiltonian **minus the constant `U/4`**
("We ignore a constant U / 4 in the above Hamiltonian"):
`U n↑n↓ − (μ↑ + U/2) n↑ − (μ↓ + U/2) n↓ = U (n↑ − ½)(n↓ − ½) − μ↑ n↑ − μ↓ n↓ − U/4`. -/
theorem coulomb_hamiltonian_doc_complex (mu_up mu_dn U step : ℂ) :
    coulomb.hamiltonian 4 [mu_up, mu_dn, U, step] =
      U • ((toM ℂ 4 nUp - (1 / 2 : ℂ) • 1) * (toM ℂ 4 nDn - (1 / 2 : ℂ) • 1))
        - mu_up • toM ℂ 4 nUp - mu_dn • toM ℂ 4 nDn - (U / 4) • 1 := by
  simp only [ClosedForm.hamiltonian, coulomb, AExpr.eval, List.map_cons, List.map_nil, List.sum_cons, List.sum_nil,
    List.getD_cons_zero, List.getD_cons_succ]
  simp only [sub_mul, mul_sub, smul_mul_assoc, mul_smul_comm, one_mul, mul_one, nUp_mul_nDn, smul_sub, smul_smul]
  match_scalars <;> ring

/-- **C11, Coulomb gate**: the closed form equals `exp(−step·H)` with
`H = U(n↑ − ½)(n↓ − ½) − μ↑n↑ − μ↓n↓ − U/4` (see `coulomb_hamiltonian_doc_complex`), for all complex parameters (imaginary / complex time steps and couplings). -/
theorem gate_Coulomb_eq_exp_complex (mu_up mu_dn U step : ℂ) :
    coulomb.eval Fn.complex 4 [mu_up, mu_dn, U, step]
      = exp (-step • coulomb.hamiltonian 4 [mu_up, mu_dn, U, step]) := by
  have hH : -step • coulomb.hamiltonian 4 [mu_up, mu_dn, U, step]
      = (step * (mu_dn + U / 2)) • toM ℂ 4 Pdn + (step * (mu_up + U / 2)) • toM ℂ 4 Pup
        + (step * (mu_up + mu_dn)) • toM ℂ 4 Pud := by
    simp only [ClosedForm.hamiltonian, coulomb, AExpr.eval, List.map_cons, List.map_nil, List.sum_cons,
      List.sum_nil, List.getD_cons_zero, List.getD_cons_succ]
    rw [nUpDn_eq, ← nUp_split, ← nDn_split]
    simp only [smul_add, smul_smul]
    match_scalars <;> ring
  rw [coulomb_eval_complex, hH, ← gate_Coulomb_of_relation _ _ _ (Pdn_idem ℂ) (Pup_idem ℂ) (Pud_idem ℂ)
    (Pdn_Pup ℂ) (Pdn_Pud ℂ) (Pup_Pdn ℂ) (Pup_Pud ℂ) (Pud_Pdn ℂ) (Pud_Pup ℂ), ← Complex.exp_eq_exp_ℂ]

/-- with the constant restored: the gate is `e^{step·U/4} · exp(−step·H_doc)`. -/
theorem gate_Coulomb_eq_exp_doc_complex (mu_up mu_dn U step : ℂ) :
    coulomb.eval Fn.complex 4 [mu_up, mu_dn, U, step]
      = exp (-step • (U • ((toM ℂ 4 nUp - (1 / 2 : ℂ) • 1) * (toM ℂ 4 nDn - (1 / 2 : ℂ) • 1))
        - mu_up • toM ℂ 4 nUp - mu_dn • toM ℂ 4 nDn - (U / 4) • 1)) := by
  rw [gate_Coulomb_eq_exp_complex, coulomb_hamiltonian_doc_complex]

end complex_forms

/-! ## the spectral theorem of the design, and well-formedness of the data -/

/-- **`exp_spectral`** (any complete normed `𝕂`-algebra, `𝕂 = ℝ` or `ℂ`): for pairwise orthogonal idempotents
`E₁ … E_m` with `Σ Eᵢ = 1`, `exp (Σ aᵢ • Eᵢ) = Σ exp(aᵢ) • Eᵢ`. -/
theorem exp_spectral {𝕂 𝔸 : Type*} [RCLike 𝕂] [NormedRing 𝔸] [NormedAlgebra 𝕂 𝔸] [CompleteSpace 𝔸]
    {ι : Type*} [Fintype ι] [DecidableEq ι] (E : ι → 𝔸) (a : ι → 𝕂)
    (hidem : ∀ i, E i * E i = E i) (horth : ∀ i j, i ≠ j → E i * E j = 0) (hsum : ∑ i, E i = 1) :
    exp (∑ i, a i • E i) = ∑ i, exp (a i) • E i :=
  GateExp.exp_spectral E a hidem horth hsum

/-- the idempotent lemma of DESIGN Appendix A, for `ℝ` and `ℂ` at once -/
theorem exp_smul_idem {𝕂 𝔸 : Type*} [RCLike 𝕂] [NormedRing 𝔸] [NormedAlgebra 𝕂 𝔸] [CompleteSpace 𝔸]
    (P : 𝔸) (hP : P * P = P) (a : 𝕂) : exp (a • P) = 1 + (exp a - 1) • P :=
  GateExp.exp_smul_idem P hP a

/-- every structure matrix of every closed form is square of the declared dimension -/
theorem closed_forms_wellformed :
    allForms.all (fun f => f.terms.all (fun t => isSquare f.dim t.mat)
      && f.ham.all (fun t => isSquare f.dim t.2.2) && decide (f.step < f.params.length)) = true := by
  decide

/-! ## non-vacuity -/

/-- the hopping matrix is not zero, and the casts are the same objects the driver prints -/
example : toM ℝ 4 K 1 2 = 1 ∧ toM ℝ 4 K 2 1 = 1 ∧ toM ℝ 4 NH 1 1 = 1 := by
  simp [toM, entry, K, NH]

/-- the hypotheses of `exp_spectral` are satisfiable by a non-trivial family: the four occupation projectors
of a spinful site -/
example : let E : Fin 4 → Matrix (Fin 4) (Fin 4) ℤ := ![toM ℤ 4 P00, toM ℤ 4 Pdn, toM ℤ 4 Pup, toM ℤ 4 Pud]
    (∀ i, E i * E i = E i) ∧ (∀ i j, i ≠ j → E i * E j = 0) ∧ ∑ i, E i = 1 := by
  decide

/-- the hypotheses of `gate_exp_via_eigh` are satisfiable with a non-diagonal unitary (`U = X`, `H = X Z X = −Z`) -/
example : toM ℝ 2 X * star (toM ℝ 2 X) = 1 ∧
    toM ℝ 2 X * Matrix.diagonal ![(1 : ℝ), -1] * star (toM ℝ 2 X) = Matrix.diagonal ![(-1 : ℝ), 1] := by
  have hs : star (toM ℝ 2 X) = toM ℝ 2 X := by
    ext i j; fin_cases i <;> fin_cases j <;> simp [toM, entry, X, Matrix.star_apply]
  rw [hs]
  constructor
  · exact X_sq ℝ
  · ext i j; fin_cases i <;> fin_cases j <;> simp [toM, entry, X, Matrix.mul_apply, Fin.sum_univ_two, Matrix.diagonal]

/-- a concrete value: at `step = 0` every closed form is the identity -/
example (t : ℝ) : hopping.eval Fn.real 4 [t, 0] = 1 := by
  rw [hopping_eval]; simp

/-- the hypotheses of `decompose_reconstructs` are satisfiable (`G = diag(4, 9)`, `U = V = 1`) -/
example : (Matrix.diagonal ![(4 : ℝ), 9] : Matrix (Fin 2) (Fin 2) ℝ)
    = 1 * Matrix.diagonal (fun i => ((![(4 : ℝ), 9] i : ℝ) : ℝ)) * 1 := by
  simp

end YModel.Gates
