import YProofs.Lemmas.MultiSum
/-!
# C01 (continued) — `tensordot` over ANY axes agrees with the dense contraction

`toDense_tensordot`: for all well-formed operands of every symmetry, every value ring, every rank, every
choice of contracted axes `inA`, `inB` (any number of legs, any positions, any order) and every sector
content (sectors present in one operand only, missing blocks, empty results), the dense array of the result
is the dense contraction

  `dense(c)[i ++ j] = Σ_μ dense(a)[assemble(i, μ)] * dense(b)[assemble(j, μ)]`

where `μ` runs over all dense multi-indices of the contracted legs, on ANY outer leg spaces `La`, `Lb` and
any common spaces `Ms` of the contracted legs that hold the sector tuples of `a`'s blocks.
`assemble` puts the outer index at the remaining axes and `μ` at the contracted axes (model definition used by
`tensordot` itself; `asmG` is its generic form, here also applied to the lists of leg spaces).
-/
namespace YModel
variable {R : Type} [CommRing R] {ms : List Nat}

/-- value of an operand at outer key `α`/position `p` and contracted sector tuple `γs`/position `q` -/
def opVal (T : Tensor R) (out inn : List Nat) (α : Key) (p : List Nat) (γs : Key) (q : List Nat) : R :=
  match T.get? (asmG T.rank out α inn γs) with
  | none => 0
  | some A => A.val (asmG T.rank out p inn q)

theorem toDense_asm (T : Tensor R) {out inn : List Nat} (h : AxSplit T.rank out inn)
    (La Ms : List LegSpace) (i μ : List Nat) :
    toDenseOn (asmG T.rank out La inn Ms) T (asmG T.rank out i inn μ) =
      if ((List.range out.length).all (fun k => (locAt La i k).isSome) &&
          (List.range inn.length).all (fun k => (locAt Ms μ k).isSome)) then
        opVal T out inn (keyAt La i out.length) (posAt La i out.length) (keyAt Ms μ inn.length) (posAt Ms μ inn.length)
      else 0 := by
  unfold toDenseOn
  rw [allLoc_asm h, keyAt_asm h, posAt_asm h]
  unfold opVal
  split
  · cases T.get? (asmG T.rank out (keyAt La i out.length) inn (keyAt Ms μ inn.length)) <;> rfl
  · rfl

/-- contribution of one block of `a` to the dense element `(α ++ β, p ++ r)` of the contraction -/
def hTermG (b : Tensor R) (ra : Nat) (outA inA outB inB : List Nat) (α β : Key) (p r : List Nat)
    (ka : Key × Block R) : R :=
  if pick ka.1 outA = α then
    ((allIdx (pick ka.2.shape inA)).map (fun q =>
      ka.2.val (asmG ra outA p inA q) * opVal b outB inB β r (pick ka.1 inA) q)).sum
  else 0

/-- contribution of one combination `d = (γs, Ds)` of sectors of the contracted legs -/
def gTermG (a b : Tensor R) (outA inA outB inB : List Nat) (α β : Key) (p r : List Nat) (d : Dec) : R :=
  ((allIdx d.2).map (fun q => opVal a outA inA α p d.1 q * opVal b outB inB β r d.1 q)).sum

/-- the dense element of the result as a sum over the blocks of `a` -/
theorem result_as_block_sum_gen {a b c : Tensor R} {inA inB : List Nat} (ha : WF ms a) (hb : WF ms b)
    (h : tensordot a b inA inB = .ok c)
    (α β : Key) (p r : List Nat)
    (hα : α.length = (complementAxes a.rank inA).length) (hβ : β.length = (complementAxes b.rank inB).length)
    (hp : p.length = (complementAxes a.rank inA).length) :
    (match c.get? (α ++ β) with
      | none => 0
      | some C => C.val (p ++ r)) =
    (a.blocks.map (hTermG b a.rank (complementAxes a.rank inA) inA (complementAxes b.rank inB) inB α β p r)).sum := by
  obtain ⟨_, hlen, hndA, hndB, hltA, hltB, _, hc, _⟩ := tensordot_ok_iff h
  have hB : AxSplit b.rank (complementAxes b.rank inB) inB := ⟨rfl, hndB, hltB⟩
  have hcb : c.blocks = (sortDedup keyLt ((dotCands a b inA inB).map (·.1))).map (fun k =>
      (k, sumBlocks (((dotCands a b inA inB).filter (fun kb => kb.1 == k)).map (·.2)))) := by rw [hc]
  rw [get?_sortDedup_map c _ _ hcb]
  have hval : (match (if α ++ β ∈ (dotCands a b inA inB).map (·.1) then
        some (sumBlocks (((dotCands a b inA inB).filter (fun kb => kb.1 == α ++ β)).map (·.2))) else none) with
      | none => (0 : R)
      | some C => C.val (p ++ r)) =
      (((dotCands a b inA inB).filter (fun kb => kb.1 == α ++ β)).map (fun cb => cb.2.val (p ++ r))).sum := by
    by_cases hk : α ++ β ∈ (dotCands a b inA inB).map (·.1)
    · rw [if_pos hk]
      obtain ⟨cb, hcb1, hcb2⟩ := List.mem_map.mp hk
      have hne : ((dotCands a b inA inB).filter (fun kb => kb.1 == α ++ β)).map (·.2) ≠ [] := by
        intro hnil
        have : cb ∈ (dotCands a b inA inB).filter (fun kb => kb.1 == α ++ β) := List.mem_filter.mpr ⟨hcb1, by simp [hcb2]⟩
        rw [List.map_eq_nil_iff] at hnil
        rw [hnil] at this; cases this
      simp only []
      rw [sumBlocks_val_list _ _ hne, List.map_map]
      rfl
    · rw [if_neg hk]
      have : (dotCands a b inA inB).filter (fun kb => kb.1 == α ++ β) = [] := by
        apply List.filter_eq_nil_iff.mpr
        intro cb hcb1 hcb2
        exact hk (List.mem_map.mpr ⟨cb, hcb1, by simpa using hcb2⟩)
      rw [this]; rfl
  rw [hval]
  unfold dotCands
  rw [List.map_flatMap, List.filter_flatMap, sum_flatMap_map]
  apply congrArg
  apply List.map_congr_left
  intro ka hka
  have hkal := (ha.keyRank ka hka).1
  simp only [List.map_map, List.filter_map, List.filter_filter, Function.comp_def]
  unfold hTermG
  by_cases hα' : pick ka.1 (complementAxes a.rank inA) = α
  · rw [if_pos hα']
    have hfilt : b.blocks.filter (fun kb =>
          (pick ka.1 (complementAxes a.rank inA) ++ pick kb.1 (complementAxes b.rank inB) == α ++ β) &&
          (pick ka.1 inA == pick kb.1 inB)) =
        b.blocks.filter (fun kb => kb.1 == asmG b.rank (complementAxes b.rank inB) β inB (pick ka.1 inA)) := by
      apply List.filter_congr
      intro kb hkb
      have hkbl := (hb.keyRank kb hkb).1
      rw [hα', Bool.eq_iff_iff]
      simp only [Bool.and_eq_true, beq_iff_eq, List.append_cancel_left_eq]
      constructor
      · rintro ⟨h1, h2⟩
        rw [← asmG_pick hB kb.1 hkbl, h1, ← h2]
      · intro h1
        rw [h1]
        exact ⟨pick_asmG_out hB _ _ hβ, (pick_asmG_in hB _ _ (by simp [pick_length, hlen])).symm⟩
    rw [hfilt, sum_filter_key b hb.sorted]
    unfold opVal
    cases hgb : b.get? (asmG b.rank (complementAxes b.rank inB) β inB (pick ka.1 inA)) with
    | none => simp
    | some B =>
      simp only [dotBlocks]
      rw [List.take_left' hp, List.drop_left' hp, sumIdx_eq_sum]
      rfl
  · rw [if_neg hα']
    have hfilt : b.blocks.filter (fun kb =>
          (pick ka.1 (complementAxes a.rank inA) ++ pick kb.1 (complementAxes b.rank inB) == α ++ β) &&
          (pick ka.1 inA == pick kb.1 inB)) = [] := by
      apply List.filter_eq_nil_iff.mpr
      intro kb _
      simp only [Bool.and_eq_true, beq_iff_eq, not_and]
      intro h1
      exfalso
      apply hα'
      exact List.append_inj_left h1 (by simp [pick_length, hα])
    rw [hfilt]; rfl

/-! ### combinations of sectors -/

theorem nodup_cons_product (C : List Charge) (K : List Key) (hC : C.Nodup) (hK : K.Nodup) :
    (C.flatMap (fun c => K.map (fun k => c :: k))).Nodup := by
  induction C with
  | nil => simp
  | cons c cs ih =>
    rw [List.nodup_cons] at hC
    rw [List.flatMap_cons, List.nodup_append]
    refine ⟨hK.map (fun x y hxy => by simpa using hxy), ih hC.2, ?_⟩
    intro x hx y hy hxy
    obtain ⟨k, _, rfl⟩ := List.mem_map.mp hx
    obtain ⟨c', hc', hy'⟩ := List.mem_flatMap.mp hy
    obtain ⟨k', _, rfl⟩ := List.mem_map.mp hy'
    simp only [List.cons.injEq] at hxy
    exact hC.1 (hxy.1 ▸ hc')

theorem sectorProduct_keys (Ms : List LegSpace) :
    (sectorProduct Ms).map (·.1) = match Ms with
      | [] => [[]]
      | M :: rest => (M.map (·.1)).flatMap (fun c => ((sectorProduct rest).map (·.1)).map (fun k => c :: k)) := by
  cases Ms with
  | nil => rfl
  | cons M rest =>
    simp only [sectorProduct, List.map_flatMap, List.map_map, List.flatMap_map, Function.comp_def]

theorem sectorProduct_keys_nodup (Ms : List LegSpace) (hnd : ∀ M ∈ Ms, (M.map (·.1)).Nodup) :
    ((sectorProduct Ms).map (·.1)).Nodup := by
  induction Ms with
  | nil => simp [sectorProduct]
  | cons M rest ih =>
    rw [sectorProduct_keys]
    exact nodup_cons_product _ _ (hnd M (by simp)) (ih (fun M' hM' => hnd M' (by simp [hM'])))

theorem mem_sectorProduct_length {Ms : List LegSpace} {d : Dec} (h : d ∈ sectorProduct Ms) :
    d.1.length = Ms.length ∧ d.2.length = Ms.length := by
  induction Ms generalizing d with
  | nil => simp [sectorProduct] at h; subst h; exact ⟨rfl, rfl⟩
  | cons M rest ih =>
    simp only [sectorProduct, List.mem_flatMap, List.mem_map] at h
    obtain ⟨_, _, d', hd', rfl⟩ := h
    obtain ⟨h1, h2⟩ := ih hd'
    simp [h1, h2]

/-- the sector tuple of a block on the contracted legs -/
def secOf (inn : List Nat) (ka : Key × Block R) : Dec := (pick ka.1 inn, pick ka.2.shape inn)

/-- **sector combinations ↔ blocks** -/
theorem sector_sum_eq_block_sum_gen {a b : Tensor R} {outA inA : List Nat} (outB inB : List Nat) (ha : WF ms a)
    (hA : AxSplit a.rank outA inA)
    (Ms : List LegSpace) (hMs : Ms.length = inA.length) (hnd : ∀ M ∈ Ms, (M.map (·.1)).Nodup)
    (hcover : ∀ ka ∈ a.blocks, secOf inA ka ∈ sectorProduct Ms)
    (α β : Key) (p r : List Nat) (hα : α.length = outA.length) :
    ((sectorProduct Ms).map (gTermG a b outA inA outB inB α β p r)).sum =
      (a.blocks.map (hTermG b a.rank outA inA outB inB α β p r)).sum := by
  have hkn := sectorProduct_keys_nodup Ms hnd
  rw [sum_filter_support a.blocks (fun ka => decide (pick ka.1 outA = α)) (hTermG b a.rank outA inA outB inB α β p r)
    (by intro ka _ hk; simp only [decide_eq_false_iff_not] at hk; simp [hTermG, hk])]
  have hH : ∀ ka ∈ a.blocks.filter (fun ka => decide (pick ka.1 outA = α)),
      hTermG b a.rank outA inA outB inB α β p r ka = gTermG a b outA inA outB inB α β p r (secOf inA ka) := by
    intro ka hka
    obtain ⟨hmem, hpk⟩ := List.mem_filter.mp hka
    have hpk' : pick ka.1 outA = α := by simpa using hpk
    have hkal := (ha.keyRank ka hmem).1
    have hkey : asmG a.rank outA α inA (pick ka.1 inA) = ka.1 := by
      rw [← hpk']; exact asmG_pick hA ka.1 hkal
    have hget : a.get? (asmG a.rank outA α inA (pick ka.1 inA)) = some ka.2 := by
      rw [hkey]
      exact Tensor.get?_of_mem ha.sorted (show (ka.1, ka.2) ∈ a.blocks from hmem)
    simp only [hTermG, hpk', if_true, gTermG, secOf, opVal, hget]
  rw [List.map_congr_left hH]
  have hmm : (List.map (fun ka => gTermG a b outA inA outB inB α β p r (secOf inA ka))
        (a.blocks.filter (fun ka => decide (pick ka.1 outA = α))))
      = List.map (gTermG a b outA inA outB inB α β p r)
          (List.map (secOf inA) (a.blocks.filter (fun ka => decide (pick ka.1 outA = α)))) := by
    rw [List.map_map]; rfl
  rw [hmm]
  have hbnd : a.blocks.Nodup := by
    have := nodup_of_pairwise_lt keyLt_strictTotal ha.sorted
    exact List.Nodup.of_map _ this
  apply sum_supported (sectorProduct Ms) _ (gTermG a b outA inA outB inB α β p r) (List.Nodup.of_map _ hkn)
  · refine List.Nodup.map_on ?_ (hbnd.filter _)
    intro x hx y hy hxy
    obtain ⟨hxm, hxt⟩ := List.mem_filter.mp hx
    obtain ⟨hym, hyt⟩ := List.mem_filter.mp hy
    have hxt' : pick x.1 outA = α := by simpa using hxt
    have hyt' : pick y.1 outA = α := by simpa using hyt
    have hγ : pick x.1 inA = pick y.1 inA := congrArg Prod.fst hxy
    have hk : x.1 = y.1 :=
      eq_of_pick_eq hA x.1 y.1 (ha.keyRank x hxm).1 (ha.keyRank y hym).1 (hxt'.trans hyt'.symm) hγ
    have h1 := Tensor.get?_of_mem ha.sorted (show (x.1, x.2) ∈ a.blocks from hxm)
    have h2 := Tensor.get?_of_mem ha.sorted (show (y.1, y.2) ∈ a.blocks from hym)
    rw [hk, h2] at h1
    cases x; cases y
    simp only at hk h1
    subst hk
    simp at h1
    rw [h1]
  · intro d hd
    obtain ⟨ka, hka, rfl⟩ := List.mem_map.mp hd
    exact hcover ka (List.mem_filter.mp hka).1
  · intro d hdM hdS
    unfold gTermG
    apply List.sum_eq_zero
    intro y hy
    obtain ⟨q, _, rfl⟩ := List.mem_map.mp hy
    have hnone : a.get? (asmG a.rank outA α inA d.1) = none := by
      cases hg : a.get? (asmG a.rank outA α inA d.1) with
      | none => rfl
      | some A =>
        exfalso
        have hmem := Tensor.get?_some_mem hg
        have hdl := (mem_sectorProduct_length hdM).1
        apply hdS
        apply List.mem_map.mpr
        refine ⟨(asmG a.rank outA α inA d.1, A), List.mem_filter.mpr ⟨hmem, ?_⟩, ?_⟩
        · simp only [decide_eq_true_eq]
          exact pick_asmG_out hA _ _ hα
        · have hsec := hcover _ hmem
          have hch : (secOf inA (asmG a.rank outA α inA d.1, A)).1 = d.1 := by
            simp only [secOf]
            exact pick_asmG_in hA _ _ (by rw [hdl, hMs])
          exact List.inj_on_of_nodup_map hkn hsec hdM hch
    simp [opVal, hnone]

/-- **`tensordot` agrees with the dense contraction**, for any contracted axes. -/
theorem toDense_tensordot {a b c : Tensor R} {inA inB : List Nat} (ha : WF ms a) (hb : WF ms b)
    (h : tensordot a b inA inB = .ok c)
    (La Lb Ms : List LegSpace)
    (hLa : La.length = (complementAxes a.rank inA).length) (hLb : Lb.length = (complementAxes b.rank inB).length)
    (hMs : Ms.length = inA.length) (hnd : ∀ M ∈ Ms, (M.map (·.1)).Nodup)
    (hcover : ∀ ka ∈ a.blocks, secOf inA ka ∈ sectorProduct Ms)
    (i j : List Nat) (hi : i.length = (complementAxes a.rank inA).length)
    (hj : j.length = (complementAxes b.rank inB).length) :
    toDenseOn (La ++ Lb) c (i ++ j) =
      sumIdx (Ms.map LegSpace.dim) (fun μ =>
        toDenseOn (asmG a.rank (complementAxes a.rank inA) La inA Ms) a (assemble a.rank (complementAxes a.rank inA) i inA μ) *
        toDenseOn (asmG b.rank (complementAxes b.rank inB) Lb inB Ms) b (assemble b.rank (complementAxes b.rank inB) j inB μ)) := by
  obtain ⟨_, hlen, hndA, hndB, hltA, hltB, _, hc, _⟩ := tensordot_ok_iff h
  have hA : AxSplit a.rank (complementAxes a.rank inA) inA := ⟨rfl, hndA, hltA⟩
  have hB : AxSplit b.rank (complementAxes b.rank inB) inB := ⟨rfl, hndB, hltB⟩
  generalize hoA : complementAxes a.rank inA = outA at *
  generalize hoB : complementAxes b.rank inB = outB at *
  have hcr : c.rank = outA.length + outB.length := by
    rw [hc]; simp only [Tensor.rank, List.length_append, pick_length, hoA, hoB]
  have hl : La.length = i.length := by omega
  -- left-hand side
  have hL : toDenseOn (La ++ Lb) c (i ++ j) =
      if ((List.range outA.length).all (fun k => (locAt La i k).isSome) &&
          (List.range outB.length).all (fun k => (locAt Lb j k).isSome)) then
        (match c.get? (keyAt La i outA.length ++ keyAt Lb j outB.length) with
          | none => 0
          | some C => C.val (posAt La i outA.length ++ posAt Lb j outB.length))
      else 0 := by
    unfold toDenseOn
    rw [hcr]
    have h1 := allLoc_append La Lb i j outB.length hl
    have h2 := keyAt_append La Lb i j outB.length hl
    have h3 := posAt_append La Lb i j outB.length hl
    rw [hLa] at h1 h2 h3
    rw [h1, h2, h3]
    split
    · cases c.get? (keyAt La i outA.length ++ keyAt Lb j outB.length) <;> rfl
    · rfl
  rw [hL, sumIdx_eq_sum]
  -- right-hand side: every term through the located sector tuple
  have hR : ∀ μ ∈ allIdx (Ms.map LegSpace.dim),
      toDenseOn (asmG a.rank outA La inA Ms) a (assemble a.rank outA i inA μ) *
        toDenseOn (asmG b.rank outB Lb inB Ms) b (assemble b.rank outB j inB μ) =
      if ((List.range outA.length).all (fun k => (locAt La i k).isSome) &&
          (List.range outB.length).all (fun k => (locAt Lb j k).isSome)) then
        liftAll (fun γs q =>
          opVal a outA inA (keyAt La i outA.length) (posAt La i outA.length) γs q *
          opVal b outB inB (keyAt Lb j outB.length) (posAt Lb j outB.length) γs q) (locAll Ms μ)
      else 0 := by
    intro μ hμ
    have hμl : μ.length = Ms.length := by rw [mem_allIdx_length hμ, List.length_map]
    rw [assemble_eq_asmG, assemble_eq_asmG, toDense_asm a hA, toDense_asm b hB, locAll_eq Ms μ hμl,
      ← hlen, ← hMs]
    by_cases h1 : (List.range outA.length).all (fun k => (locAt La i k).isSome) = true
    · by_cases h2 : (List.range outB.length).all (fun k => (locAt Lb j k).isSome) = true
      · by_cases h3 : (List.range Ms.length).all (fun k => (locAt Ms μ k).isSome) = true
        · simp only [h1, h2, h3, Bool.and_self, if_true, liftAll]
        · have h3' : (List.range Ms.length).all (fun k => (locAt Ms μ k).isSome) = false := by simpa using h3
          simp [h1, h2, h3', liftAll]
      · have h2' : (List.range outB.length).all (fun k => (locAt Lb j k).isSome) = false := by simpa using h2
        simp [h2']
    · have h1' : (List.range outA.length).all (fun k => (locAt La i k).isSome) = false := by simpa using h1
      simp [h1']
  rw [List.map_congr_left hR]
  by_cases hAB : ((List.range outA.length).all (fun k => (locAt La i k).isSome) &&
      (List.range outB.length).all (fun k => (locAt Lb j k).isSome)) = true
  · simp only [hAB, if_true]
    rw [multi_split]
    have hα : (keyAt La i outA.length).length = outA.length := by simp [keyAt]
    have hβ : (keyAt Lb j outB.length).length = outB.length := by simp [keyAt]
    have hp : (posAt La i outA.length).length = outA.length := by simp [posAt]
    have := result_as_block_sum_gen ha hb h (keyAt La i outA.length) (keyAt Lb j outB.length)
      (posAt La i outA.length) (posAt Lb j outB.length) (by rw [hoA]; exact hα) (by rw [hoB]; exact hβ) (by rw [hoA]; exact hp)
    rw [hoA, hoB] at this
    rw [this, ← sector_sum_eq_block_sum_gen outB inB ha hA Ms hMs hnd hcover _ _ _ _ hα]
    rfl
  · have hAB' : ((List.range outA.length).all (fun k => (locAt La i k).isSome) &&
        (List.range outB.length).all (fun k => (locAt Lb j k).isSome)) = false := by simpa using hAB
    simp only [hAB', Bool.false_eq_true, if_false]
    exact (List.sum_eq_zero (by intro y hy; obtain ⟨_, _, rfl⟩ := List.mem_map.mp hy; rfl)).symm

end YModel

namespace YModel
section examples
open SymGen
/-- rank-3 operands; contraction over two legs in non-canonical positions and order: `inA = [2, 0]`, `inB = [0, 2]` -/
def exP : Tensor Int :=
  { sym := sym_U1, s := [1, 1, -1], n := [0], isdiag := false,
    blocks := [([[0], [0], [0]], ⟨[1, 2, 1], fun i => 1 + i.getD 1 0⟩),
               ([[1], [0], [1]], ⟨[2, 2, 1], fun i => 10 * i.getD 0 0 + i.getD 1 0 + 3⟩)] }
def exQ : Tensor Int :=
  { sym := sym_U1, s := [1, 1, -1], n := [0], isdiag := false,
    blocks := [([[0], [0], [0]], ⟨[1, 3, 1], fun i => i.getD 1 0 + 2 * i.getD 2 0 + 1⟩),
               ([[1], [0], [1]], ⟨[1, 3, 2], fun i => i.getD 1 0 + 2 * i.getD 2 0 + 1⟩)] }
def exMs : List LegSpace := [[([0], 1), ([1], 1)], [([0], 1), ([1], 2)]]
/-- non-vacuity: all hypotheses of `toDense_tensordot` hold for this instance and both sides evaluate to 88 -/
example : WF [0] exP ∧ WF [0] exQ := ⟨wfCheck_sound (by decide), wfCheck_sound (by decide)⟩
example : (tensordot exP exQ [2, 0] [0, 2]).toOption.isSome = true := by decide
example : (∀ M ∈ exMs, (M.map (·.1)).Nodup) ∧ (∀ ka ∈ exP.blocks, secOf [2, 0] ka ∈ sectorProduct exMs) := by decide
example : (tensordot exP exQ [2, 0] [0, 2]).toOption.map
    (fun c => toDenseOn ([[([0], 2)]] ++ [[([0], 3)]]) c ([1] ++ [2])) = some 88 := by decide
example : sumIdx (exMs.map LegSpace.dim) (fun μ =>
    toDenseOn (asmG exP.rank (complementAxes exP.rank [2, 0]) [[([0], 2)]] [2, 0] exMs) exP
      (assemble exP.rank (complementAxes exP.rank [2, 0]) [1] [2, 0] μ) *
    toDenseOn (asmG exQ.rank (complementAxes exQ.rank [0, 2]) [[([0], 3)]] [0, 2] exMs) exQ
      (assemble exQ.rank (complementAxes exQ.rank [0, 2]) [2] [0, 2] μ)) = 88 := by decide
end examples
end YModel
