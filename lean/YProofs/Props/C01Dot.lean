import YProofs.Lemmas.DotHelpers
/-!
# C01 (continued) — `tensordot` agrees with the dense matrix product

`toDense_matmul`: for all well-formed operands `a` (rank `na+1`) and `b` (rank `nb+1`) of every symmetry,
every value ring, every sector content (also sectors present in only one operand, missing blocks, empty
results), contracting the LAST leg of `a` with the FIRST leg of `b` (the `@` form; other positions are
reached by transposition, `toDense_transpose`) gives a tensor whose dense array is the dense matrix product:

  `dense(c)[i ++ j] = Σ_m dense(a)[i ++ [m]] * dense(b)[m :: j]`

on ANY outer leg spaces `La`, `Lb` and any common space `M` of the contracted leg that holds the sectors of
both operands.  The proof splits the sum over the dense range of `M` along its sectors (`sum_split`), and
matches sectors with pairs of blocks using uniqueness of block keys.
-/
namespace YModel
variable {R : Type} [CommRing R] {ms : List Nat}

/-- the value the left operand contributes in sector `td = (γ, D)` at position `q` -/
def aVal (a : Tensor R) (α : Key) (p : List Nat) (γ : Charge) (q : Nat) : R :=
  match a.get? (α ++ [γ]) with
  | none => 0
  | some A => A.val (p ++ [q])

def bVal (b : Tensor R) (β : Key) (r : List Nat) (γ : Charge) (q : Nat) : R :=
  match b.get? (γ :: β) with
  | none => 0
  | some B => B.val (q :: r)

theorem toDense_left (a : Tensor R) (na : Nat) (hra : a.rank = na + 1) (La : List LegSpace) (M : LegSpace)
    (i : List Nat) (m : Nat) (hLa : La.length = na) (hi : i.length = na) :
    toDenseOn (La ++ [M]) a (i ++ [m]) =
      if (List.range na).all (fun k => (locAt La i k).isSome) then
        liftLoc (fun γ q => aVal a (keyAt La i na) (posAt La i na) γ q) (locate M m)
      else 0 := by
  unfold toDenseOn
  rw [hra]
  have hl : La.length = i.length := by omega
  have h1 := allLoc_append La [M] i [m] 1 hl
  have h2 := keyAt_append La [M] i [m] 1 hl
  have h3 := posAt_append La [M] i [m] 1 hl
  rw [hLa] at h1 h2 h3
  rw [h1, h2, h3, allLoc_single, keyAt_single, posAt_single]
  by_cases hA : (List.range na).all (fun k => (locAt La i k).isSome) = true
  · rw [hA, if_pos rfl]
    cases hloc : locate M m with
    | none => simp [liftLoc]
    | some tq =>
      obtain ⟨γ, q⟩ := tq
      simp only [liftLoc, aVal, Option.isSome_some, Bool.and_true, if_true, Option.getD_some]
      cases a.get? (keyAt La i na ++ [γ]) <;> rfl
  · have hA' : (List.range na).all (fun k => (locAt La i k).isSome) = false := by simpa using hA
    rw [hA']; simp

theorem toDense_right (b : Tensor R) (nb : Nat) (hrb : b.rank = nb + 1) (Lb : List LegSpace) (M : LegSpace)
    (j : List Nat) (m : Nat) (hLb : Lb.length = nb) (hj : j.length = nb) :
    toDenseOn (M :: Lb) b (m :: j) =
      if (List.range nb).all (fun k => (locAt Lb j k).isSome) then
        liftLoc (fun γ q => bVal b (keyAt Lb j nb) (posAt Lb j nb) γ q) (locate M m)
      else 0 := by
  unfold toDenseOn
  rw [hrb]
  have h1 := allLoc_append [M] Lb [m] j nb rfl
  have h2 := keyAt_append [M] Lb [m] j nb rfl
  have h3 := posAt_append [M] Lb [m] j nb rfl
  simp only [List.length_singleton, List.singleton_append] at h1 h2 h3
  rw [Nat.add_comm nb 1, h1, h2, h3, allLoc_single, keyAt_single, posAt_single]
  by_cases hB : (List.range nb).all (fun k => (locAt Lb j k).isSome) = true
  · rw [hB, if_pos rfl]
    cases hloc : locate M m with
    | none => simp [liftLoc]
    | some tq =>
      obtain ⟨γ, q⟩ := tq
      simp only [liftLoc, bVal, Option.isSome_some, Bool.true_and, hB, if_true, Option.getD_some, List.singleton_append]
      cases b.get? (γ :: keyAt Lb j nb) <;> rfl
  · have hB' : (List.range nb).all (fun k => (locAt Lb j k).isSome) = false := by simpa using hB
    rw [hB']; simp

end YModel

namespace YModel
variable {R : Type} [CommRing R] {ms : List Nat}

/-- contribution of one block of `a` to the dense element `(α ++ β, p ++ r)` of the product -/
def hTerm (b : Tensor R) (na : Nat) (α β : Key) (p r : List Nat) (ka : Key × Block R) : R :=
  if ka.1.take na = α then
    ((List.range (ka.2.shape.getD na 0)).map (fun q => ka.2.val (p ++ [q]) * bVal b β r (ka.1.getD na []) q)).sum
  else 0

/-- contribution of sector `td = (γ, D)` of the contracted leg -/
def gTerm (a b : Tensor R) (α β : Key) (p r : List Nat) (td : Charge × Nat) : R :=
  ((List.range td.2).map (fun q => aVal a α p td.1 q * bVal b β r td.1 q)).sum

theorem liftLoc_mul (ga gb : Charge → Nat → R) (o : Option (Charge × Nat)) :
    liftLoc ga o * liftLoc gb o = liftLoc (fun γ q => ga γ q * gb γ q) o := by
  cases o with
  | none => simp [liftLoc]
  | some tq => rfl

/-- the dense element of the result, as a sum over the blocks of `a` -/
theorem result_as_block_sum {a b c : Tensor R} {na nb : Nat} (ha : WF ms a) (hb : WF ms b)
    (hra : a.rank = na + 1) (hrb : b.rank = nb + 1) (h : tensordot a b [na] [0] = .ok c)
    (α β : Key) (p r : List Nat) (hα : α.length = na) (hβ : β.length = nb) (hp : p.length = na) (hr : r.length = nb) :
    (match c.get? (α ++ β) with
      | none => 0
      | some C => C.val (p ++ r)) = (a.blocks.map (hTerm b na α β p r)).sum := by
  obtain ⟨_, _, _, _, _, _, _, hc, _⟩ := tensordot_ok_iff h
  have hcb : c.blocks = (sortDedup keyLt ((dotCands a b [na] [0]).map (·.1))).map (fun k =>
      (k, sumBlocks (((dotCands a b [na] [0]).filter (fun kb => kb.1 == k)).map (·.2)))) := by rw [hc]
  rw [get?_sortDedup_map c _ _ hcb]
  -- in both cases the value is the sum over the candidates with this key
  have hval : (match (if α ++ β ∈ (dotCands a b [na] [0]).map (·.1) then
        some (sumBlocks (((dotCands a b [na] [0]).filter (fun kb => kb.1 == α ++ β)).map (·.2))) else none) with
      | none => (0 : R)
      | some C => C.val (p ++ r)) =
      (((dotCands a b [na] [0]).filter (fun kb => kb.1 == α ++ β)).map (fun cb => cb.2.val (p ++ r))).sum := by
    by_cases hk : α ++ β ∈ (dotCands a b [na] [0]).map (·.1)
    · rw [if_pos hk]
      obtain ⟨cb, hcb1, hcb2⟩ := List.mem_map.mp hk
      have hne : ((dotCands a b [na] [0]).filter (fun kb => kb.1 == α ++ β)).map (·.2) ≠ [] := by
        intro hnil
        have : cb ∈ (dotCands a b [na] [0]).filter (fun kb => kb.1 == α ++ β) := List.mem_filter.mpr ⟨hcb1, by simp [hcb2]⟩
        rw [List.map_eq_nil_iff] at hnil
        rw [hnil] at this; cases this
      simp only []
      rw [sumBlocks_val_list _ _ hne, List.map_map]
      rfl
    · rw [if_neg hk]
      have : (dotCands a b [na] [0]).filter (fun kb => kb.1 == α ++ β) = [] := by
        apply List.filter_eq_nil_iff.mpr
        intro cb hcb1 hcb2
        exact hk (List.mem_map.mpr ⟨cb, hcb1, by simpa using hcb2⟩)
      rw [this]; rfl
  rw [hval]
  -- rewrite the candidates as a flatMap over the blocks of `a`
  unfold dotCands
  rw [hra, hrb, complement_last, complement_first]
  rw [List.map_flatMap, List.filter_flatMap, sum_flatMap_map]
  apply congrArg
  apply List.map_congr_left
  intro ka hka
  have hkal := (ha.keyRank ka hka).1
  have hkas := (ha.keyRank ka hka).2
  rw [hra] at hkal hkas
  simp only [List.map_map, List.filter_map, List.filter_filter, Function.comp_def]
  unfold hTerm
  by_cases hα' : ka.1.take na = α
  · rw [if_pos hα']
    -- the partners are the blocks of `b` with key `γ :: β`
    have hfilt : b.blocks.filter (fun kb => (pick ka.1 (List.range na) ++ pick kb.1 ((List.range nb).map (· + 1)) == α ++ β) &&
          (pick ka.1 [na] == pick kb.1 [0])) = b.blocks.filter (fun kb => kb.1 == ka.1.getD na [] :: β) := by
      apply List.filter_congr
      intro kb hkb
      have hkbl := (hb.keyRank kb hkb).1
      rw [hrb] at hkbl
      rw [pick_range_take ka.1 na (by omega), pick_succ_tail kb.1 nb hkbl, hα', pick_single, pick_single]
      rw [Bool.eq_iff_iff]
      simp only [Bool.and_eq_true, beq_iff_eq, List.append_cancel_left_eq, List.cons.injEq, and_true]
      constructor
      · rintro ⟨h1, h2⟩
        rw [split_first kb.1 nb hkbl, h1]
        show kb.1.getD 0 default :: β = ka.1.getD na [] :: β
        rw [← h2]; rfl
      · intro h1
        rw [h1]
        exact ⟨rfl, rfl⟩
    rw [hfilt, sum_filter_key b hb.sorted]
    unfold bVal
    cases hgb : b.get? (ka.1.getD na [] :: β) with
    | none => simp
    | some B =>
      simp only [dotBlocks]
      rw [pick_single, List.length_range, List.take_left' hp, List.drop_left' hp]
      have : ka.2.shape.getD na default = ka.2.shape.getD na 0 := rfl
      rw [this, sumIdx_single]
      apply congrArg
      apply List.map_congr_left
      intro q _
      rw [assemble_last na p q hp]
      rw [assemble_first nb r q hr]
  · rw [if_neg hα']
    have hfilt : b.blocks.filter (fun kb => (pick ka.1 (List.range na) ++ pick kb.1 ((List.range nb).map (· + 1)) == α ++ β) &&
          (pick ka.1 [na] == pick kb.1 [0])) = [] := by
      apply List.filter_eq_nil_iff.mpr
      intro kb hkb
      have hkbl := (hb.keyRank kb hkb).1
      rw [hrb] at hkbl
      rw [pick_range_take ka.1 na (by omega), pick_succ_tail kb.1 nb hkbl]
      simp only [Bool.and_eq_true, beq_iff_eq, not_and]
      intro h1
      exfalso
      apply hα'
      have := List.append_inj_left h1 (by simp [List.length_take, hkal, hα])
      exact this
    rw [hfilt]; rfl

end YModel

namespace YModel
variable {R : Type} [CommRing R] {ms : List Nat}

/-- the sector of the contracted leg a block of `a` lives in -/
def sectorOfLast (na : Nat) (ka : Key × Block R) : Charge × Nat := (ka.1.getD na [], ka.2.shape.getD na 0)

/-- **sectors ↔ blocks**: the sum over the sectors of the contracted leg equals the sum over the blocks of `a` -/
theorem sector_sum_eq_block_sum {a b : Tensor R} {na : Nat} (ha : WF ms a) (hra : a.rank = na + 1)
    (M : LegSpace) (hMnd : (M.map (·.1)).Nodup) (hMa : ∀ kb ∈ a.blocks, sectorOfLast na kb ∈ M)
    (α β : Key) (p r : List Nat) (hα : α.length = na) :
    (M.map (gTerm a b α β p r)).sum = (a.blocks.map (hTerm b na α β p r)).sum := by
  -- right-hand side: only blocks with outer key α contribute
  rw [sum_filter_support a.blocks (fun ka => decide (ka.1.take na = α)) (hTerm b na α β p r)
    (by intro ka _ hk; simp only [decide_eq_false_iff_not] at hk; simp [hTerm, hk])]
  -- on those blocks the block term is the sector term of the block's sector
  have hH : ∀ ka ∈ a.blocks.filter (fun ka => decide (ka.1.take na = α)),
      hTerm b na α β p r ka = gTerm a b α β p r (sectorOfLast na ka) := by
    intro ka hka
    obtain ⟨hmem, htake⟩ := List.mem_filter.mp hka
    have htake' : ka.1.take na = α := by simpa using htake
    have hkal := (ha.keyRank ka hmem).1
    rw [hra] at hkal
    have hkey : ka.1 = α ++ [ka.1.getD na []] := by
      have := split_last ka.1 na hkal
      rw [htake'] at this; exact this
    have hget : a.get? (α ++ [ka.1.getD na []]) = some ka.2 := by
      apply Tensor.get?_of_mem ha.sorted
      rw [← hkey]
      exact hmem
    simp only [hTerm, htake', if_true, gTerm, sectorOfLast, aVal, hget]
  rw [List.map_congr_left hH]
  have hmm : (List.map (fun ka => gTerm a b α β p r (sectorOfLast na ka)) (a.blocks.filter (fun ka => decide (ka.1.take na = α))))
      = List.map (gTerm a b α β p r) (List.map (sectorOfLast na) (a.blocks.filter (fun ka => decide (ka.1.take na = α)))) := by
    rw [List.map_map]; rfl
  rw [hmm]
  -- now both sides are sums of gTerm: over M, and over the sectors of the matching blocks
  have hbnd : a.blocks.Nodup := by
    have := nodup_of_pairwise_lt keyLt_strictTotal ha.sorted
    exact List.Nodup.of_map _ this
  apply sum_supported M _ (gTerm a b α β p r) (List.Nodup.of_map _ hMnd)
  · -- the sectors of the matching blocks are distinct
    refine List.Nodup.map_on ?_ (hbnd.filter _)
    intro x hx y hy hxy
    obtain ⟨hxm, hxt⟩ := List.mem_filter.mp hx
    obtain ⟨hym, hyt⟩ := List.mem_filter.mp hy
    have hxt' : x.1.take na = α := by simpa using hxt
    have hyt' : y.1.take na = α := by simpa using hyt
    have hxl := (ha.keyRank x hxm).1
    have hyl := (ha.keyRank y hym).1
    rw [hra] at hxl hyl
    have hγ : x.1.getD na [] = y.1.getD na [] := by
      have := congrArg Prod.fst hxy
      simpa [sectorOfLast] using this
    have hk : x.1 = y.1 := by
      rw [split_last x.1 na hxl, split_last y.1 na hyl, hxt', hyt']
      show α ++ [x.1.getD na []] = α ++ [y.1.getD na []]
      rw [hγ]
    have h1 := Tensor.get?_of_mem ha.sorted (show (x.1, x.2) ∈ a.blocks from hxm)
    have h2 := Tensor.get?_of_mem ha.sorted (show (y.1, y.2) ∈ a.blocks from hym)
    rw [hk, h2] at h1
    cases x; cases y
    simp only at hk h1
    subst hk
    simp at h1
    rw [h1]
  · -- they are sectors of M
    intro td htd
    obtain ⟨ka, hka, rfl⟩ := List.mem_map.mp htd
    exact hMa ka (List.mem_filter.mp hka).1
  · -- sectors of M without a matching block contribute nothing
    intro td htdM htdS
    unfold gTerm
    apply List.sum_eq_zero
    intro y hy
    obtain ⟨q, _, rfl⟩ := List.mem_map.mp hy
    have hnone : a.get? (α ++ [td.1]) = none := by
      cases hg : a.get? (α ++ [td.1]) with
      | none => rfl
      | some A =>
        exfalso
        have hmem := Tensor.get?_some_mem hg
        apply htdS
        apply List.mem_map.mpr
        refine ⟨(α ++ [td.1], A), List.mem_filter.mpr ⟨hmem, by simp [← hα]⟩, ?_⟩
        -- its sector is in M with the same charge as td, hence equals td
        have hsec := hMa _ hmem
        have hch : (sectorOfLast na (α ++ [td.1], A)).1 = td.1 := by
          simp [sectorOfLast, List.getD, ← hα]
        have : sectorOfLast na (α ++ [td.1], A) = td := by
          have hinj := List.inj_on_of_nodup_map hMnd hsec htdM hch
          exact hinj
        exact this
    simp [aVal, hnone]

/-- **`tensordot` agrees with the dense matrix product** (`@` form: last leg of `a` with first leg of `b`). -/
theorem toDense_matmul {a b c : Tensor R} {na nb : Nat} (ha : WF ms a) (hb : WF ms b)
    (hra : a.rank = na + 1) (hrb : b.rank = nb + 1) (h : tensordot a b [na] [0] = .ok c)
    (La Lb : List LegSpace) (M : LegSpace) (hLa : La.length = na) (hLb : Lb.length = nb)
    (hMnd : (M.map (·.1)).Nodup) (hMa : ∀ kb ∈ a.blocks, sectorOfLast na kb ∈ M)
    (i j : List Nat) (hi : i.length = na) (hj : j.length = nb) :
    toDenseOn (La ++ Lb) c (i ++ j) =
      ((List.range M.dim).map (fun m => toDenseOn (La ++ [M]) a (i ++ [m]) * toDenseOn (M :: Lb) b (m :: j))).sum := by
  -- rank of the result
  have hcr : c.rank = na + nb := by
    obtain ⟨_, _, _, _, _, _, _, hc, _⟩ := tensordot_ok_iff h
    rw [hc]
    simp only [Tensor.rank, List.length_append, pick_length]
    rw [show a.s.length = na + 1 from hra, show b.s.length = nb + 1 from hrb, complement_last, complement_first]
    simp
  have hl : La.length = i.length := by omega
  -- left-hand side
  have hL : toDenseOn (La ++ Lb) c (i ++ j) =
      if ((List.range na).all (fun k => (locAt La i k).isSome) && (List.range nb).all (fun k => (locAt Lb j k).isSome)) then
        (match c.get? (keyAt La i na ++ keyAt Lb j nb) with
          | none => 0
          | some C => C.val (posAt La i na ++ posAt Lb j nb))
      else 0 := by
    unfold toDenseOn
    rw [hcr]
    have h1 := allLoc_append La Lb i j nb hl
    have h2 := keyAt_append La Lb i j nb hl
    have h3 := posAt_append La Lb i j nb hl
    rw [hLa] at h1 h2 h3
    rw [h1, h2, h3]
    by_cases hc0 : (((List.range na).all fun k => (locAt La i k).isSome) && (List.range nb).all fun k => (locAt Lb j k).isSome) = true
    · rw [if_pos hc0, if_pos hc0]
      cases c.get? (keyAt La i na ++ keyAt Lb j nb) <;> rfl
    · rw [if_neg hc0, if_neg hc0]
  rw [hL]
  -- right-hand side: every term through the located sector
  have hR : ∀ m, toDenseOn (La ++ [M]) a (i ++ [m]) * toDenseOn (M :: Lb) b (m :: j) =
      if ((List.range na).all (fun k => (locAt La i k).isSome) && (List.range nb).all (fun k => (locAt Lb j k).isSome)) then
        liftLoc (fun γ q => aVal a (keyAt La i na) (posAt La i na) γ q * bVal b (keyAt Lb j nb) (posAt Lb j nb) γ q) (locate M m)
      else 0 := by
    intro m
    rw [toDense_left a na hra La M i m hLa hi, toDense_right b nb hrb Lb M j m hLb hj]
    by_cases hA : (List.range na).all (fun k => (locAt La i k).isSome) = true
    · by_cases hB : (List.range nb).all (fun k => (locAt Lb j k).isSome) = true
      · simp only [hA, hB, if_true, Bool.and_self, liftLoc_mul]
      · have hB' : (List.range nb).all (fun k => (locAt Lb j k).isSome) = false := by simpa using hB
        simp [hA, hB']
    · have hA' : (List.range na).all (fun k => (locAt La i k).isSome) = false := by simpa using hA
      simp [hA']
  rw [List.map_congr_left (fun m _ => hR m)]
  by_cases hAB : ((List.range na).all (fun k => (locAt La i k).isSome) && (List.range nb).all (fun k => (locAt Lb j k).isSome)) = true
  · simp only [hAB, if_true]
    rw [sum_split]
    have hα : (keyAt La i na).length = na := by simp [keyAt]
    have hβ : (keyAt Lb j nb).length = nb := by simp [keyAt]
    have hp : (posAt La i na).length = na := by simp [posAt]
    have hr : (posAt Lb j nb).length = nb := by simp [posAt]
    rw [result_as_block_sum ha hb hra hrb h _ _ _ _ hα hβ hp hr]
    rw [← sector_sum_eq_block_sum ha hra M hMnd hMa _ _ _ _ hα]
    rfl
  · have hAB' : ((List.range na).all (fun k => (locAt La i k).isSome) && (List.range nb).all (fun k => (locAt Lb j k).isSome)) = false := by
      simpa using hAB
    simp only [hAB', Bool.false_eq_true, if_false]
    exact (List.sum_eq_zero (by intro y hy; obtain ⟨_, _, rfl⟩ := List.mem_map.mp hy; rfl)).symm

end YModel

namespace YModel
/-- non-vacuity: the hypotheses are met by `exA @ exB` on their natural leg spaces, and both sides evaluate -/
example : (tensordot exA exB [1] [0]).toOption.map (fun c => toDenseOn [[([0], 1), ([1], 2)], [([0], 1), ([1], 3)]] c [1, 0]) = some 10 := by decide
example : ((List.range (LegSpace.dim [([0], 2), ([1], 1)])).map (fun m =>
    toDenseOn [[([0], 1), ([1], 2)], [([0], 2), ([1], 1)]] exA [1, m] * toDenseOn [[([0], 2), ([1], 1)], [([0], 1), ([1], 3)]] exB [m, 0])).sum = 10 := by decide
example : ∀ kb ∈ exA.blocks, sectorOfLast 1 kb ∈ [([0], 2), ([1], 1)] := by decide
end YModel
