import YProofs.Props.C02
/-!
# C02 (continued) — `trace`, `add_leg`, `remove_leg` keep tensors well-formed

Same invariant `WF` as in `C02.lean`; here for the three remaining structural operations of the model:
partial trace (contracted charges cancel, so the total charge is unchanged), insertion of a
one-dimensional leg (its charge moves out of / into `n`) and its removal.
-/
namespace YModel
open Int
variable {R : Type} {ms : List Nat}

/-! ### list surgery -/

theorem getD_insert {α} (l : List α) (ax : Nat) (x d : α) (h : ax ≤ l.length) (i : Nat) :
    (l.take ax ++ [x] ++ l.drop ax).getD i d =
      if i < ax then l.getD i d else if i = ax then x else l.getD (i - 1) d := by
  simp only [List.getD_eq_getElem?_getD]
  have hl : (l.take ax).length = ax := by simp [List.length_take, Nat.min_eq_left h]
  by_cases h1 : i < ax
  · rw [if_pos h1, List.append_assoc, List.getElem?_append_left (by rw [hl]; exact h1)]
    simp [h1]
  · rw [if_neg h1]
    by_cases h2 : i = ax
    · subst h2
      rw [if_pos rfl, List.append_assoc, List.getElem?_append_right (by rw [hl])]
      simp [hl]
    · rw [if_neg h2, List.append_assoc, List.getElem?_append_right (by rw [hl]; omega), hl]
      have : i - ax = (i - ax - 1) + 1 := by omega
      rw [this, List.singleton_append, List.getElem?_cons_succ, List.getElem?_drop]
      congr 2; omega

theorem getD_eraseIdx {α} (l : List α) (ax : Nat) (d : α) (i : Nat) :
    (l.eraseIdx ax).getD i d = if i < ax then l.getD i d else l.getD (i + 1) d := by
  simp only [List.getD_eq_getElem?_getD, List.getElem?_eraseIdx]
  split <;> rfl

theorem keyLt_insert (t : Charge) : ∀ (ax : Nat) (k k' : Key), ax ≤ k.length → ax ≤ k'.length →
    keyLt (k.take ax ++ [t] ++ k.drop ax) (k'.take ax ++ [t] ++ k'.drop ax) = keyLt k k' := by
  intro ax
  induction ax with
  | zero => intro k k' _ _; simp [keyLt, lexLt_irrefl]
  | succ n ih =>
    intro k k' h1 h2
    cases k with
    | nil => simp at h1
    | cons c cs =>
      cases k' with
      | nil => simp at h2
      | cons c' cs' =>
        simp only [List.take_succ_cons, List.drop_succ_cons, List.cons_append, keyLt]
        have := ih cs cs' (by simpa using h1) (by simpa using h2)
        simp only [List.append_assoc] at this ⊢
        rw [this]

theorem keyLt_eraseIdx : ∀ (ax : Nat) (k k' : Key), ax < k.length → ax < k'.length →
    k.getD ax [] = k'.getD ax [] → keyLt (k.eraseIdx ax) (k'.eraseIdx ax) = keyLt k k' := by
  intro ax
  induction ax with
  | zero =>
    intro k k' h1 h2 he
    cases k with
    | nil => simp at h1
    | cons c cs =>
      cases k' with
      | nil => simp at h2
      | cons c' cs' =>
        simp only [List.getD_cons_zero] at he
        subst he
        simp [keyLt, lexLt_irrefl]
  | succ n ih =>
    intro k k' h1 h2 he
    cases k with
    | nil => simp at h1
    | cons c cs =>
      cases k' with
      | nil => simp at h2
      | cons c' cs' =>
        simp only [List.getD_cons_succ] at he
        simp only [List.eraseIdx_cons_succ, keyLt]
        rw [ih cs cs' (by simpa using h1) (by simpa using h2) he]

theorem rawComp_eraseIdx : ∀ (ax : Nat) (k : Key) (s : List Int) (j : Nat), k.length = s.length → ax < k.length →
    rawComp k s j = rawComp (k.eraseIdx ax) (s.eraseIdx ax) j + s.getD ax 1 * (k.getD ax []).getD j 0 := by
  intro ax
  induction ax with
  | zero =>
    intro k s j hl h
    cases k with
    | nil => simp at h
    | cons c cs =>
      cases s with
      | nil => simp at hl
      | cons x xs => simp only [List.eraseIdx_cons_zero, rawComp_cons, List.getD_cons_zero]; ring
  | succ n ih =>
    intro k s j hl h
    cases k with
    | nil => simp at h
    | cons c cs =>
      cases s with
      | nil => simp at hl
      | cons x xs =>
        simp only [List.eraseIdx_cons_succ, rawComp_cons, List.getD_cons_succ]
        rw [ih cs xs j (by simpa using hl) (by simpa using h)]; ring

/-! ### add_leg -/

theorem addLeg_ok_iff {a c : Tensor R} {axis : Nat} {sl : Int} {t : Charge} (h : addLeg a axis sl t = .ok c) :
    a.isdiag = false ∧ axis ≤ a.rank ∧ (sl = 1 ∨ sl = -1) ∧ t.length = a.sym.nsym ∧
    c = { a with s := a.s.take axis ++ [sl] ++ a.s.drop axis,
                 n := a.sym.fuse [a.n, a.sym.fuse [t] [sl] sl] [1, sl] 1,
                 blocks := a.blocks.map (fun kb =>
                   (kb.1.take axis ++ [a.sym.fuse [t] [sl] sl] ++ kb.1.drop axis,
                    ⟨kb.2.shape.take axis ++ [1] ++ kb.2.shape.drop axis,
                     fun i => kb.2.val (i.take axis ++ i.drop (axis + 1))⟩)) } := by
  unfold addLeg at h
  split at h; · cases h
  split at h; · cases h
  split at h; · cases h
  split at h; · cases h
  rename_i h1 h2 h3 h4
  cases h
  exact ⟨by simpa using h1, by omega, Decidable.not_not.mp h3, by simpa using h4, rfl⟩

/-- the selection rule after inserting a leg of (canonical) charge `t'` and signature `sl` at `axis` -/
theorem addLeg_rule {d : SymDef} (hd : WSym d ms) (k : Key) (s : List Int) (ax : Nat) (sl : Int) (t' : Charge)
    (hk : k.length = s.length) :
    d.fuse (k.take ax ++ [t'] ++ k.drop ax) (s.take ax ++ [sl] ++ s.drop ax) 1
      = d.fuse [d.fuse k s 1, t'] [1, sl] 1 := by
  apply charge_ext _ _ (by rw [fuse_length hd, fuse_length hd])
  intro j hj
  rw [fuse_length hd] at hj
  rw [fuse_eq_canon d ms hd, fuse_eq_canon d ms hd, fuse_eq_canon d ms hd,
    canonFuse_getD, canonFuse_getD, if_pos hj, if_pos hj]
  unfold canonComp
  rw [rawComp_cons, rawComp_cons, rawComp_nil, canonFuse_getD, if_pos hj]
  unfold canonComp
  have hsplit : rawComp k s j = rawComp (k.take ax) (s.take ax) j + rawComp (k.drop ax) (s.drop ax) j := by
    conv_lhs => rw [← List.take_append_drop ax k, ← List.take_append_drop ax s]
    exact rawComp_append _ _ _ _ _ (by simp [List.length_take, hk])
  rw [rawComp_append _ _ _ _ _ (by simp [List.length_take, hk]),
    rawComp_append _ _ _ _ _ (by simp [List.length_take, hk]), rawComp_cons, rawComp_nil, hsplit]
  simp only [Int.one_mul]
  rw [Int.emod_add_emod]
  congr 1; ring

theorem wf_addLeg {a c : Tensor R} {axis : Nat} {sl : Int} {t : Charge}
    (hd : WSym a.sym ms) (ha : WF ms a) (h : addLeg a axis sl t = .ok c) : WF ms c := by
  obtain ⟨_, hax, hsl, _, hc⟩ := addLeg_ok_iff h
  have hrank : c.rank = a.rank + 1 := by
    rw [hc]; simp only [Tensor.rank, List.length_append, List.length_take, List.length_drop, List.length_singleton]
    unfold Tensor.rank at hax; omega
  have hcan : isCanonical ms (a.sym.fuse [t] [sl] sl) = true := fuse_range hd _ _ _
  refine ⟨?_, ?_, ?_, ?_, ?_, ?_, ?_, ?_⟩
  · intro x hx
    rw [hc] at hx
    simp only [List.mem_append, List.mem_singleton] at hx
    rcases hx with (hx | hx) | hx
    · exact ha.sig x (List.mem_of_mem_take hx)
    · rw [hx]; exact hsl
    · exact ha.sig x (List.mem_of_mem_drop hx)
  · rw [hc]; exact fuse_range hd _ _ _
  · rw [hc]
    simp only [Tensor.keys, List.map_map, Function.comp_def]
    rw [List.pairwise_map]
    have hs := ha.sorted
    simp only [Tensor.keys, List.pairwise_map] at hs
    refine hs.imp_of_mem ?_
    intro x y hx hy hxy
    rw [keyLt_insert _ _ _ _ (by rw [(ha.keyRank x hx).1]; exact hax) (by rw [(ha.keyRank y hy).1]; exact hax)]
    exact hxy
  · intro x hx
    rw [hc] at hx
    simp only [List.mem_map] at hx
    obtain ⟨kb, hkb, rfl⟩ := hx
    obtain ⟨h1, h2⟩ := ha.keyRank kb hkb
    rw [hrank]
    simp only [List.length_append, List.length_take, List.length_drop, List.length_singleton, h1, h2]
    omega
  · intro x hx ch hch
    rw [hc] at hx
    simp only [List.mem_map] at hx
    obtain ⟨kb, hkb, rfl⟩ := hx
    simp only [List.mem_append, List.mem_singleton] at hch
    rcases hch with (hch | hch) | hch
    · exact ha.canon kb hkb ch (List.mem_of_mem_take hch)
    · rw [hch]; exact hcan
    · exact ha.canon kb hkb ch (List.mem_of_mem_drop hch)
  · intro x hx
    rw [hc] at hx ⊢
    simp only [List.mem_map] at hx
    obtain ⟨kb, hkb, rfl⟩ := hx
    show a.sym.fuse _ _ 1 = _
    rw [addLeg_rule hd kb.1 a.s axis sl _ (ha.keyRank kb hkb).1]
    have := ha.rule kb hkb
    unfold chargeOfKey at this
    rw [this]
  · intro x hx dd hdd
    rw [hc] at hx
    simp only [List.mem_map] at hx
    obtain ⟨kb, hkb, rfl⟩ := hx
    simp only [List.mem_append, List.mem_singleton] at hdd
    rcases hdd with (hdd | hdd) | hdd
    · exact ha.dimsPos kb hkb dd (List.mem_of_mem_take hdd)
    · omega
    · exact ha.dimsPos kb hkb dd (List.mem_of_mem_drop hdd)
  · intro x hx y hy i hxy
    rw [hc] at hx hy
    simp only [List.mem_map] at hx hy
    obtain ⟨kx, hkx, rfl⟩ := hx
    obtain ⟨ky, hky, rfl⟩ := hy
    obtain ⟨x1, x2⟩ := ha.keyRank kx hkx
    obtain ⟨y1, y2⟩ := ha.keyRank ky hky
    simp only at hxy ⊢
    rw [getD_insert _ _ _ _ (by rw [x1]; exact hax), getD_insert _ _ _ _ (by rw [y1]; exact hax)] at hxy
    rw [getD_insert _ _ _ _ (by rw [x2]; exact hax), getD_insert _ _ _ _ (by rw [y2]; exact hax)]
    by_cases h1 : i < axis
    · simp only [if_pos h1] at hxy ⊢; exact ha.dimsCons kx hkx ky hky i hxy
    · simp only [if_neg h1] at hxy ⊢
      by_cases h2 : i = axis
      · simp only [if_pos h2]
      · simp only [if_neg h2] at hxy ⊢; exact ha.dimsCons kx hkx ky hky (i - 1) hxy

/-- the new leg carries `t` (reduced to canonical range) and the total charge absorbs it -/
theorem charge_addLeg {a c : Tensor R} {axis : Nat} {sl : Int} {t : Charge} (h : addLeg a axis sl t = .ok c) :
    c.n = a.sym.fuse [a.n, a.sym.fuse [t] [sl] sl] [1, sl] 1 ∧ c.s = a.s.take axis ++ [sl] ++ a.s.drop axis ∧ c.sym = a.sym := by
  obtain ⟨_, _, _, _, hc⟩ := addLeg_ok_iff h
  rw [hc]; exact ⟨rfl, rfl, rfl⟩

/-! ### remove_leg -/

theorem lexLt_strictTotal : StrictTotal lexLt := ⟨lexLt_irrefl, lexLt_trans, lexLt_trichotomy⟩

theorem removeLeg_ok_iff {a c : Tensor R} {axis : Nat} (h : removeLeg a axis = .ok c) :
    a.isdiag = false ∧ axis < a.rank ∧ (∀ kb ∈ a.blocks, kb.2.shape.getD axis 0 = 1) ∧
    (sortDedup lexLt (a.blocks.map (fun kb => kb.1.getD axis []))).length ≤ 1 ∧
    c = { a with s := a.s.eraseIdx axis,
                 n := a.sym.fuse [a.n, (sortDedup lexLt (a.blocks.map (fun kb => kb.1.getD axis []))).headD
                        (List.replicate a.sym.nsym 0)] [1, -(a.s.getD axis 1)] 1,
                 blocks := a.blocks.map (fun kb =>
                   (kb.1.eraseIdx axis,
                    ⟨kb.2.shape.eraseIdx axis, fun i => kb.2.val (i.take axis ++ [0] ++ i.drop axis)⟩)) } := by
  unfold removeLeg at h
  split at h; · cases h
  split at h; · cases h
  split at h; · cases h
  simp only at h
  split at h; · cases h
  rename_i h1 h2 h3 h4
  cases h
  refine ⟨by simpa using h1, by omega, ?_, by omega, rfl⟩
  intro kb hkb
  have := h3
  simp only [Decidable.not_not, List.all_eq_true, beq_iff_eq] at this
  exact this kb hkb

theorem removeLeg_rule {d : SymDef} (hd : WSym d ms) (k : Key) (s : List Int) (ax : Nat)
    (hk : k.length = s.length) (hax : ax < k.length) :
    d.fuse (k.eraseIdx ax) (s.eraseIdx ax) 1
      = d.fuse [d.fuse k s 1, k.getD ax []] [1, -(s.getD ax 1)] 1 := by
  apply charge_ext _ _ (by rw [fuse_length hd, fuse_length hd])
  intro j hj
  rw [fuse_length hd] at hj
  rw [fuse_eq_canon d ms hd, fuse_eq_canon d ms hd, fuse_eq_canon d ms hd,
    canonFuse_getD, canonFuse_getD, if_pos hj, if_pos hj]
  unfold canonComp
  rw [rawComp_cons, rawComp_cons, rawComp_nil, canonFuse_getD, if_pos hj]
  unfold canonComp
  rw [rawComp_eraseIdx ax k s j hk hax]
  simp only [Int.one_mul]
  rw [Int.emod_add_emod]
  congr 1; ring

theorem wf_removeLeg {a c : Tensor R} {axis : Nat}
    (hd : WSym a.sym ms) (ha : WF ms a) (h : removeLeg a axis = .ok c) : WF ms c := by
  obtain ⟨_, hax, hone, hts, hc⟩ := removeLeg_ok_iff h
  have hrank : c.rank = a.rank - 1 := by
    rw [hc]; simp only [Tensor.rank, List.length_eraseIdx]
    unfold Tensor.rank at hax; rw [if_pos hax]
  -- all blocks carry the same charge on the removed leg
  have hcommon : ∀ kb ∈ a.blocks, kb.1.getD axis [] =
      (sortDedup lexLt (a.blocks.map (fun kb => kb.1.getD axis []))).headD (List.replicate a.sym.nsym 0) := by
    intro kb hkb
    have hm : kb.1.getD axis [] ∈ sortDedup lexLt (a.blocks.map (fun kb => kb.1.getD axis [])) :=
      (mem_sortDedup lexLt_strictTotal _ _).mpr (List.mem_map.mpr ⟨kb, hkb, rfl⟩)
    generalize sortDedup lexLt (a.blocks.map (fun kb => kb.1.getD axis [])) = ts at hm hts
    match ts, hm, hts with
    | [x], hm, _ => simpa using hm
    | _ :: _ :: _, _, hts => simp at hts
  refine ⟨?_, ?_, ?_, ?_, ?_, ?_, ?_, ?_⟩
  · intro x hx
    rw [hc] at hx
    exact ha.sig x (List.mem_of_mem_eraseIdx hx)
  · rw [hc]; exact fuse_range hd _ _ _
  · rw [hc]
    simp only [Tensor.keys, List.map_map, Function.comp_def]
    rw [List.pairwise_map]
    have hs := ha.sorted
    simp only [Tensor.keys, List.pairwise_map] at hs
    refine hs.imp_of_mem ?_
    intro x y hx hy hxy
    rw [keyLt_eraseIdx _ _ _ (by rw [(ha.keyRank x hx).1]; exact hax) (by rw [(ha.keyRank y hy).1]; exact hax)
      (by rw [hcommon x hx, hcommon y hy])]
    exact hxy
  · intro x hx
    rw [hc] at hx
    simp only [List.mem_map] at hx
    obtain ⟨kb, hkb, rfl⟩ := hx
    obtain ⟨h1, h2⟩ := ha.keyRank kb hkb
    rw [hrank]
    simp only [List.length_eraseIdx, h1, h2, if_pos hax]
    exact ⟨trivial, trivial⟩
  · intro x hx ch hch
    rw [hc] at hx
    simp only [List.mem_map] at hx
    obtain ⟨kb, hkb, rfl⟩ := hx
    exact ha.canon kb hkb ch (List.mem_of_mem_eraseIdx hch)
  · intro x hx
    rw [hc] at hx ⊢
    simp only [List.mem_map] at hx
    obtain ⟨kb, hkb, rfl⟩ := hx
    show a.sym.fuse _ _ 1 = _
    obtain ⟨h1, _⟩ := ha.keyRank kb hkb
    rw [removeLeg_rule hd kb.1 a.s axis h1 (by rw [h1]; exact hax), hcommon kb hkb]
    have := ha.rule kb hkb
    unfold chargeOfKey at this
    rw [this]
  · intro x hx dd hdd
    rw [hc] at hx
    simp only [List.mem_map] at hx
    obtain ⟨kb, hkb, rfl⟩ := hx
    exact ha.dimsPos kb hkb dd (List.mem_of_mem_eraseIdx hdd)
  · intro x hx y hy i hxy
    rw [hc] at hx hy
    simp only [List.mem_map] at hx hy
    obtain ⟨kx, hkx, rfl⟩ := hx
    obtain ⟨ky, hky, rfl⟩ := hy
    simp only at hxy ⊢
    rw [getD_eraseIdx, getD_eraseIdx] at hxy ⊢
    by_cases h1 : i < axis
    · simp only [if_pos h1] at hxy ⊢; exact ha.dimsCons kx hkx ky hky i hxy
    · simp only [if_neg h1] at hxy ⊢; exact ha.dimsCons kx hkx ky hky (i + 1) hxy

/-- the charge of the removed leg moves into the total charge -/
theorem charge_removeLeg {a c : Tensor R} {axis : Nat} (h : removeLeg a axis = .ok c) :
    c.s = a.s.eraseIdx axis ∧ c.sym = a.sym ∧
    ∀ kb ∈ a.blocks, c.n = a.sym.fuse [a.n, kb.1.getD axis []] [1, -(a.s.getD axis 1)] 1 := by
  obtain ⟨_, _, _, hts, hc⟩ := removeLeg_ok_iff h
  refine ⟨by rw [hc], by rw [hc], ?_⟩
  intro kb hkb
  have hm : kb.1.getD axis [] ∈ sortDedup lexLt (a.blocks.map (fun kb => kb.1.getD axis [])) :=
    (mem_sortDedup lexLt_strictTotal _ _).mpr (List.mem_map.mpr ⟨kb, hkb, rfl⟩)
  rw [hc]
  show a.sym.fuse _ _ 1 = _
  generalize sortDedup lexLt (a.blocks.map (fun kb => kb.1.getD axis [])) = ts at hm hts
  match ts, hm, hts with
  | [x], hm, _ => simp only [List.mem_singleton] at hm; rw [hm]; rfl
  | _ :: _ :: _, _, hts => simp at hts


/-! ### trace -/

/-- candidate blocks of a partial trace: one per block whose two traced charge tuples coincide -/
def traceCands [Zero R] [Add R] (a : Tensor R) (in0 in1 : List Nat) : List (Key × Block R) :=
  let out := complementAxes a.rank (in0 ++ in1)
  (a.blocks.filter (fun kb => pick kb.1 in0 == pick kb.1 in1)).map (fun kb => (pick kb.1 out,
        (⟨pick kb.2.shape out, fun i =>
            sumIdx (pick kb.2.shape in0) (fun c =>
              kb.2.val ((List.range a.rank).map (fun p =>
                let q := out.idxOf p
                if q < out.length then i.getD q 0
                else
                  let q0 := in0.idxOf p
                  if q0 < in0.length then c.getD q0 0 else c.getD (in1.idxOf p) 0)))⟩ : Block R)))

theorem trace_ok_iff [Zero R] [Add R] {a c : Tensor R} {in0 in1 : List Nat} (h : trace a in0 in1 = .ok c) :
    in0.length = in1.length ∧ (in0 ++ in1).Nodup ∧ (∀ p ∈ in0 ++ in1, p < a.rank) ∧
    pick a.s in0 = (pick a.s in1).map (fun x => -x) ∧
    (c = a ∨
     c = { sym := a.sym, s := pick a.s (complementAxes a.rank (in0 ++ in1)), n := a.n, isdiag := false,
           blocks := (sortDedup keyLt ((traceCands a in0 in1).map (·.1))).map (fun k =>
              (k, sumBlocks (((traceCands a in0 in1).filter (fun kb => kb.1 == k)).map (·.2)))) }) := by
  unfold trace at h
  split at h; · cases h
  split at h; · cases h
  rename_i h1 h2
  simp only [not_or, Decidable.not_not, nodupB, decide_eq_true_eq, List.all_eq_true] at h1
  obtain ⟨h1a, h1b, h1c⟩ := h1
  simp only [ne_eq, Decidable.not_not] at h2
  refine ⟨h1a, h1b, fun p hp => by simpa using h1c p hp, h2, ?_⟩
  split at h
  · cases h; exact Or.inl rfl
  · simp only at h
    split at h; · cases h
    cases h
    exact Or.inr rfl

theorem mem_traceCands [Zero R] [Add R] {a : Tensor R} {in0 in1 : List Nat} {kb : Key × Block R}
    (h : kb ∈ traceCands a in0 in1) :
    ∃ ka ∈ a.blocks, pick ka.1 in0 = pick ka.1 in1 ∧
      kb.1 = pick ka.1 (complementAxes a.rank (in0 ++ in1)) ∧
      kb.2.shape = pick ka.2.shape (complementAxes a.rank (in0 ++ in1)) := by
  unfold traceCands at h
  simp only [List.mem_map, List.mem_filter, beq_iff_eq] at h
  obtain ⟨ka, ⟨hka, hm⟩, rfl⟩ := h
  exact ⟨ka, hka, hm, rfl, rfl⟩

/-- **the traced legs drop out of the selection rule**: equal charges with opposite signatures cancel -/
theorem trace_rule {d : SymDef} (hd : WSym d ms) (k : Key) (s : List Int) (out in0 in1 : List Nat)
    (hk : k.length = s.length) (hp : (out ++ (in0 ++ in1)).Perm (List.range k.length))
    (hm : pick k in0 = pick k in1) (hs : pick s in0 = (pick s in1).map (fun x => -x)) :
    d.fuse (pick k out) (pick s out) 1 = d.fuse k s 1 := by
  apply charge_ext _ _ (by rw [fuse_length hd, fuse_length hd])
  intro j hj
  rw [fuse_length hd] at hj
  rw [fuse_eq_canon d ms hd, fuse_eq_canon d ms hd, canonFuse_getD, canonFuse_getD, if_pos hj, if_pos hj]
  unfold canonComp
  have e : rawComp k s j = rawComp (pick k out) (pick s out) j +
      (rawComp (pick k in0) (pick s in0) j + rawComp (pick k in1) (pick s in1) j) := by
    rw [← rawComp_perm k s (out ++ (in0 ++ in1)) j hk hp, pick_append, pick_append, pick_append, pick_append,
      rawComp_append _ _ _ _ _ (by simp [pick_length]), rawComp_append _ _ _ _ _ (by simp [pick_length])]
  have ec : rawComp (pick k in0) (pick s in0) j = - rawComp (pick k in1) (pick s in1) j := by
    rw [hm, hs, rawComp_neg_sigs]
  rw [e, ec]; congr 1; ring

theorem wf_trace [Zero R] [Add R] {a c : Tensor R} {in0 in1 : List Nat}
    (hd : WSym a.sym ms) (ha : WF ms a) (h : trace a in0 in1 = .ok c) : WF ms c := by
  obtain ⟨_, hnd, hlt, hsig, hc | hc⟩ := trace_ok_iff h
  · rw [hc]; exact ha
  have hsrc : ∀ x ∈ c.blocks, ∃ kb ∈ traceCands a in0 in1, x.1 = kb.1 ∧ x.2.shape = kb.2.shape := by
    intro x hx
    rw [hc] at hx
    simp only [List.mem_map] at hx
    obtain ⟨k, hk, rfl⟩ := hx
    have hk' := (mem_sortDedup keyLt_strictTotal k _).mp hk
    obtain ⟨kb, hkb, rfl⟩ := List.mem_map.mp hk'
    cases hf : (traceCands a in0 in1).filter (fun y => y.1 == kb.1) with
    | nil =>
      exfalso
      have : kb ∈ (traceCands a in0 in1).filter (fun y => y.1 == kb.1) := List.mem_filter.mpr ⟨hkb, by simp⟩
      rw [hf] at this; cases this
    | cons y ys =>
      have hy : y ∈ (traceCands a in0 in1).filter (fun z => z.1 == kb.1) := by rw [hf]; simp
      obtain ⟨hy1, hy2⟩ := List.mem_filter.mp hy
      refine ⟨y, hy1, ?_, ?_⟩
      · simpa using (beq_iff_eq.mp hy2).symm
      · simp [sumBlocks_shape]
  have hsrc' : ∀ x ∈ c.blocks, ∃ ka ∈ a.blocks, pick ka.1 in0 = pick ka.1 in1 ∧
      x.1 = pick ka.1 (complementAxes a.rank (in0 ++ in1)) ∧
      x.2.shape = pick ka.2.shape (complementAxes a.rank (in0 ++ in1)) := by
    intro x hx
    obtain ⟨kb, hkb, h1, h2⟩ := hsrc x hx
    obtain ⟨ka, hka, hm, h3, h4⟩ := mem_traceCands hkb
    exact ⟨ka, hka, hm, h1.trans h3, h2.trans h4⟩
  have hrank : c.rank = (complementAxes a.rank (in0 ++ in1)).length := by
    rw [hc]; simp [Tensor.rank, pick_length]
  have hcs : c.s = pick a.s (complementAxes a.rank (in0 ++ in1)) := by rw [hc]
  have hcn : c.n = a.n := by rw [hc]
  have hcsym : c.sym = a.sym := by rw [hc]
  have hkr : ∀ x ∈ c.blocks, x.1.length = c.rank ∧ x.2.shape.length = c.rank := by
    intro x hx
    obtain ⟨ka, _, _, h3, h4⟩ := hsrc' x hx
    rw [h3, h4, hrank]
    simp [pick_length]
  refine ⟨?_, ?_, ?_, hkr, ?_, ?_, ?_, ?_⟩
  · intro x hx
    rw [hcs] at hx
    exact ha.sig x (mem_pick (l := a.s) (fun p hp => mem_complement hp) hx)
  · rw [hcn]; exact ha.ncanon
  · rw [hc]
    simp only [Tensor.keys, List.map_map, Function.comp_def, List.map_id']
    exact pairwise_sortDedup keyLt_strictTotal _
  · intro x hx ch hch
    obtain ⟨ka, hka, _, h3, _⟩ := hsrc' x hx
    rw [h3] at hch
    exact ha.canon ka hka ch (mem_pick (l := ka.1) (fun p hp => by rw [(ha.keyRank ka hka).1]; exact mem_complement hp) hch)
  · intro x hx
    obtain ⟨ka, hka, hm, h3, _⟩ := hsrc' x hx
    have hka1 := (ha.keyRank ka hka).1
    show c.sym.fuse x.1 c.s 1 = c.n
    rw [hcsym, hcs, hcn, h3]
    rw [trace_rule hd ka.1 a.s (complementAxes a.rank (in0 ++ in1)) in0 in1 hka1
      (by rw [hka1]; exact complement_perm a.rank (in0 ++ in1) hnd hlt) hm hsig]
    exact ha.rule ka hka
  · intro x hx dd hdd
    obtain ⟨ka, hka, _, _, h4⟩ := hsrc' x hx
    rw [h4] at hdd
    exact ha.dimsPos ka hka dd (mem_pick (l := ka.2.shape) (fun p hp => by rw [(ha.keyRank ka hka).2]; exact mem_complement hp) hdd)
  · intro x hx y hy i hxy
    obtain ⟨kx, hkx, _, x3, x4⟩ := hsrc' x hx
    obtain ⟨ky, hky, _, y3, y4⟩ := hsrc' y hy
    rw [x4, y4]
    rw [x3, y3] at hxy
    by_cases hi : i < (complementAxes a.rank (in0 ++ in1)).length
    · rw [pick_getD _ _ _ _ hi, pick_getD _ _ _ _ hi] at hxy ⊢
      exact ha.dimsCons kx hkx ky hky _ hxy
    · have hx' : (pick kx.2.shape (complementAxes a.rank (in0 ++ in1))).length ≤ i := by rw [pick_length]; omega
      have hy' : (pick ky.2.shape (complementAxes a.rank (in0 ++ in1))).length ≤ i := by rw [pick_length]; omega
      simp [List.getD_eq_getElem?_getD, List.getElem?_eq_none hx', List.getElem?_eq_none hy']

/-- a partial trace leaves the total charge unchanged; the remaining signature is the remaining legs' -/
theorem charge_trace [Zero R] [Add R] {a c : Tensor R} {in0 in1 : List Nat} (h : trace a in0 in1 = .ok c) :
    c.n = a.n ∧ c.sym = a.sym ∧ (in0 = [] ∨ c.s = pick a.s (complementAxes a.rank (in0 ++ in1))) := by
  unfold trace at h
  split at h; · cases h
  split at h; · cases h
  split at h
  · rename_i h3; cases h; exact ⟨rfl, rfl, Or.inl (by simpa using h3)⟩
  · simp only at h
    split at h; · cases h
    cases h
    exact ⟨rfl, rfl, Or.inr rfl⟩

end YModel
