import YProofs.Lemmas.CacheLemmas
import YProofs.Lemmas.CacheRecency
/-!
# C16 — Metadata caches are transparent (the LRU part)

`YModel/Cache.lean` models one `functools.lru_cache` object together with the three things yastn
does to it: calling the memoised function, `clear_cache()` and `set_cache_maxsize(n)`.

All theorems below hold for **every** pure function `f : α → β` over any key type with decidable
equality, **every** capacity (`0`, `1`, `n` – capacity is a universally quantified `Nat`, and changes
inside a history through `resize`), every initial cache object satisfying the stated invariant and
**every finite history** of `call x` / `clear` / `resize n` events (induction over the history).

What is assumed and *not* proved here – and therefore checked on the real code by the cache monitor
of `harness/props/c16.py` – is that the 18 memoised yastn functions are pure functions of their
argument tuples (key adequacy) and that nobody mutates a stored value (coherence of the real
tables).
-/
namespace YModel
variable {α β : Type} [DecidableEq α]

open Cache

/-! ### transparency -/

/-- **lru_transparent**: from a coherent cache object (every stored value is `f` of its key – in
particular from the empty one), along every history of calls, clears and resizes, every call returns
exactly `f x` (the list of returned values is `f` mapped over the list of call arguments), and the
object is coherent after every event and at the end. -/
theorem lru_transparent (f : α → β) (c : Cache α β) (hc : c.lru.Coherent f) (evs : List (Ev α)) :
    c.results f evs = (Ev.calls evs).map f
    ∧ (∀ p ∈ c.trace f evs, p.1.lru.Coherent f)
    ∧ (c.final f evs).lru.Coherent f := by
  have hinv := trace_preserves (P := LRU.Coherent f) f (fun c x h => LRU.call_coherent f h x)
    (LRU.empty_coherent f) (fun c p hp => by cases hp) c hc evs
  refine ⟨?_, hinv.1, hinv.2⟩
  induction evs generalizing c with
  | nil => rfl
  | cons e es ih =>
    have h1 : (c.step f e).1.lru.Coherent f :=
      step_preserves (P := LRU.Coherent f) f (fun c x h => LRU.call_coherent f h x)
        (LRU.empty_coherent f) (fun c p hp => by cases hp) c hc e
    have hinv' := trace_preserves (P := LRU.Coherent f) f (fun c x h => LRU.call_coherent f h x)
      (LRU.empty_coherent f) (fun c p hp => by cases hp) _ h1 es
    have ih' := ih (c.step f e).1 h1 hinv'
    unfold results at ih' ⊢
    unfold trace
    cases e with
    | call x =>
      simp only [List.filterMap_cons, (step_lru_call f c x).2, Option.map_some, Ev.calls, List.map_cons]
      rw [ih', LRU.call_value f hc x]
    | clear => simpa only [List.filterMap_cons, step, Option.map_none, Ev.calls] using ih'
    | resize n => simpa only [List.filterMap_cons, step, Option.map_none, Ev.calls] using ih'

/-- the empty cache of any capacity is coherent, so a process that starts cold is covered -/
theorem lru_transparent_from_cold (f : α → β) (cap : Nat) (evs : List (Ev α)) :
    (Cache.fresh cap : Cache α β).results f evs = (Ev.calls evs).map f :=
  (lru_transparent f _ (LRU.empty_coherent f cap) evs).1

/-- **warm = cold = cleared/resized at arbitrary moments**: two histories with the same subsequence
of calls – whatever the initial (coherent) contents, the capacities, and the placement of `clear` and
`resize` events in either of them – return the same results. -/
theorem lru_warm_eq_cold (f : α → β) (c₁ c₂ : Cache α β) (h₁ : c₁.lru.Coherent f) (h₂ : c₂.lru.Coherent f)
    (evs₁ evs₂ : List (Ev α)) (hcalls : Ev.calls evs₁ = Ev.calls evs₂) :
    c₁.results f evs₁ = c₂.results f evs₂ := by
  rw [(lru_transparent f c₁ h₁ evs₁).1, (lru_transparent f c₂ h₂ evs₂).1, hcalls]

/-- in particular: with caching switched off (`maxsize = 0`, nothing is ever stored) the results are
those of any warm history -/
theorem lru_cached_eq_uncached (f : α → β) (c : Cache α β) (hc : c.lru.Coherent f) (evs : List (Ev α)) :
    c.results f evs = (Cache.fresh 0 : Cache α β).results f (evs.filter (fun e => match e with | .call _ => true | _ => false)) := by
  apply lru_warm_eq_cold f c _ hc (LRU.empty_coherent f 0)
  induction evs with
  | nil => rfl
  | cons e es ih => cases e <;> simp [Ev.calls, ih]

/-! ### structural invariants -/

/-- **lru_bounded**: the table never holds more than `cap` entries, after every event of every
history (the capacity in force is the one of the object at that moment: it changes at `resize`). -/
theorem lru_bounded (f : α → β) (c : Cache α β) (hc : c.lru.Bounded) (evs : List (Ev α)) :
    (∀ p ∈ c.trace f evs, p.1.currsize ≤ p.1.maxsize) ∧ (c.final f evs).currsize ≤ (c.final f evs).maxsize :=
  trace_preserves (P := LRU.Bounded) f (fun _ x h => LRU.call_bounded f h x) LRU.empty_bounded
    (fun _ => Nat.zero_le _) c hc evs

/-- **lru_keys_nodup**: no key is ever stored twice. -/
theorem lru_keys_nodup (f : α → β) (c : Cache α β) (hc : c.lru.KeysNodup) (evs : List (Ev α)) :
    (∀ p ∈ c.trace f evs, p.1.lru.KeysNodup) ∧ (c.final f evs).lru.KeysNodup :=
  trace_preserves (P := LRU.KeysNodup) f (fun _ x h => LRU.call_keysNodup f h x) LRU.empty_keysNodup
    (fun _ => List.nodup_nil) c hc evs

/-- capacity 0 stores nothing: from an empty table of capacity 0, as long as no resize happens, the
table stays empty and every call is a miss. -/
theorem lru_cap_zero (f : α → β) (c : Cache α β) (h0 : c.lru.cap = 0) (he : c.lru.entries = [])
    (xs : List α) :
    (c.final f (xs.map Ev.call)).lru.entries = [] ∧ c.hitFlags f (xs.map Ev.call) = xs.map (fun _ => false) := by
  induction xs generalizing c with
  | nil => exact ⟨he, rfl⟩
  | cons x xs ih =>
    obtain ⟨e1, e2⟩ := LRU.call_cap_zero f h0 he x
    have hl := (step_lru_call f c x).1
    have ho := (step_lru_call f c x).2
    have hcap : (c.step f (.call x)).1.lru.cap = 0 := by rw [hl, LRU.call_cap, h0]
    have hent : (c.step f (.call x)).1.lru.entries = [] := by rw [hl, e1]
    obtain ⟨i1, i2⟩ := ih _ hcap hent
    refine ⟨i1, ?_⟩
    unfold hitFlags at i2 ⊢
    simp only [List.map_cons, trace, List.filterMap_cons, ho, Option.map_some, e2]
    rw [i2]

/-! ### hits -/

/-- **lru_hit_iff** (one call): a call is a hit iff its key is among the entries. -/
theorem lru_hit_iff_step (f : α → β) (c : Cache α β) (x : α) :
    (∃ y, (c.step f (.call x)).2 = some (y, true)) ↔ x ∈ c.lru.keys := by
  rw [(step_lru_call f c x).2, ← LRU.call_hit_iff f c.lru x]
  constructor
  · rintro ⟨y, hy⟩
    have := Option.some.inj hy
    rw [this]
  · intro h
    exact ⟨(c.lru.call f x).2.1, by rw [← h]⟩

/-- **lru_hit_iff** (inside any history): the call event at any position of any history is a hit iff
its key is among the entries of the object reached by the events before it. -/
theorem lru_hit_iff (f : α → β) (c : Cache α β) (pre post : List (Ev α)) (x : α) :
    ∃ s y hit, (c.trace f (pre ++ .call x :: post))[pre.length]? = some (s, some (y, hit))
      ∧ (hit = true ↔ x ∈ (c.final f pre).lru.keys) := by
  rw [trace_append]
  have hlen : pre.length = (c.trace f pre).length := (trace_length f c pre).symm
  rw [hlen, List.getElem?_append_right (Nat.le_refl _), Nat.sub_self]
  unfold trace
  simp only [List.getElem?_cons_zero]
  refine ⟨((c.final f pre).step f (.call x)).1, ((c.final f pre).lru.call f x).2.1,
    ((c.final f pre).lru.call f x).2.2, ?_, LRU.call_hit_iff f _ x⟩
  rw [Option.some.injEq]
  exact Prod.ext rfl (step_lru_call f _ x).2

/-! ### the eviction policy is "least recently used" -/

/-- between two clears/resizes the capacity does not change -/
theorem lru_cap_calls (f : α → β) (c : Cache α β) (xs : List α) :
    (c.final f (xs.map Ev.call)).lru.cap = c.lru.cap := by
  induction xs generalizing c with
  | nil => rfl
  | cons x xs ih =>
    simp only [List.map_cons, final]
    rw [ih, (step_lru_call f c x).1, LRU.call_cap]

/-- **LRU policy**: if the table holds the `cap` most recently used distinct keys of the calls so far
(`h`, latest first), most recent first, then after any further calls `xs` it holds the `cap` most
recently used distinct keys of the whole sequence. -/
theorem lru_keys_recent (f : α → β) (c : Cache α β) (h : List α)
    (hc : c.lru.keys = (LRU.recent h).take c.lru.cap) (xs : List α) :
    (c.final f (xs.map Ev.call)).lru.keys = (LRU.recent (xs.reverse ++ h)).take c.lru.cap := by
  induction xs generalizing c h with
  | nil => exact hc
  | cons x xs ih =>
    simp only [List.map_cons, final]
    have h1 := LRU.call_recent f c.lru h hc x
    rw [← (step_lru_call f c x).1] at h1
    have hcap : (c.step f (.call x)).1.lru.cap = c.lru.cap := by rw [(step_lru_call f c x).1, LRU.call_cap]
    rw [ih _ (x :: h) h1, hcap, List.reverse_cons, List.append_assoc]
    rfl

/-- from a fresh (cleared / resized) table of capacity `n`: after the calls `xs` the keys are the `n`
most recently used distinct ones, and the next call of `x` is a hit iff `x` is one of them. -/
theorem lru_hit_iff_recent (f : α → β) (n : Nat) (xs : List α) (x : α) :
    ((Cache.fresh n : Cache α β).final f (xs.map Ev.call)).lru.keys = (LRU.recent xs.reverse).take n
    ∧ ((∃ y, (((Cache.fresh n : Cache α β).final f (xs.map Ev.call)).step f (.call x)).2 = some (y, true))
        ↔ x ∈ (LRU.recent xs.reverse).take n) := by
  have hk := lru_keys_recent f (Cache.fresh n : Cache α β) [] (by simp [Cache.fresh, LRU.empty, LRU.keys, LRU.recent]) xs
  rw [List.append_nil] at hk
  have hk' : ((Cache.fresh n : Cache α β).final f (xs.map Ev.call)).lru.keys = (LRU.recent xs.reverse).take n := hk
  refine ⟨hk', ?_⟩
  rw [lru_hit_iff_step, hk']

/-! ### counters (`cache_info()`) -/

/-- **counters law**: `hits + misses` is the number of calls since the last clear/resize (plus the
initial value of `hits + misses` if the history contains no clear/resize). -/
theorem lru_counters (f : α → β) (c : Cache α β) (evs : List (Ev α)) :
    (c.final f evs).hits + (c.final f evs).misses
      = (if (Ev.sinceReset evs).1 then 0 else c.hits + c.misses) + (Ev.sinceReset evs).2 := by
  induction evs generalizing c with
  | nil => simp [final, Ev.sinceReset]
  | cons e es ih =>
    unfold final
    rw [ih]
    cases e with
    | call x =>
      have hstep : (c.step f (.call x)).1.hits + (c.step f (.call x)).1.misses = c.hits + c.misses + 1 := by
        unfold step
        dsimp only
        split <;> simp only <;> omega
      rw [hstep]
      have hs : Ev.sinceReset (Ev.call x :: es)
          = if (Ev.sinceReset es).1 then Ev.sinceReset es else (false, (Ev.sinceReset es).2 + 1) := rfl
      rw [hs]
      cases h : (Ev.sinceReset es).1 <;> simp [h] <;> omega
    | clear =>
      have hs : Ev.sinceReset (Ev.clear :: es) = (true, (Ev.sinceReset es).2) := rfl
      rw [hs]
      cases h : (Ev.sinceReset es).1 <;> simp [step]
    | resize n =>
      have hs : Ev.sinceReset (Ev.resize n :: es) = (true, (Ev.sinceReset es).2) := rfl
      rw [hs]
      cases h : (Ev.sinceReset es).1 <;> simp [step]

/-- entries are only ever inserted by misses: `currsize ≤ misses` along every history (from any object
with unique keys that satisfies it, e.g. a fresh one) – together with `lru_bounded`:
`currsize ≤ min maxsize misses`. -/
theorem lru_currsize_le_misses (f : α → β) (c : Cache α β) (hn : c.lru.KeysNodup) (hm : c.currsize ≤ c.misses)
    (evs : List (Ev α)) : (c.final f evs).currsize ≤ (c.final f evs).misses := by
  induction evs generalizing c with
  | nil => exact hm
  | cons e es ih =>
    unfold final
    apply ih
    · exact step_preserves (P := LRU.KeysNodup) f (fun c x h => LRU.call_keysNodup f h x) LRU.empty_keysNodup
        (fun c => List.nodup_nil) c hn e
    · cases e with
      | call x =>
        have hs := LRU.call_size f hn x
        have hit := LRU.call_hit_iff f c.lru x
        unfold currsize at hm ⊢
        unfold step
        dsimp only
        by_cases hx : x ∈ c.lru.keys
        · rw [if_pos hx] at hs
          rw [if_pos (hit.mpr hx)]
          simp only [hs]; exact hm
        · rw [if_neg hx] at hs
          have : (c.lru.call f x).2.2 = false := by
            cases hb : (c.lru.call f x).2.2
            · rfl
            · exact absurd (hit.mp hb) hx
          rw [this]
          simp only [Bool.false_eq_true, if_false, hs]
          have := Nat.min_le_right c.lru.cap (c.lru.size + 1)
          omega
      | clear => exact Nat.zero_le _
      | resize n => exact Nat.zero_le _

/-- a resize installs the requested capacity and an empty table with zeroed counters
(what `get_cache_info()` must show right after `set_cache_maxsize(n)`), a clear keeps the capacity -/
theorem lru_resize_clear_info (f : α → β) (c : Cache α β) (n : Nat) :
    let r := (c.step f (.resize n)).1
    let k := (c.step f .clear).1
    (r.hits, r.misses, r.maxsize, r.currsize) = (0, 0, n, 0) ∧
    (k.hits, k.misses, k.maxsize, k.currsize) = (0, 0, c.maxsize, 0) := by
  exact ⟨rfl, rfl⟩

/-! ### non-vacuity: concrete, non-trivial instances -/

section examples
private def exF (x : Nat) : Nat := x * x + 1
private def exHist : List (Ev Nat) :=
  [.call 1, .call 2, .call 1, .call 3, .call 2, .call 1, .clear, .call 1, .call 1, .resize 1, .call 1, .call 2, .call 1,
   .resize 0, .call 1, .call 1]

/-- hits of an LRU of capacity 2 (3 evicts 2, not the just-used 1; then 2 evicts 1) -/
example : (Cache.fresh 2 : Cache Nat Nat).hitFlags exF exHist
    = [false, false, true, false, false, false, false, true, false, false, false, false, false] := by decide
example : (Cache.fresh 2 : Cache Nat Nat).results exF exHist = (Ev.calls exHist).map exF := by decide
example : Ev.calls exHist = [1, 2, 1, 3, 2, 1, 1, 1, 1, 2, 1, 1, 1] := by decide
example : Ev.sinceReset exHist = (true, 2) := by decide
/-- a warm, coherent, non-empty initial object satisfies all hypotheses -/
example : (⟨2, [(3, exF 3), (5, exF 5)]⟩ : LRU Nat Nat).Coherent exF ∧ (⟨2, [(3, 10), (5, 26)]⟩ : LRU Nat Nat).Bounded
    ∧ (⟨2, [(3, 10), (5, 26)]⟩ : LRU Nat Nat).KeysNodup := by
  refine ⟨?_, by unfold LRU.Bounded LRU.size; decide, by unfold LRU.KeysNodup LRU.keys; decide⟩
  intro p hp
  simp only [List.mem_cons, List.not_mem_nil, or_false] at hp
  rcases hp with rfl | rfl <;> rfl
/-- coherence is necessary: an incoherent entry (a "foreign" value) is returned by a hit -/
example : (⟨⟨2, [(3, 0)]⟩, 0, 0⟩ : Cache Nat Nat).results exF [.call 3] = [0] ∧ exF 3 = 10 := by decide
/-- recency: after 1,2,1,3 the two most recently used distinct keys are 3 and 1 -/
example : LRU.recent [3, 1, 2, 1] = [3, 1, 2] ∧ (LRU.recent [3, 1, 2, 1]).take 2 = [3, 1]
    ∧ ((Cache.fresh 2 : Cache Nat Nat).final exF (exHist.take 4)).lru.keys = [3, 1] := by decide
/-- the counters after the first six calls of the example: cache_info = (hits 1, misses 5, maxsize 2, currsize 2) -/
example : let c := (Cache.fresh 2 : Cache Nat Nat).final exF (exHist.take 6)
    (c.hits, c.misses, c.maxsize, c.currsize) = (1, 5, 2, 2) := by decide
end examples

end YModel
