import YProofs.Lemmas.DMpsAdd
import YProofs.Lemmas.DMpsMul
import YProofs.Lemmas.DMpsEnv
import Mathlib.Tactic.FieldSimp
/-!
# C06 — MPS/MPO algebra agrees with the states and operators it represents (dense level)

`amp ψ c` is the entry of `to_tensor()` at the configuration `c` (one `(ket, bra)` index pair per site; MPS have a
bra index of dimension one).  Every theorem holds for every number of sites `N ≥ 1`, every bond-dimension profile
(`ChainOK`: neighbouring bond dimensions match, the two boundary bonds have dimension one) and every commutative
ring of scalars.  `toVec_eq_spec` ties the vector the driver evaluates (`toVec`, shared prefixes) to
`toVecSpec ψ = (configs (dims ψ)).map (amp ψ)`, so the `amp_*` statements are statements about the dense vectors.
-/
namespace YModel.DMps
open Finset

variable {K : Type} [CommRing K]

/-- open-boundary MPS/MPO with `N ≥ 1` sites, matching bonds, boundary bonds of dimension one -/
def WF (ψ : State K) : Prop :=
  ψ.periodic = false ∧ ψ.sites ≠ [] ∧ ChainOK ψ.sites ∧ (headSite ψ.sites).Dl = 1

theorem amp_eq_of_open {ψ : State K} (h : ψ.periodic = false) (c : Config) :
    amp ψ c = ψ.factor * runF ψ.sites c e0 0 := by
  unfold amp; rw [h, ← coef_eq]; rfl

/-! ## dense vector = list of amplitudes -/

theorem vecFrom_eq (sites : List (Site K)) (v : Vec K) (fin : Vec K → K) :
    vecFrom sites v fin = (configs (sites.map (fun A => (A.dk, A.db)))).map (fun c => fin (run sites c v)) := by
  induction sites generalizing v with
  | nil => simp [vecFrom, configs, run]
  | cons A As ih =>
    simp only [vecFrom, List.map_cons, configs, List.map_flatMap, List.map_map]
    congr 1; funext s
    congr 1; funext t
    rw [ih]
    apply List.map_congr_left
    intro c _
    simp [run, Function.comp_def]

/-- the vector evaluated by the driver is the list of amplitudes in row-major order (open boundaries) -/
theorem toVec_eq_spec (ψ : State K) (h : ψ.periodic = false) : toVec ψ = toVecSpec ψ := by
  unfold toVec toVecSpec dims
  simp only [h, Bool.false_eq_true, if_false]
  rw [vecFrom_eq, List.map_map]
  apply List.map_congr_left
  intro c _
  simp [amp, h, coef, Function.comp_def]

/-! ## `toVec_add` -/

theorem zipWith_amp_factor (ts : List (K × State K)) :
    List.zipWith (fun c (ψ : State K) => c * ψ.factor) (ts.map Prod.fst) (ts.map Prod.snd)
      = ts.map (fun p => p.1 * p.2.factor) := by
  induction ts with
  | nil => rfl
  | cons p ts ih => simp only [List.map_cons, List.zipWith_cons_cons, ih]

/-- **toVec_add** (clause "sums with amplitudes"): the block direct sum built by `mps.add` (first site row block
with the amplitudes and factors, block-diagonal middle sites, last site column block; plain weighted tensor sum for
`N = 1`) represents `Σⱼ ampⱼ · ψⱼ`, for every number of summands, every `N ≥ 1` and all bond dimensions. -/
theorem amp_add (ts : List (K × State K)) (φ : State K) (c : Config)
    (hwf : ∀ p ∈ ts, WF p.2)
    (h : add (ts.map Prod.snd) (ts.map Prod.fst) = .ok φ) :
    amp φ c = (ts.map (fun p => p.1 * amp p.2 c)).sum := by
  unfold add at h
  simp only [List.length_map, ne_eq, not_true_eq_false, if_false] at h
  cases ts with
  | nil => simp at h
  | cons p0 ts0 =>
    simp only [List.map_cons] at h
    split at h
    · simp at h
    · split at h
      · simp at h
      · split at h
        · simp at h
        · rename_i hper hN hnr
          simp only [Except.ok.injEq] at h
          subst h
          have hlen : ∀ p ∈ p0 :: ts0, p.2.sites.length = p0.2.sites.length := by
            intro p hp
            by_contra hne
            apply hN
            rw [List.any_eq_true]
            refine ⟨p.2, ?_, by simpa using hne⟩
            simp only [List.mem_cons] at hp
            rcases hp with rfl | hp
            · simp
            · exact List.mem_cons_of_mem _ (List.mem_map_of_mem hp)
          have hrw : ∀ p ∈ p0 :: ts0, p.1 * amp p.2 c = (p.1 * p.2.factor) * runF p.2.sites c e0 0 := by
            intro p hp
            rw [amp_eq_of_open (hwf p hp).1, mul_assoc]
          rw [List.map_congr_left hrw]
          unfold amp
          simp only [Bool.false_eq_true, if_false, one_mul]
          rw [coef_eq]
          simp only
          have hz := zipWith_amp_factor (p0 :: ts0)
          simp only [List.map_cons] at hz
          rw [hz]
          -- chains with their coefficients
          let qs : List (K × List (Site K)) := (p0 :: ts0).map (fun p => (p.1 * p.2.factor, p.2.sites))
          have hq1 : (p0 :: ts0).map (fun p => p.1 * p.2.factor) = qs.map Prod.fst := by
            simp [qs, List.map_map, Function.comp_def]
          have hq2 : (p0.2 :: ts0.map Prod.snd).map (·.sites) = qs.map Prod.snd := by
            simp [qs, List.map_map, Function.comp_def]
          have hq3 : (p0 :: ts0).map (fun p => (p.1 * p.2.factor) * runF p.2.sites c e0 0)
              = qs.map (fun q => q.1 * runF q.2 c e0 0) := by
            simp [qs, List.map_map, Function.comp_def]
          simp only [List.map_cons] at hq1 hq2
          rw [hq1, hq2, hq3]
          have hN0 : p0.2.sites.length ≠ 0 := by
            have := (hwf p0 (by simp)).2.1
            simpa using this
          have hgood : ∀ n, p0.2.sites.length = n → ∀ q ∈ qs, Good n q.2 ∧ (headSite q.2).Dl = 1 := by
            intro n hn q hq
            simp only [qs, List.mem_map] at hq
            obtain ⟨p, hp, rfl⟩ := hq
            exact ⟨⟨by rw [hlen p hp, hn], (hwf p hp).2.2.1⟩, (hwf p hp).2.2.2⟩
          match hn : p0.2.sites.length with
          | 0 => exact absurd hn hN0
          | 1 => exact runF_addSites_one qs c (hgood 1 hn)
          | n + 2 => exact runF_addSites n qs c (hgood (n + 2) hn)

/-! ## `toVec_smul` -/

section smul
variable {F : Type} [Field F] [DecidableEq F]

/-- **toVec_smul** (clause "multiplication by scalars, including the separate norm factor"): `ψ * c` stores the
modulus `am` in `factor` and the phase `c/am` in the first tensor and represents `c · ψ`; in the `am = 0` branch
only `factor` changes and the represented state is zero.  (`am = |c|` is an input of the model; the theorem needs
only `am ≠ 0`, resp. `am = 0`.) -/
theorem amp_smul (c am : F) (ψ : State F) (hψ : ψ.periodic = false) (hne : ψ.sites ≠ []) (σ : Config) :
    (am ≠ 0 → amp (smul c am ψ) σ = c * amp ψ σ) ∧ (am = 0 → amp (smul c am ψ) σ = 0) := by
  constructor
  · intro ham
    have hp : (smul c am ψ).periodic = false := by unfold smul; simp [ham, hψ]
    rw [amp_eq_of_open hp, amp_eq_of_open hψ]
    unfold smul
    simp only [ham, if_false]
    match hs : ψ.sites, hne with
    | A :: As, _ =>
      simp only [runF]
      rw [stepF_scale, runF_smul]
      field_simp
  · intro ham
    subst ham
    unfold smul amp
    simp

/-- the factor after scalar multiplication is `am · factor` (so it stays real and non-negative when `am = |c|`) -/
theorem factor_smul (c am : F) (ψ : State F) : (smul c am ψ).factor = am * ψ.factor := by
  unfold smul; split <;> rfl

end smul

/-! ## `toVec_conj`, `toMat_transpose`, `toMat_conjTranspose` -/

section conj
variable [HasConj K] (hc : ConjLaws K)
include hc

theorem stepF_conj (v : Nat → K) (A : Site K) (s t : Nat) :
    stepF (fun i => HasConj.conj (v i)) (conjSite A) s t = fun r => HasConj.conj (stepF v A s t r) := by
  funext r
  unfold stepF conjSite
  by_cases hr : r < A.Dr
  · simp only [hr, if_true]
    rw [conj_sum hc]
    exact sum_congr rfl (fun l _ => by rw [hc.mul])
  · simp [hr, hc.zero]

theorem runF_conj (sites : List (Site K)) (σ : Config) (v : Nat → K) :
    runF (sites.map conjSite) σ (fun i => HasConj.conj (v i)) = fun r => HasConj.conj (runF sites σ v r) := by
  induction sites generalizing σ v with
  | nil => rfl
  | cons A As ih => simp only [List.map_cons, runF]; rw [stepF_conj hc, ih]

theorem e0_conj : (fun i => HasConj.conj ((e0 : Nat → K) i)) = e0 := by
  funext i; unfold e0; split <;> simp [hc.zero, hc.one]

/-- **toVec_conj**: `conj()` conjugates every tensor and leaves `factor` alone; it represents the complex conjugate
whenever `factor` is real (`conj factor = factor`, the documented convention). -/
theorem amp_conj (ψ : State K) (hψ : ψ.periodic = false) (hf : HasConj.conj ψ.factor = ψ.factor) (σ : Config) :
    amp (conj ψ) σ = HasConj.conj (amp ψ σ) := by
  have hp : (conj ψ).periodic = false := hψ
  rw [amp_eq_of_open hp, amp_eq_of_open hψ, hc.mul, hf]
  have := runF_conj hc ψ.sites σ e0
  rw [e0_conj hc] at this
  show ψ.factor * runF (ψ.sites.map conjSite) σ e0 0 = _
  rw [this]

end conj

theorem headD_swap (σ : Config) : (σ.map Prod.swap).headD (0, 0) = (σ.headD (0, 0)).swap := by
  cases σ <;> rfl

theorem runF_trans (sites : List (Site K)) (σ : Config) (v : Nat → K) :
    runF (sites.map transSite) σ v = runF sites (σ.map Prod.swap) v := by
  induction sites generalizing σ v with
  | nil => rfl
  | cons A As ih =>
    simp only [List.map_cons, runF]
    rw [ih, headD_swap, List.map_tail]
    rfl

/-- **toMat_transpose**: `transpose()` / `.T` of an MPO swaps the ket and bra index of every site, i.e. represents
the transposed matrix; for an MPS it is the identity. -/
theorem amp_transpose (ψ : State K) (hψ : ψ.periodic = false) (σ : Config) :
    amp (transpose ψ) σ = if ψ.nrPhys = 1 then amp ψ σ else amp ψ (σ.map Prod.swap) := by
  unfold transpose
  by_cases h : ψ.nrPhys = 1
  · simp [h]
  · simp only [h, if_false]
    rw [amp_eq_of_open (ψ := { ψ with sites := ψ.sites.map transSite }) hψ, amp_eq_of_open hψ, runF_trans]

theorem conjTranspose_eq [HasConj K] (ψ : State K) (h : ψ.nrPhys ≠ 1) : conjTranspose ψ = conj (transpose ψ) := by
  unfold conjTranspose conj transpose
  simp [h, List.map_map, Function.comp_def]

/-- **toMat_conjTranspose**: `.H` represents the conjugate-transposed matrix (real `factor`); for an MPS it is `conj()`. -/
theorem amp_conjTranspose [HasConj K] (hc : ConjLaws K) (ψ : State K) (hψ : ψ.periodic = false)
    (hf : HasConj.conj ψ.factor = ψ.factor) (σ : Config) :
    amp (conjTranspose ψ) σ = if ψ.nrPhys = 1 then HasConj.conj (amp ψ σ) else HasConj.conj (amp ψ (σ.map Prod.swap)) := by
  by_cases h : ψ.nrPhys = 1
  · simp only [h, if_true]
    have : conjTranspose ψ = conj ψ := by unfold conjTranspose; simp [h]
    rw [this, amp_conj hc ψ hψ hf]
  · simp only [h, if_false]
    have hp : (transpose ψ).periodic = false := by unfold transpose; simp [h, hψ]
    have hf' : HasConj.conj (transpose ψ).factor = (transpose ψ).factor := by unfold transpose; simp [h, hf]
    rw [conjTranspose_eq ψ h, amp_conj hc _ hp hf', amp_transpose ψ hψ]
    simp [h]

/-! ## `toMat_mpoMps`, `toMat_mpoMpo` -/

theorem sumU_mul_left (ds : List Nat) (a : K) (f : List Nat → K) :
    a * sumU ds f = sumU ds (fun us => a * f us) := by
  induction ds generalizing f with
  | nil => rfl
  | cons d ds ih => simp only [sumU, mul_sum, ih]

theorem e0_kron : (e0 : Nat → K) = kron 1 e0 e0 := by
  funext l
  unfold kron e0
  simp [Nat.mod_one]

/-- **toMat_mpoMps / toMat_mpoMpo** (clause "MPO-MPS and MPO-MPO products"): the site-wise product with
Kronecker-fused virtual legs built by `multiply` / `@` represents the matrix–vector (bra dimension of `b` one) resp.
matrix–matrix product: the entry at `σ = (sᵢ, tᵢ)ᵢ` is the sum over all intermediate index strings `u` of
`a[(sᵢ,uᵢ)] · b[(uᵢ,tᵢ)]`; the factors multiply.  Any `N ≥ 0`, any bond dimensions of `a`, matching bonds in `b`. -/
theorem amp_multiply (a b φ : State K) (σ : Config)
    (hb : Matching b.sites) (hb1 : (headSite b.sites).Dl = 1) (hσ : σ.length = b.sites.length)
    (h : multiply a b = .ok φ) :
    amp φ σ = sumU (a.sites.map (·.db)) (fun us => amp a (cfgA σ us) * amp b (cfgB σ us))
      ∧ φ.factor = a.factor * b.factor := by
  unfold multiply at h
  split at h
  · simp at h
  · split at h
    · simp at h
    · split at h
      · simp at h
      · rename_i hper hN hnr
        simp only [Except.ok.injEq] at h
        subst h
        simp only [Bool.or_eq_true, not_or, Bool.not_eq_true] at hper
        refine ⟨?_, rfl⟩
        have hN' : a.sites.length = b.sites.length := by simpa using hN
        rw [amp_eq_of_open (ψ := ⟨a.nrPhys + b.nrPhys - 2, List.zipWith mulSite a.sites b.sites,
              a.factor * b.factor, false⟩) rfl]
        simp only
        rw [e0_kron, ← hb1, runF_mul a.sites b.sites σ e0 e0 hN' hσ hb, sumU_mul_left]
        congr 1
        funext us
        rw [amp_eq_of_open hper.1, amp_eq_of_open hper.2]
        ring

/-! ## `overlap_eq_inner` -/

theorem sumCfg_mul_left (ds : List (Nat × Nat)) (a : K) (f : Config → K) :
    a * sumCfg ds f = sumCfg ds (fun c => a * f c) := by
  induction ds generalizing f with
  | nil => rfl
  | cons d ds ih => simp only [sumCfg, mul_sum, ih]

theorem delta_rank1 [HasConj K] (hc : ConjLaws K) :
    (mkMat 1 1 (delta : Nat → Nat → K)).get = rank1 e0 e0 := by
  rw [Mat_get_fun]
  funext b k
  unfold rank1 e0 delta
  by_cases hb : b = 0 <;> by_cases hk : k = 0
  · subst hb; subst hk; simp [hc.one]
  · subst hb; have : ¬ k < 1 := by omega
    simp [hk, this]
  · subst hk; have : ¬ b < 1 := by omega
    simp [hb, this, hc.zero]
  · have : ¬ b < 1 := by omega
    simp [hb, this, hc.zero]

/-- **overlap_eq_inner** (clause "measure_overlap returns the corresponding inner product"), full left sweep
(`measure_overlap` = `Env2.measure(bd=(-1, N))`): the left environment recursion through all `N` sites, closed with
the identity on the last bond and multiplied by the two factors, equals the sum over all configurations of
`conj(bra coefficient) · ket coefficient`.  Every `N`, all bond dimensions (last bonds non-empty). -/
theorem overlap_eq_inner [HasConj K] (hc : ConjLaws K) (bra ket : State K)
    (hlen : bra.sites.length = ket.sites.length)
    (hb : 0 < bondDim bra.sites bra.sites.length) (hk : 0 < bondDim ket.sites bra.sites.length) :
    overlap bra ket = bra.factor * ket.factor *
      sumCfg (dims bra) (fun c => HasConj.conj (runF bra.sites c e0 0) * runF ket.sites c e0 0) := by
  unfold overlap overlapAt
  have e1 : bra.sites.take bra.sites.length = bra.sites := List.take_length
  have e2 : ket.sites.take bra.sites.length = ket.sites := by rw [hlen]; exact List.take_length
  have e3 : bra.sites.drop bra.sites.length = [] := List.drop_length
  have e4 : ket.sites.drop bra.sites.length = [] := by rw [hlen]; exact List.drop_length
  rw [e1, e2, e3, e4]
  simp only [sumN_eq, envR]
  rw [envL_get, delta_rank1 hc]
  have hR : ∀ k b, rank1 (e0 : Nat → K) e0 k b = if k = 0 ∧ b = 0 then 1 else 0 := by
    intro k b
    unfold rank1 e0
    by_cases h1 : k = 0 <;> by_cases h2 : b = 0 <;> simp [h1, h2, hc.one, hc.zero]
  congr 1
  simp only [hR]
  rw [sum_eq_single 0]
  · rw [sum_eq_single 0]
    · simp only [and_self, if_true, mul_one]
      exact envLF_rank1 hc bra.sites ket.sites e0 e0 hlen
    · intro k _ hk0; simp [hk0]
    · intro h; exact absurd (mem_range.mpr hk) h
  · intro b _ hb0
    apply sum_eq_zero; intro k _; simp [hb0]
  · intro h; exact absurd (mem_range.mpr hb) h

/-- with a real `factor` of the bra (the documented convention) the overlap is `⟨toVec bra, toVec ket⟩` -/
theorem overlap_eq_vdot [HasConj K] (hc : ConjLaws K) (bra ket : State K)
    (hbp : bra.periodic = false) (hkp : ket.periodic = false)
    (hlen : bra.sites.length = ket.sites.length)
    (hb : 0 < bondDim bra.sites bra.sites.length) (hk : 0 < bondDim ket.sites bra.sites.length)
    (hf : HasConj.conj bra.factor = bra.factor) :
    overlap bra ket = sumCfg (dims bra) (fun c => HasConj.conj (amp bra c) * amp ket c) := by
  rw [overlap_eq_inner hc bra ket hlen hb hk, sumCfg_mul_left]
  congr 1
  funext c
  rw [amp_eq_of_open hbp, amp_eq_of_open hkp, hc.mul, hf]
  ring

/-! ## `toVec_product` -/

/-- product of the local entries along a configuration -/
def prodCfg : List (Nat × Nat × (Nat → Nat → K)) → Config → K
  | [], _ => 1
  | v :: vs, σ => v.2.2 (σ.headD (0, 0)).1 (σ.headD (0, 0)).2 * prodCfg vs σ.tail

theorem runF_product (vs : List (Nat × Nat × (Nat → Nat → K))) (σ : Config) (v : Nat → K) :
    runF (vs.map (fun v => (⟨v.1, v.2.1, 1, 1, fun s t _ _ => v.2.2 s t⟩ : Site K))) σ v 0 = v 0 * prodCfg vs σ := by
  induction vs generalizing σ v with
  | nil => simp [runF, prodCfg]
  | cons w ws ih =>
    simp only [List.map_cons, runF, prodCfg]
    rw [ih]
    simp [stepF]
    ring

/-- **toVec_product** (clause "product states"): `product_mps` / `product_mpo` (bond dimension one) represent the
tensor product of the local vectors / operators. -/
theorem amp_product (nr : Nat) (vs : List (Nat × Nat × (Nat → Nat → K))) (σ : Config) :
    amp (product nr vs) σ = prodCfg vs σ := by
  rw [amp_eq_of_open (ψ := product nr vs) rfl]
  unfold product
  simp only
  rw [runF_product]
  simp [e0]

/-! ## sums of MPOs (partial) and statements that are not proved yet

* `measureMpo_sum_partial` below is the linearity of `Env_sum.measure` in the list of operators.
* NOT PROVED (full statements, checked only through the correspondence and the NumPy oracles of the harness):
  - `overlapAt_eq_inner`: `∀ n ≤ N, overlapAt n bra ket = overlap bra ket` (environment closed at ANY bond; the
    theorem `overlap_eq_inner` above covers the full left sweep `n = N`, which is what `measure_overlap` runs);
  - `measureMpo_eq`: `measureMpoAt n bra op ket = Σ_{σ,τ} conj(amp bra σ) · amp op (σ,τ) · amp ket τ` for every `n`,
    and for a periodic operator with `amp` defined by the trace closure `coefPbc`;
  - `toVec_reverseSites`: `amp (reverseSites ψ) σ = amp ψ σ.reverse`;
  - zipper / variational compression without truncation (SVD/QR contracts): harness oracle only. -/

theorem measureMpo_sum_partial [HasConj K] (n : Nat) (bra : State K) (op : State K) (ops : List (State K)) (ket : State K) :
    measureMpoSumAt n bra (op :: ops) ket = measureMpoAt n bra op ket + measureMpoSumAt n bra ops ket ∧
    measureMpoSumAt n bra ([] : List (State K)) ket = 0 := ⟨rfl, rfl⟩

/-! ## non-vacuity: the hypotheses hold on a concrete two-site instance with bond dimension 2 -/

section examples

instance : HasConj Int := ⟨id⟩

def exA0 : Site Int := ⟨2, 1, 1, 2, fun s _ _ r => (s : Int) + 2 * r + 1⟩
def exA1 : Site Int := ⟨2, 1, 2, 1, fun s _ l _ => (s : Int) - l + 1⟩
def exψ : State Int := { nrPhys := 1, sites := [exA0, exA1], factor := 2 }
def exW : Site Int := ⟨2, 2, 1, 1, fun s t _ _ => (s : Int) + 3 * t⟩
def exH : State Int := { nrPhys := 2, sites := [exW, exW], factor := 3 }

example : WF exψ := ⟨rfl, by simp [exψ], ⟨rfl, rfl⟩, rfl⟩
example : ConjLaws Int := ⟨fun _ _ => rfl, fun _ _ => rfl, rfl, rfl⟩
example : ∃ φ, add [exψ, exψ] [3, -1] = .ok φ := ⟨_, rfl⟩
example : ∃ φ, multiply exH exψ = .ok φ ∧ Matching exψ.sites ∧ (headSite exψ.sites).Dl = 1 := ⟨_, rfl, ⟨rfl, trivial⟩, rfl⟩
example : 0 < bondDim exψ.sites exψ.sites.length := by decide
/-- the represented amplitudes are not all zero: `amp exψ [(1,0),(0,0)] = 2·(2·1 + 4·0) = 4` -/
example : runF exψ.sites [(1, 0), (0, 0)] e0 0 = 2 := by
  simp [runF, stepF, exψ, exA0, exA1, e0, sum_range_succ]

end examples

end YModel.DMps
