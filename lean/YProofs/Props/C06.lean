import YProofs.Lemmas.DMpsAdd
/-!
# C06 — MPS/MPO algebra agrees with the states and operators it represents (dense level)

`amp ψ c` is the entry of `to_tensor()` at the configuration `c` (one `(ket, bra)` index pair per site; MPS have a
bra index of dimension one).  Every theorem holds for every number of sites `N ≥ 1`, every bond-dimension profile
(`ChainOK`: neighbouring bond dimensions match, the two boundary bonds have dimension one) and every commutative
ring of scalars.  `toVec_eq_spec` ties the vector the driver evaluates (`toVec`, shared prefixes) to
`toVecSpec ψ = (configs (dims ψ)).map (amp ψ)`, so the `amp_*` statements are statements about the dense vectors.
-/
namespace YModel.DMps
open Finset

variable {K : Type} [CommRing K]

/-- open-boundary MPS/MPO with `N ≥ 1` sites, matching bonds, boundary bonds of dimension one -/
def WF (ψ : State K) : Prop :=
  ψ.periodic = false ∧ ψ.sites ≠ [] ∧ ChainOK ψ.sites ∧ (headSite ψ.sites).Dl = 1

theorem amp_eq_of_open {ψ : State K} (h : ψ.periodic = false) (c : Config) :
    amp ψ c = ψ.factor * runF ψ.sites c e0 0 := by
  unfold amp; rw [h, ← coef_eq]; rfl

/-! ## dense vector = list of amplitudes -/

theorem vecFrom_eq (sites : List (Site K)) (v : Vec K) (fin : Vec K → K) :
    vecFrom sites v fin = (configs (sites.map (fun A => (A.dk, A.db)))).map (fun c => fin (run sites c v)) := by
  induction sites generalizing v with
  | nil => simp [vecFrom, configs, run]
  | cons A As ih =>
    simp only [vecFrom, List.map_cons, configs, List.map_flatMap, List.map_map]
    congr 1; funext s
    congr 1; funext t
    rw [ih]
    apply List.map_congr_left
    intro c _
    simp [run, Function.comp_def]

/-- the vector evaluated by the driver is the list of amplitudes in row-major order (open boundaries) -/
theorem toVec_eq_spec (ψ : State K) (h : ψ.periodic = false) : toVec ψ = toVecSpec ψ := by
  unfold toVec toVecSpec dims
  simp only [h, Bool.false_eq_true, if_false]
  rw [vecFrom_eq, List.map_map]
  apply List.map_congr_left
  intro c _
  simp [amp, h, coef, Function.comp_def]

/-! ## `toVec_add` -/

theorem zipWith_amp_factor (ts : List (K × State K)) :
    List.zipWith (fun c (ψ : State K) => c * ψ.factor) (ts.map Prod.fst) (ts.map Prod.snd)
      = ts.map (fun p => p.1 * p.2.factor) := by
  induction ts with
  | nil => rfl
  | cons p ts ih => simp only [List.map_cons, List.zipWith_cons_cons, ih]

/-- **toVec_add** (clause "sums with amplitudes"): the block direct sum built by `mps.add` (first site row block
with the amplitudes and factors, block-diagonal middle sites, last site column block; plain weighted tensor sum for
`N = 1`) represents `Σⱼ ampⱼ · ψⱼ`, for every number of summands, every `N ≥ 1` and all bond dimensions. -/
theorem amp_add (ts : List (K × State K)) (φ : State K) (c : Config)
    (hwf : ∀ p ∈ ts, WF p.2)
    (h : add (ts.map Prod.snd) (ts.map Prod.fst) = .ok φ) :
    amp φ c = (ts.map (fun p => p.1 * amp p.2 c)).sum := by
  unfold add at h
  simp only [List.length_map, ne_eq, not_true_eq_false, if_false] at h
  cases ts with
  | nil => simp at h
  | cons p0 ts0 =>
    simp only [List.map_cons] at h
    split at h
    · simp at h
    · split at h
      · simp at h
      · split at h
        · simp at h
        · rename_i hper hN hnr
          simp only [Except.ok.injEq] at h
          subst h
          have hlen : ∀ p ∈ p0 :: ts0, p.2.sites.length = p0.2.sites.length := by
            intro p hp
            by_contra hne
            apply hN
            rw [List.any_eq_true]
            refine ⟨p.2, ?_, by simpa using hne⟩
            simp only [List.mem_cons] at hp
            rcases hp with rfl | hp
            · simp
            · exact List.mem_cons_of_mem _ (List.mem_map_of_mem hp)
          have hrw : ∀ p ∈ p0 :: ts0, p.1 * amp p.2 c = (p.1 * p.2.factor) * runF p.2.sites c e0 0 := by
            intro p hp
            rw [amp_eq_of_open (hwf p hp).1, mul_assoc]
          rw [List.map_congr_left hrw]
          unfold amp
          simp only [Bool.false_eq_true, if_false, one_mul]
          rw [coef_eq]
          simp only
          have hz := zipWith_amp_factor (p0 :: ts0)
          simp only [List.map_cons] at hz
          rw [hz]
          -- chains with their coefficients
          let qs : List (K × List (Site K)) := (p0 :: ts0).map (fun p => (p.1 * p.2.factor, p.2.sites))
          have hq1 : (p0 :: ts0).map (fun p => p.1 * p.2.factor) = qs.map Prod.fst := by
            simp [qs, List.map_map, Function.comp_def]
          have hq2 : (p0.2 :: ts0.map Prod.snd).map (·.sites) = qs.map Prod.snd := by
            simp [qs, List.map_map, Function.comp_def]
          have hq3 : (p0 :: ts0).map (fun p => (p.1 * p.2.factor) * runF p.2.sites c e0 0)
              = qs.map (fun q => q.1 * runF q.2 c e0 0) := by
            simp [qs, List.map_map, Function.comp_def]
          simp only [List.map_cons] at hq1 hq2
          rw [hq1, hq2, hq3]
          have hN0 : p0.2.sites.length ≠ 0 := by
            have := (hwf p0 (by simp)).2.1
            simpa using this
          have hgood : ∀ n, p0.2.sites.length = n → ∀ q ∈ qs, Good n q.2 ∧ (headSite q.2).Dl = 1 := by
            intro n hn q hq
            simp only [qs, List.mem_map] at hq
            obtain ⟨p, hp, rfl⟩ := hq
            exact ⟨⟨by rw [hlen p hp, hn], (hwf p hp).2.2.1⟩, (hwf p hp).2.2.2⟩
          match hn : p0.2.sites.length with
          | 0 => exact absurd hn hN0
          | 1 => exact runF_addSites_one qs c (hgood 1 hn)
          | n + 2 => exact runF_addSites n qs c (hgood (n + 2) hn)

end YModel.DMps
