import YProofs.Props.C01DotGen
import YProofs.Props.C01
/-!
# C01 (continued) — `vdot` is the dense inner product

Corollaries of `toDense_tensordot` for the contraction over ALL legs:

* `toDense_full_contraction`: `dense(tensordot(a, b, all legs)) = Σ_μ dense(a)[μ] · dense(b)[μ]`
* `vdot_eq_dense`: the number returned by `vdot(a, b)` is `Σ_μ conj(dense(a)[μ]) · dense(b)[μ]`,
  for all well-formed operands of every symmetry and rank, any sector content, on any leg spaces `Ms` holding the
  sector tuples of `a`'s blocks.
-/
namespace YModel
variable {R : Type} [CommRing R] {ms : List Nat}

theorem complement_all (n : Nat) : complementAxes n (List.range n) = [] := by
  unfold complementAxes
  apply List.filter_eq_nil_iff.mpr
  intro x hx
  simp [List.mem_range.mp hx]

theorem asmG_nil_out {α} [Inhabited α] (n : Nat) (x y : List α) (hy : y.length = n) :
    asmG n [] x (List.range n) y = y := by
  apply List.ext_getElem
  · simp [hy]
  · intro k h1 h2
    have hk : k < n := by simpa using h1
    simp only [asmG, List.getElem_map, List.getElem_range, List.idxOf_nil, List.length_nil, Nat.lt_irrefl, if_false]
    have hidx : (List.range n).idxOf k = k := by
      have := List.Nodup.idxOf_getElem (List.nodup_range (n := n)) k (by simpa using hk)
      simpa using this
    rw [hidx]
    rw [List.getD_eq_getElem?_getD, List.getElem?_eq_getElem h2]
    rfl

theorem pick_all {α} [Inhabited α] (l : List α) : pick l (List.range l.length) = l := by
  rw [pick_range_take l l.length (Nat.le_refl _), List.take_length]

/-- contraction over all legs -/
theorem toDense_full_contraction {a b c : Tensor R} (ha : WF ms a) (hb : WF ms b)
    (h : tensordot a b (List.range a.rank) (List.range b.rank) = .ok c)
    (Ms : List LegSpace) (hMs : Ms.length = a.rank) (hnd : ∀ M ∈ Ms, (M.map (·.1)).Nodup)
    (hcover : ∀ ka ∈ a.blocks, (ka.1, ka.2.shape) ∈ sectorProduct Ms) :
    toDenseOn [] c [] =
      ((allIdx (Ms.map LegSpace.dim)).map (fun μ => toDenseOn Ms a μ * toDenseOn Ms b μ)).sum := by
  have hlen : a.rank = b.rank := by
    obtain ⟨_, hl, _⟩ := tensordot_ok_iff h
    simpa using hl
  have hcover' : ∀ ka ∈ a.blocks, secOf (List.range a.rank) ka ∈ sectorProduct Ms := by
    intro ka hka
    obtain ⟨h1, h2⟩ := ha.keyRank ka hka
    unfold secOf
    rw [← h1, pick_all, h1, ← h2, pick_all]
    exact hcover ka hka
  have := toDense_tensordot ha hb h [] [] Ms (by simp [complement_all]) (by simp [complement_all])
    (by simpa using hMs) hnd hcover' [] [] (by simp [complement_all]) (by simp [complement_all])
  simp only [List.append_nil] at this
  rw [this, sumIdx_eq_sum, complement_all, complement_all]
  apply congrArg
  apply List.map_congr_left
  intro μ hμ
  have hμl : μ.length = a.rank := by rw [mem_allIdx_length hμ, List.length_map, hMs]
  rw [assemble_eq_asmG, assemble_eq_asmG, asmG_nil_out a.rank [] Ms hMs, asmG_nil_out a.rank [] μ hμl,
    asmG_nil_out b.rank [] Ms (by rw [← hlen]; exact hMs), asmG_nil_out b.rank [] μ (by rw [← hlen]; exact hμl)]

/-- the scalar a rank-0 tensor holds is its dense value -/
theorem scalar_eq_dense {c : Tensor R} (hc : WF ms c) (hr : c.rank = 0) :
    (match c.blocks with | [] => (0 : R) | kb :: _ => kb.2.val []) = toDenseOn [] c [] := by
  unfold toDenseOn
  rw [hr]
  simp only [List.range_zero, List.all_nil, if_true, keyAt, posAt, List.map_nil]
  cases hb : c.blocks with
  | nil => simp [Tensor.get?, hb]
  | cons kb rest =>
    have hk : kb.1 = [] := by
      have := (hc.keyRank kb (by rw [hb]; simp)).1
      rw [hr] at this
      exact List.length_eq_zero_iff.mp this
    simp [Tensor.get?, hb, hk]

/-- **`vdot` is the dense inner product** `Σ_μ conj(a[μ]) · b[μ]` -/
theorem vdot_eq_dense [Conj R] (h0 : Conj.conj (0 : R) = 0) {a b : Tensor R} {v : R}
    (hd : WSym a.sym ms) (ha : WF ms a) (hb : WF ms b) (h : vdot a b = .ok v)
    (Ms : List LegSpace) (hMs : Ms.length = a.rank) (hnd : ∀ M ∈ Ms, (M.map (·.1)).Nodup)
    (hcover : ∀ ka ∈ a.blocks, (ka.1, ka.2.shape) ∈ sectorProduct Ms) :
    v = ((allIdx (Ms.map LegSpace.dim)).map (fun μ => Conj.conj (toDenseOn Ms a μ) * toDenseOn Ms b μ)).sum := by
  unfold vdot at h
  split at h
  · cases h
  · rename_i c hc
    split at h
    · cases h
    · rename_i hrank
      simp only [Decidable.not_not] at hrank
      cases h
      have hca : WF ms (conj a) := wf_conj hd ha
      have hcr : (conj a).rank = a.rank := by simp [conj, Tensor.rank]
      have hcw : WF ms c := wf_tensordot (a := conj a) (show WSym (conj a).sym ms from hd) hca hb hc
      have hc0 : c.rank = 0 := by
        have hcs := (charge_tensordot hc).2
        rw [hcr, complement_all, complement_all] at hcs
        unfold Tensor.rank
        rw [hcs]; rfl
      refine Eq.trans (scalar_eq_dense hcw hc0) ?_
      have hcov : ∀ ka ∈ (conj a).blocks, (ka.1, ka.2.shape) ∈ sectorProduct Ms := by
        intro ka hka
        simp only [conj, Tensor.mapVals, List.mem_map] at hka
        obtain ⟨kb, hkb, rfl⟩ := hka
        exact hcover kb hkb
      have := toDense_full_contraction hca hb (by rw [hcr]; exact hc) Ms (by rw [hcr]; exact hMs) hnd hcov
      rw [this]
      apply congrArg
      apply List.map_congr_left
      intro μ _
      rw [toDense_conj h0]

end YModel

namespace YModel
section examples
open SymGen
/-- non-vacuity: `vdot exA exA = Σ |a|²` on the natural leg spaces of `exA` -/
example : vdot exA exA = .ok 10 := by decide
example : ((allIdx ([[([0], 1), ([1], 2)], [([0], 2), ([1], 1)]].map LegSpace.dim)).map
    (fun μ => Conj.conj (toDenseOn [[([0], 1), ([1], 2)], [([0], 2), ([1], 1)]] exA μ) *
      toDenseOn [[([0], 1), ([1], 2)], [([0], 2), ([1], 1)]] exA μ)).sum = 10 := by decide
example : ∀ ka ∈ exA.blocks, (ka.1, ka.2.shape) ∈ sectorProduct [[([0], 1), ([1], 2)], [([0], 2), ([1], 1)]] := by decide
end examples
end YModel
