import YModel.Heap
/-!
# C15 — Operations never modify their operands; copies are independent (heap model)

Theorems about the alias model of YModel/Heap.lean, for ALL heaps, environments and finite histories:
* `frame`            – operations that return a new object (effects `alloc`, `share`) leave the observable value of
                       every pre-existing variable unchanged, even though `share` results alias their operand;
* `setItem_footprint`– `a[key] = x` is seen exactly by the variables sharing `a`'s array;
* `setBlock_footprint` – `set_block` is seen by the receiver only;
* `copy_independent` – after `b := copy a` (an `alloc`), `b` is unaffected by ANY later history of operations and in-place
                       edits that do not involve `b` itself (and vice versa, since the statement is symmetric in the roles).
Which real operation has which effect is not proved: it is read off the source and checked on every run by the
snapshot monitor (bytes of every pre-existing object before/after every call).
-/
namespace YModel.Heap

theorem upd_other (h : Nat → Option Data) (a b : Nat) (d : Data) (hne : b ≠ a) : upd h a d b = h b := by
  simp [upd, hne]

theorem upd_same (h : Nat → Option Data) (a : Nat) (d : Data) : upd h a d a = some d := by simp [upd]

theorem step_alloc_some {s : State} {src tag : Nat} {f : Data → Data} {o : Obj} (h : s.env[src]? = some o) :
    step s (.alloc src tag f) = { heap := upd s.heap s.next (f (dataOf s o)), next := s.next + 1, env := s.env ++ [⟨tag, s.next⟩] } := by
  simp [step, h]
theorem step_share_some {s : State} {src tag : Nat} {o : Obj} (h : s.env[src]? = some o) :
    step s (.share src tag) = { s with env := s.env ++ [⟨tag, o.ref⟩] } := by simp [step, h]
theorem step_setItem_some {s : State} {dst : Nat} {g : Data → Data} {o : Obj} (h : s.env[dst]? = some o) :
    step s (.setItem dst g) = { s with heap := upd s.heap o.ref (g (dataOf s o)) } := by simp [step, h]
theorem step_setBlock_some {s : State} {dst : Nat} {g : Data → Data} {o : Obj} (h : s.env[dst]? = some o) :
    step s (.setBlock dst g) = { heap := upd s.heap s.next (g (dataOf s o)), next := s.next + 1, env := s.env.set dst ⟨o.tag, s.next⟩ } := by
  simp [step, h]
theorem step_none {s : State} (st : Step) (h : s.env[st.target]? = none) : step s st = s := by
  cases st <;> simp [step, Step.target] at h ⊢ <;> simp [h]

theorem inv_step (s : State) (st : Step) (h : Inv s) : Inv (step s st) := by
  obtain ⟨h1, h2⟩ := h
  cases ht : s.env[st.target]? with
  | none => rw [step_none st ht]; exact ⟨h1, h2⟩
  | some o =>
    have hor := h1 o (List.mem_of_getElem? ht)
    cases st with
    | alloc src tag f =>
      simp only [Step.target] at ht
      rw [step_alloc_some ht]
      refine ⟨?_, ?_⟩
      · intro o' ho'
        dsimp only at ho' ⊢
        rcases List.mem_append.mp ho' with h' | h'
        · exact Nat.lt_succ_of_lt (h1 o' h')
        · simp at h'; subst h'; exact Nat.lt_succ_self _
      · intro a ha
        dsimp only at ha ⊢
        have hne : a ≠ s.next := by omega
        rw [upd_other _ _ _ _ hne]
        exact h2 a (by omega)
    | share src tag =>
      simp only [Step.target] at ht
      rw [step_share_some ht]
      refine ⟨?_, h2⟩
      intro o' ho'
      dsimp only at ho' ⊢
      rcases List.mem_append.mp ho' with h' | h'
      · exact h1 o' h'
      · simp at h'; subst h'; exact hor
    | setItem dst g =>
      simp only [Step.target] at ht
      rw [step_setItem_some ht]
      refine ⟨h1, ?_⟩
      intro a ha
      dsimp only at ha ⊢
      have hne : a ≠ o.ref := by omega
      rw [upd_other _ _ _ _ hne]
      exact h2 a ha
    | setBlock dst g =>
      simp only [Step.target] at ht
      rw [step_setBlock_some ht]
      refine ⟨?_, ?_⟩
      · intro o' ho'
        dsimp only at ho' ⊢
        rcases List.mem_or_eq_of_mem_set ho' with h' | h'
        · exact Nat.lt_succ_of_lt (h1 o' h')
        · subst h'; exact Nat.lt_succ_self _
      · intro a ha
        dsimp only at ha ⊢
        have hne : a ≠ s.next := by omega
        rw [upd_other _ _ _ _ hne]
        exact h2 a (by omega)

/-- **frame**: a non-in-place operation leaves every pre-existing variable's observable value unchanged -/
theorem frame (s : State) (st : Step) (hinv : Inv s) (hnp : st.inPlace = false) (i : Nat) (hi : i < s.env.length) :
    obs (step s st) i = obs s i := by
  obtain ⟨h1, _⟩ := hinv
  cases ht : s.env[st.target]? with
  | none => rw [step_none st ht]
  | some o =>
    cases st with
    | alloc src tag f =>
      simp only [Step.target] at ht
      rw [step_alloc_some ht]
      simp only [obs, List.getElem?_append_left hi]
      cases ho : s.env[i]? with
      | none => rfl
      | some oi =>
        simp only [Option.map_some, dataOf]
        have := h1 oi (List.mem_of_getElem? ho)
        have hne : oi.ref ≠ s.next := by omega
        rw [upd_other _ _ _ _ hne]
    | share src tag =>
      simp only [Step.target] at ht
      rw [step_share_some ht]
      simp only [obs, List.getElem?_append_left hi]
      rfl
    | setItem dst g => simp [Step.inPlace] at hnp
    | setBlock dst g => simp [Step.inPlace] at hnp

/-- `a[key] = x` changes exactly the variables that share the receiver's array -/
theorem setItem_footprint (s : State) (dst : Nat) (g : Data → Data) (j : Nat)
    (o oj : Obj) (ho : s.env[dst]? = some o) (hj : s.env[j]? = some oj) (hne : oj.ref ≠ o.ref) :
    obs (step s (.setItem dst g)) j = obs s j := by
  rw [step_setItem_some ho]
  simp only [obs, hj, Option.map_some, dataOf]
  rw [upd_other _ _ _ _ hne]

theorem setItem_visible (s : State) (dst : Nat) (g : Data → Data) (j : Nat)
    (o oj : Obj) (ho : s.env[dst]? = some o) (hj : s.env[j]? = some oj) (heq : oj.ref = o.ref) :
    obs (step s (.setItem dst g)) j = some (oj.tag, g (dataOf s o)) := by
  rw [step_setItem_some ho]
  simp only [obs, hj, Option.map_some, dataOf, heq, upd_same]
  rfl

/-- `set_block` re-binds the receiver: no other variable observes it, sharing or not -/
theorem setBlock_footprint (s : State) (hinv : Inv s) (dst : Nat) (g : Data → Data) (j : Nat) (hjd : j ≠ dst) :
    obs (step s (.setBlock dst g)) j = obs s j := by
  obtain ⟨h1, _⟩ := hinv
  cases ht : s.env[dst]? with
  | none => rw [step_none (.setBlock dst g) ht]
  | some o =>
    rw [step_setBlock_some ht]
    simp only [obs]
    rw [List.getElem?_set_ne (Ne.symm hjd)]
    cases hoj : s.env[j]? with
    | none => rfl
    | some oj =>
      simp only [Option.map_some, dataOf]
      have := h1 oj (List.mem_of_getElem? hoj)
      have hne : oj.ref ≠ s.next := by omega
      rw [upd_other _ _ _ _ hne]

/-- variable `k` is isolated: nobody else points to its array -/
def Isolated (s : State) (k : Nat) : Prop :=
  ∀ j o ok, j ≠ k → s.env[j]? = some o → s.env[k]? = some ok → o.ref ≠ ok.ref

/-- a step that neither targets `k` nor shares from it keeps `k` isolated and unchanged -/
theorem getElem?_append_singleton_ge {α} {l : List α} {x y : α} {j : Nat} (hj : ¬ j < l.length)
    (h : (l ++ [x])[j]? = some y) : y = x := by
  have hlt := (List.getElem?_eq_some_iff.mp h).1
  simp at hlt
  have : j = l.length := by omega
  subst this
  simpa using h.symm

theorem isolated_step (s : State) (k : Nat) (hk : k < s.env.length) (st : Step) (hinv : Inv s) (hiso : Isolated s k)
    (ht : st.target ≠ k) :
    Isolated (step s st) k ∧ obs (step s st) k = obs s k ∧ k < (step s st).env.length := by
  obtain ⟨h1, h2⟩ := hinv
  cases htg : s.env[st.target]? with
  | none => rw [step_none st htg]; exact ⟨hiso, rfl, hk⟩
  | some osrc =>
    cases st with
    | alloc src tag f =>
      simp only [Step.target] at htg
      have hobs := frame s (.alloc src tag f) ⟨h1, h2⟩ rfl k hk
      refine ⟨?_, hobs, ?_⟩
      · rw [step_alloc_some htg]
        intro j o ok hjk hj hkk
        dsimp only at hj hkk
        rw [List.getElem?_append_left hk] at hkk
        by_cases hjl : j < s.env.length
        · rw [List.getElem?_append_left hjl] at hj
          exact hiso j o ok hjk hj hkk
        · have := getElem?_append_singleton_ge hjl hj
          subst this
          have := h1 ok (List.mem_of_getElem? hkk)
          dsimp only; omega
      · rw [step_alloc_some htg]; simp; omega
    | share src tag =>
      simp only [Step.target] at htg
      have hobs := frame s (.share src tag) ⟨h1, h2⟩ rfl k hk
      refine ⟨?_, hobs, ?_⟩
      · rw [step_share_some htg]
        intro j o ok hjk hj hkk
        dsimp only at hj hkk
        rw [List.getElem?_append_left hk] at hkk
        by_cases hjl : j < s.env.length
        · rw [List.getElem?_append_left hjl] at hj
          exact hiso j o ok hjk hj hkk
        · have := getElem?_append_singleton_ge hjl hj
          subst this
          simp only [Step.target] at ht
          exact hiso src osrc ok ht htg hkk
      · rw [step_share_some htg]; simp; omega
    | setItem dst g =>
      simp only [Step.target] at ht htg
      refine ⟨?_, ?_, ?_⟩
      · rw [step_setItem_some htg]; exact hiso
      · cases hkk : s.env[k]? with
        | none => rw [step_setItem_some htg]; simp [obs, hkk]
        | some ok => exact setItem_footprint s dst g k osrc ok htg hkk (Ne.symm (hiso dst osrc ok ht htg hkk))
      · rw [step_setItem_some htg]; exact hk
    | setBlock dst g =>
      simp only [Step.target] at ht htg
      have hobs := setBlock_footprint s ⟨h1, h2⟩ dst g k (Ne.symm ht)
      refine ⟨?_, hobs, ?_⟩
      · rw [step_setBlock_some htg]
        intro j o ok hjk hj hkk
        dsimp only at hj hkk
        rw [List.getElem?_set_ne ht] at hkk
        by_cases hjd : j = dst
        · subst hjd
          have hlt : j < s.env.length := (List.getElem?_eq_some_iff.mp htg).1
          rw [List.getElem?_set_self hlt] at hj
          simp at hj; subst hj
          have := h1 ok (List.mem_of_getElem? hkk)
          dsimp only; omega
        · rw [List.getElem?_set_ne (Ne.symm hjd)] at hj
          exact hiso j o ok hjk hj hkk
      · rw [step_setBlock_some htg]; simp [hk]

/-- **copies are independent**: a variable that is isolated (e.g. the result of `copy`/`clone`, see
`copy_isolated`) keeps its observable value under every finite history of operations and in-place edits that
do not target it. -/
theorem copy_independent (s : State) (k : Nat) (hk : k < s.env.length) (hinv : Inv s) (hiso : Isolated s k)
    (steps : List Step) (ht : ∀ st ∈ steps, st.target ≠ k) :
    obs (run s steps) k = obs s k := by
  induction steps generalizing s with
  | nil => rfl
  | cons st rest ih =>
    simp only [run, List.foldl_cons]
    obtain ⟨h1, h2, h3⟩ := isolated_step s k hk st hinv hiso (ht st (by simp))
    have := ih (step s st) h3 (inv_step s st hinv) h1 (fun st' hst' => ht st' (by simp [hst']))
    simp only [run] at this
    rw [this, h2]

/-- the result of `copy` (an `alloc`) is isolated, and so remains the source -/
theorem copy_isolated (s : State) (hinv : Inv s) (src tag : Nat) (f : Data → Data) (o : Obj) (ho : s.env[src]? = some o) :
    Isolated (step s (.alloc src tag f)) s.env.length := by
  obtain ⟨h1, _⟩ := hinv
  rw [step_alloc_some ho]
  intro j oj ok hjk hj hkk
  dsimp only at hj hkk
  simp at hkk; subst hkk
  have hjl : j < s.env.length := by
    have := (List.getElem?_eq_some_iff.mp hj).1
    simp at this; omega
  rw [List.getElem?_append_left hjl] at hj
  have := h1 oj (List.mem_of_getElem? hj)
  dsimp only; omega

/-- non-vacuity: a concrete history (copy, shallow copy, item assignment through the alias, set_block) -/
def ex0 : State := { heap := fun a => if a = 0 then some [1, 2, 3] else none, next := 1, env := [⟨0, 0⟩] }
example : Inv ex0 := by
  refine ⟨by intro o ho; simp [ex0] at ho; subst ho; decide, ?_⟩
  intro a ha
  simp only [ex0] at ha ⊢
  have : a ≠ 0 := by omega
  simp [this]
example : obs (run ex0 [.alloc 0 7 id, .share 0 8, .setItem 2 (fun d => d.map (· + 10)), .setBlock 0 (fun _ => [0])]) 1
    = some (7, [1, 2, 3]) := by decide
example : obs (run ex0 [.alloc 0 7 id, .share 0 8, .setItem 2 (fun d => d.map (· + 10))]) 0 = some (0, [11, 12, 13]) := by decide
example : obs (run ex0 [.alloc 0 7 id, .share 0 8, .setBlock 2 (fun _ => [0])]) 0 = some (0, [1, 2, 3]) := by decide

end YModel.Heap
