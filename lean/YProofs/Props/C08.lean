import YProofs.Lemmas.GaugeCanonize
import YProofs.Lemmas.GaugeFold
import YProofs.Lemmas.NestedProjection
import YProofs.Lemmas.GaugeQR
import YProofs.Lemmas.NestedProjectionExample
/-!
# C08 — Canonical forms preserve the state; truncation is honest

Model: `YModel/Gauge.lean` (gauge state machine of `yastn/tn/mps/_mps_obc.py:245-497` and the discarded-weight
fold).  Tie to the source: `harness/props/c08.py` compares, on random programs of the public in-place methods
on real MPS/MPO, `pC`, the key set of `A`, the exception kind, `factor == 1` and the sequence of primitive calls
with `Gauge.runTrace`; re-folds the per-cut weights recorded from the real `diagonalize_central_` with
`Gauge.accumulate` over exact rationals; and validates the hypotheses of the abstract theorems (QR contract,
projector property and nesting of the local truncations) numerically against dense NumPy references.

Which singular values a cut keeps is property C13 (`YModel.Trunc`, theorem `mask_maximal`); it is not repeated here.

Not proved (kept visible): see `norm_eq_partial` and the note at the end.
-/
namespace YModel.Gauge
open scoped RealInnerProductSpace
open Finset

/-! ## the central-block state machine -/

/-- **Clause "at most one central block, on a bond of the chain"** — for every length `N` and every finite
program of the six in-place methods with *arbitrary* arguments (illegal directions, site indices outside the
chain, missing `opts_svd`, exceptions caught and the object reused), started from `pC = None`:
`A` holds at most one tuple key; if it holds one, it is `pC`, and it is a bond `(n, n+1)` with `−1 ≤ n ≤ N−1`. -/
theorem pC_machine (N : Nat) (calls : List Call) :
    (run (init N) calls).N = N ∧ (run (init N) calls).bonds.length ≤ 1 ∧
    ∀ p ∈ (run (init N) calls).bonds,
      (run (init N) calls).pC = some p ∧ p.2 = p.1 + 1 ∧ -1 ≤ p.1 ∧ p.1 ≤ (N : Int) - 1 := by
  have hN := run_N (init N) calls
  have h := run_inv (good_init N).inv calls
  refine ⟨hN, ?_, ?_⟩
  · rcases h with h | ⟨p, _, hb, _⟩
    · simp [h]
    · simp [hb]
  · intro p hp
    rcases h with h | ⟨q, hq, hb, hk⟩
    · simp [h] at hp
    · rw [hb, List.mem_singleton] at hp
      subst hp
      rw [hN] at hk
      exact ⟨hq, hk.1, hk.2.1, hk.2.2.1⟩

/-- **Same clause, programs whose site arguments are sites** (`0 ≤ n < N`; everything else arbitrary): `pC` and
the key set stay in sync (`pC = None` iff no tuple key), and the only exception ever raised is `YastnError`
(never a `KeyError` that would leave the object half-updated). -/
theorem pC_machine_inrange (N : Nat) (calls : List Call) (h : ∀ c ∈ calls, c.inRange N = true) :
    (∀ r ∈ runTrace (init N) calls,
      ((r.1.pC = none ∧ r.1.bonds = []) ∨
        ∃ n : Int, r.1.pC = some (n, n + 1) ∧ r.1.bonds = [(n, n + 1)] ∧ -1 ≤ n ∧ n ≤ (N : Int) - 1) ∧
      r.2.1 ≠ some Err.key) := by
  intro r hr
  have hrN : ∀ (cs : List Call) (s : St), ∀ r ∈ runTrace s cs, r.1.N = s.N := by
    intro cs
    induction cs with
    | nil => intro s r hr; simp [runTrace] at hr
    | cons c cs ih =>
      intro s r hr
      simp only [runTrace, List.mem_cons] at hr
      rcases hr with rfl | hr
      · exact step_N s c
      · rw [ih _ r hr, step_N]
  obtain ⟨hg, he⟩ := runTrace_good (good_init N) calls h r hr
  refine ⟨?_, he⟩
  rcases hg with hg | ⟨⟨a, b⟩, hp, hb, hk⟩
  · exact Or.inl hg
  · right
    obtain ⟨e, l, u, _⟩ := hk
    dsimp only at e l u
    subst e
    rw [hrN calls (init N) r hr] at u
    exact ⟨a, hp, hb, l, u⟩

/-- **Clause "`orthogonalize_site_` with a centre present is rejected"**: whatever the arguments, the call raises
`YastnError` and leaves the object untouched. -/
theorem orth_rejected (s : St) (h : s.pC.isSome = true) (n : Int) (dir : Dir) (nm : Bool) :
    (step s (.orth n dir nm)).1.pC = s.pC ∧ (step s (.orth n dir nm)).1.bonds = s.bonds ∧
    (step s (.orth n dir nm)).1.gauge = s.gauge ∧ (step s (.orth n dir nm)).1.unit = s.unit ∧
    (step s (.orth n dir nm)).2.1 = some Err.yastn := by
  simp [step, expand, runPrims, prim, orth, h]

/-- consequently `truncate_` (which does not absorb first) is rejected as a whole when a centre is present -/
theorem truncate_rejected (s : St) (h : s.pC.isSome = true) (hN : 0 < s.N) (dir : Dir) (o nm : Bool) :
    (step s (.truncate dir o nm)).1.pC = s.pC ∧ (step s (.truncate dir o nm)).1.bonds = s.bonds ∧
    (step s (.truncate dir o nm)).2.1 = some Err.yastn := by
  obtain ⟨N, hN'⟩ : ∃ N, s.N = N + 1 := ⟨s.N - 1, by omega⟩
  cases o
  · simp [step, expand, runPrims]
  · cases dir
    · simp [step, expand, sweep, hN', List.range_succ, runPrims, prim, orth, h]
    · simp [step, expand, sweep, hN', List.range_succ_eq_map, runPrims, prim, orth, h]
    · simp [step, expand, sweep, runPrims]

/-- **Clause "after `canonize_(to)` the centre is gone and every site has gauge `to`"** — from every state
reachable with in-range arguments (in particular with a centre anywhere), for both directions and both values of
`normalize`: no exception, `pC = None`, no tuple key, every site is labelled `to`-canonical, and
`factor = 1` is guaranteed iff `normalize`. -/
theorem canonize_clears (N : Nat) (calls : List Call) (h : ∀ c ∈ calls, c.inRange N = true)
    (dir : Dir) (hto : dir = Dir.first ∨ dir = Dir.last) (nm : Bool) :
    (step (run (init N) calls) (.canonize dir nm)).2.1 = none ∧
    (step (run (init N) calls) (.canonize dir nm)).1.pC = none ∧
    (step (run (init N) calls) (.canonize dir nm)).1.bonds = [] ∧
    (∀ i : Int, 0 ≤ i → i < (N : Int) → (step (run (init N) calls) (.canonize dir nm)).1.gauge i = dir.gauge) ∧
    (0 < N → (step (run (init N) calls) (.canonize dir nm)).1.unit = nm) := by
  have hg := run_good (good_init N) calls h
  have hN := run_N (init N) calls
  have hto' : dir ≠ Dir.bad := by rcases hto with rfl | rfl <;> decide
  obtain ⟨a, b, c, d⟩ := canonize_spec hg dir hto' nm
  rw [hN] at c d
  exact ⟨a, b.1, b.2, c, d⟩

/-- non-vacuity / sanity: a concrete program on `N = 3` with an illegal call in the middle -/
example :
    let r := runTrace (init 3) [.orth 1 .last true, .orth 0 .first true, .diag false, .absorb .first,
      .canonize .first false, .truncate .last true true]
    r.map (fun x => (x.1.pC, x.1.bonds, x.2.1, (List.range 3).map (fun (i : Nat) => x.1.gauge (i : Int)))) =
      [(some (1, 2), [(1, 2)], none, [G.none, G.L, G.none]),
       (some (1, 2), [(1, 2)], some Err.yastn, [G.none, G.L, G.none]),
       (some (1, 2), [(1, 2)], none, [G.none, G.L, G.none]),
       (none, [], none, [G.none, G.none, G.none]),
       (none, [], none, [G.R, G.R, G.R]),
       (none, [], none, [G.L, G.L, G.L])] := by decide

/-- an out-of-range site leaves `pC` pointing to a key that does not exist (as the source does: `self.pC` is
assigned before `self.A[n]` is read); `pC_machine` covers this state, `pC_machine_inrange` excludes it -/
example : ((run (init 3) [.orth 5 .first true]).pC, (run (init 3) [.orth 5 .first true]).bonds,
    (step (run (init 3) [.orth 5 .first true]) (.absorb .last)).2.1) = (some (4, 5), [], some Err.key) := by decide

/-! ## the composition of discarded weights -/

/-- **Clause "composition of discarded weights"**: the fold of `truncate_` (`:487-497`) over the per-cut
weights `d_k` computes `1 − ∏ (1 − d_k²)` (its square root is returned). -/
theorem accumulate_eq (ds : List ℚ) : accumulate ds = 1 - (ds.map (fun d => 1 - d ^ 2)).prod := by
  have := foldDisc_eq (0 : ℚ) ds
  rw [sub_zero, one_mul] at this
  exact this

/-- the total stays in `[0,1]` when every local weight is in `[0,1]` -/
theorem accumulate_mem_unit (ds : List ℚ) (h : ∀ d ∈ ds, 0 ≤ d ∧ d ≤ 1) :
    0 ≤ accumulate ds ∧ accumulate ds ≤ 1 := by
  rw [accumulate_eq]
  have := prod_unit_interval (ds.map (fun d => 1 - d ^ 2)) (by
    intro x hx
    obtain ⟨d, hd, rfl⟩ := List.mem_map.mp hx
    obtain ⟨h0, h1⟩ := h d hd
    constructor <;> nlinarith)
  constructor <;> linarith [this.1, this.2]

/-- the total does not depend on the order in which the cuts are visited -/
theorem accumulate_perm {ds ds' : List ℚ} (h : ds.Perm ds') : accumulate ds = accumulate ds' := by
  rw [accumulate_eq, accumulate_eq, (h.map _).prod_eq]

/-- it is monotone: one more cut never decreases the reported total (weights in `[0,1]`) -/
theorem accumulate_mono (ds : List ℚ) (d : ℚ) (h : ∀ x ∈ ds, 0 ≤ x ∧ x ≤ 1) :
    accumulate ds ≤ accumulate (ds ++ [d]) := by
  have h1 := (accumulate_mem_unit ds h).2
  rw [accumulate_eq] at h1
  rw [accumulate_eq, accumulate_eq, List.map_append, List.prod_append]
  simp only [List.map_cons, List.map_nil, List.prod_cons, List.prod_nil, mul_one]
  have hp : 0 ≤ (ds.map (fun d => 1 - d ^ 2)).prod := by linarith
  nlinarith [sq_nonneg d]

example : accumulate [1/2, 1/3] = 1/3 ∧ accumulate [1/3, 1/2] = 1/3 ∧ accumulate [] = 0 ∧ accumulate [1, 1/2] = 1 := by
  refine ⟨?_, ?_, ?_, ?_⟩ <;> simp [accumulate, accumulateFrom] <;> norm_num

/-! ## why that number is the true error of the sweep -/

/-- **Clause "the returned discarded weight equals the relative distance … and fixes the norm kept in the
factor"**, abstractly.  `P 0, …, P (m-1)` are orthogonal projections (idempotent, symmetric) of a real
inner-product space with **decreasing ranges** — `P j (P k x) = P k x` for `j ≤ k`, i.e. what a later cut keeps
lies inside what every earlier cut kept — `ψ (k+1) = P k (ψ k)` and `d_k = ‖ψ k − ψ (k+1)‖ / ‖ψ k‖`.  Then
`‖ψ 0 − ψ m‖² = (1 − ∏ (1 − d_k²)) ‖ψ 0‖²` and `‖ψ m‖² = ∏ (1 − d_k²) ‖ψ 0‖²`.
(For a `to='last'` sweep on a right-canonical MPS, `P k = Π_k ⊗ 1` with `Π_k` the projector on the kept left
Schmidt vectors of cut `k`, whose range is contained in `range Π_{k-1} ⊗ (site k)`: validated by the harness.) -/
theorem nested_projection_error {E : Type*} [NormedAddCommGroup E] [InnerProductSpace ℝ E]
    (P : ℕ → E →ₗ[ℝ] E) (ψ : ℕ → E) (m : ℕ)
    (hP : ∀ k < m, IsOrthProj (P k))
    (hnest : ∀ j k, j ≤ k → k < m → ∀ x, P j (P k x) = P k x)
    (hψ : ∀ k < m, ψ (k + 1) = P k (ψ k)) :
    ‖ψ 0 - ψ m‖ ^ 2 = (1 - ∏ k ∈ range m, (1 - dloc ψ k ^ 2)) * ‖ψ 0‖ ^ 2 ∧
    ‖ψ m‖ ^ 2 = (∏ k ∈ range m, (1 - dloc ψ k ^ 2)) * ‖ψ 0‖ ^ 2 := by
  have kept := kept_norm_prod P ψ m hP hψ
  have hfix : ∀ k < m, P k (ψ m) = ψ m := by
    intro k hk
    obtain ⟨m', rfl⟩ : ∃ m', m = m' + 1 := ⟨m - 1, by omega⟩
    rw [hψ m' (by omega)]
    exact hnest k m' (by omega) (by omega) _
  have err := error_of_fixed P ψ m hP hψ hfix
  refine ⟨?_, kept⟩
  rw [err, kept]; ring

/-- the same conclusion from the weaker, trajectory-only form of the nesting hypothesis
(`P_j (P_k ⋯ P_1 ψ) = P_k ⋯ P_1 ψ` for `j ≤ k`, as in DESIGN.md) -/
theorem nested_projection_error' {E : Type*} [NormedAddCommGroup E] [InnerProductSpace ℝ E]
    (P : ℕ → E →ₗ[ℝ] E) (ψ : ℕ → E) (m : ℕ)
    (hP : ∀ k < m, IsOrthProj (P k))
    (hnest : ∀ j k, j < k → k ≤ m → P j (ψ k) = ψ k)
    (hψ : ∀ k < m, ψ (k + 1) = P k (ψ k)) :
    ‖ψ 0 - ψ m‖ ^ 2 = (1 - ∏ k ∈ range m, (1 - dloc ψ k ^ 2)) * ‖ψ 0‖ ^ 2 ∧
    ‖ψ m‖ ^ 2 = (∏ k ∈ range m, (1 - dloc ψ k ^ 2)) * ‖ψ 0‖ ^ 2 := by
  have kept := kept_norm_prod P ψ m hP hψ
  have err := error_of_fixed P ψ m hP hψ (fun k hk => hnest k m hk (Nat.le_refl _))
  refine ⟨?_, kept⟩
  rw [err, kept]; ring

/-- **the number `truncate_` folds is the true relative error**: the fold of `_mps_obc.py:495` over the local
weights of a nested sweep equals `‖ψ 0 − ψ m‖² / ‖ψ 0‖²`, and `1 −` it is the kept fraction of the norm². -/
theorem fold_is_true_error {E : Type*} [NormedAddCommGroup E] [InnerProductSpace ℝ E]
    (P : ℕ → E →ₗ[ℝ] E) (ψ : ℕ → E) (m : ℕ)
    (hP : ∀ k < m, IsOrthProj (P k))
    (hnest : ∀ j k, j ≤ k → k < m → ∀ x, P j (P k x) = P k x)
    (hψ : ∀ k < m, ψ (k + 1) = P k (ψ k)) :
    ‖ψ 0 - ψ m‖ ^ 2 = foldDisc 0 ((List.range m).map (dloc ψ)) * ‖ψ 0‖ ^ 2 ∧
    ‖ψ m‖ ^ 2 = (1 - foldDisc 0 ((List.range m).map (dloc ψ))) * ‖ψ 0‖ ^ 2 := by
  obtain ⟨h1, h2⟩ := nested_projection_error P ψ m hP hnest hψ
  have key : ∀ n : ℕ, ((List.range n).map (fun k => 1 - dloc ψ k ^ 2)).prod = ∏ k ∈ range n, (1 - dloc ψ k ^ 2) := by
    intro n
    induction n with
    | zero => simp
    | succ n ih => rw [List.range_succ, List.map_append, List.prod_append, ih, Finset.prod_range_succ]; simp
  have : foldDisc (0 : ℝ) ((List.range m).map (dloc ψ)) = 1 - ∏ k ∈ range m, (1 - dloc ψ k ^ 2) := by
    rw [foldDisc_eq, sub_zero, one_mul, List.map_map, ← key m]
    rfl
  rw [this]
  exact ⟨h1, by rw [h2]; ring⟩

/-! ### non-vacuity: coordinate truncations of ℝ³ -/

/-- the hypotheses of `nested_projection_error` are satisfiable by a sweep that really truncates:
`P 0` drops the last coordinate of ℝ³, `P 1` the last two; for every start vector (e.g. `(1,1,1)`: `d₀² = 1/3`,
`d₁² = 1/2`, total `1 − (2/3)(1/2) = 2/3 = ‖(0,1,1)‖²/‖(1,1,1)‖²`). -/
example (ψ0 : EuclideanSpace ℝ (Fin 3)) :
    let P : ℕ → EuclideanSpace ℝ (Fin 3) →ₗ[ℝ] EuclideanSpace ℝ (Fin 3) := fun k => coordProj (2 - k)
    let ψ : ℕ → EuclideanSpace ℝ (Fin 3) := fun k => Nat.rec ψ0 (fun j acc => P j acc) k
    ‖ψ 0 - ψ 2‖ ^ 2 = (1 - ∏ k ∈ range 2, (1 - dloc ψ k ^ 2)) * ‖ψ 0‖ ^ 2 ∧
    ‖ψ 2‖ ^ 2 = (∏ k ∈ range 2, (1 - dloc ψ k ^ 2)) * ‖ψ 0‖ ^ 2 := by
  intro P ψ
  exact nested_projection_error P ψ 2 (fun k _ => coordProj_isOrthProj _)
    (fun j k hjk _ x => coordProj_nested (by omega) x) (fun k _ => rfl)

/-! ## gauge moves preserve the state (under the QR contract) -/

/-- **Clause "`orthogonalize_site_` + `absorb_central_` leave the represented state unchanged, including its
norm when `normalize=False`; the new site is an isometry"** for dense matrices under the contract `QRSpec`
(`A^σ = Q^σ R`, `∑_σ Q^σ† Q^σ = 1`), inside an arbitrary chain `Lp · ⋯ · Rp`, with the centre stored as
`C = R/ν` and `factor' = factor·ν`:
* every amplitude `factor' · Lp Q^σ (C B^τ) Rp` equals `factor · Lp A^σ B^τ Rp`;
* with `normalize=True` (`factor' = 1`) the new chain is the old one up to the positive scalar `1/(factor·ν)`:
  `ν · Lp Q^σ (C B^τ) Rp = Lp A^σ B^τ Rp`;
* the new site contracted with its conjugate over the left and physical legs is the identity, so it does not
  change the Gram matrix (norm) of whatever stands to its right. -/
theorem gauge_preserves_state {K : Type*} [CommRing K] [StarRing K]
    {l r k p a b σ τ : Type*} [Fintype l] [Fintype r] [Fintype k] [Fintype p] [Fintype σ] [DecidableEq k]
    {A : σ → Matrix l r K} {Q : σ → Matrix l k K} {R C : Matrix k r K}
    (h : QRSpec A Q R) (ν f : K) (hC : R = ν • C) (B : τ → Matrix r p K) (Lp : Matrix a l K) (Rp : Matrix p b K) :
    (∀ s t, (f * ν) • (Lp * (Q s * (C * B t)) * Rp) = f • (Lp * (A s * B t) * Rp)) ∧
    (∀ s t, ν • (Lp * (Q s * (C * B t)) * Rp) = Lp * (A s * B t) * Rp) ∧
    (∀ X : Matrix k p K, ∑ s, (Q s * X).conjTranspose * (Q s * X) = X.conjTranspose * X) := by
  refine ⟨fun s t => qr_chain_unchanged h ν f hC B Lp Rp s t, fun s t => ?_, fun X => isometry_preserves_gram h.iso X⟩
  have := qr_chain_unchanged h ν 1 hC B Lp Rp s t
  simpa using this

/-- the contract is satisfiable non-trivially: `A = (3, 4)ᵀ = Q·R` with `Q = (3/5, 4/5)ᵀ`, `R = (5)` over ℝ -/
example : QRSpec (K := ℝ) (σ := Fin 2) (l := Fin 1) (r := Fin 1) (k := Fin 1)
    (fun s => !![if s = 0 then 3 else 4]) (fun s => !![if s = 0 then 3/5 else 4/5]) !![5] where
  factor s := by
    ext i j; fin_cases s <;> simp [Matrix.mul_apply]
  iso := by
    ext i j
    have : i = j := Subsingleton.elim _ _
    subst this
    simp [Fin.sum_univ_two, Matrix.mul_apply, Matrix.add_apply]
    norm_num

/-
Not proved (statements kept visible):

* `norm_eq` (DESIGN.md): "the `factor` after `canonize_(normalize=False)` equals `‖factor₀·toVec₀‖`".
  `gauge_preserves_state` gives the two ingredients (every step leaves `factor·state` unchanged; every finished
  site is an isometry, which by `isometry_preserves_gram` does not change the Gram matrix of the rest), but the
  induction over a whole chain of matrices of varying bond dimension (`toVec` of a dependent chain) is not
  formalised.  The harness checks the statement on the real code (`norm()` against the dense norm).

* `diagonalize_central_` under an SVD contract (`C = U S V`, `U†U = 1`, `V V† = 1`, mask) is covered for its
  error identity by C13 (`YProofs/Props/C13Error.lean`, `truncated_error`); that the induced map on the state is an
  orthogonal projector `Π_k ⊗ 1` with nested ranges is the hypothesis of `nested_projection_error`, validated
  numerically per cut by the harness (contract `c08:contract:nested-projection`), not proved from the tensors.
-/

/-- partial form of `norm_eq` that *is* proved: one isometric site does not change the squared norm
(trace of the Gram matrix) of the chain to its right -/
theorem norm_eq_partial {K : Type*} [CommRing K] [StarRing K]
    {l k p σ : Type*} [Fintype l] [Fintype k] [Fintype p] [Fintype σ] [DecidableEq k]
    {Q : σ → Matrix l k K} (hQ : ∑ s, (Q s).conjTranspose * Q s = 1) (X : Matrix k p K) :
    ∑ s, ((Q s * X).conjTranspose * (Q s * X)).trace = (X.conjTranspose * X).trace := by
  rw [← Matrix.trace_sum, isometry_preserves_gram hQ X]

end YModel.Gauge
