import YProofs.Props.C02Legs
import YProofs.Lemmas.DenseSum
/-!
# C01 (continued) — `add_leg` does not change the dense array

`toDense_addLeg`: inserting a one-dimensional leg at position `axis` leaves every element in place: the dense array of
the result at the index with a `0` inserted at `axis` (on leg spaces with the one-sector space `[(t', 1)]` inserted) is
the dense array of the operand (`numpy.expand_dims`).
-/
namespace YModel
variable {R : Type} {ms : List Nat}

/-- insertion at a position -/
def insAt {α} (l : List α) (ax : Nat) (x : α) : List α := l.take ax ++ [x] ++ l.drop ax

theorem insAt_length {α} (l : List α) (ax : Nat) (x : α) (h : ax ≤ l.length) : (insAt l ax x).length = l.length + 1 := by
  simp only [insAt, List.length_append, List.length_take, List.length_drop, List.length_singleton]; omega

theorem insAt_inj {α} {l l' : List α} {ax : Nat} {x : α} (h : ax ≤ l.length) (h' : ax ≤ l'.length)
    (he : insAt l ax x = insAt l' ax x) : l = l' := by
  unfold insAt at he
  have h1 : (l.take ax).length = (l'.take ax).length := by simp [List.length_take, Nat.min_eq_left h, Nat.min_eq_left h']
  rw [List.append_assoc, List.append_assoc] at he
  have e1 := List.append_inj_left he h1
  have e2 := List.append_inj_right he h1
  simp only [List.singleton_append, List.cons.injEq, true_and] at e2
  rw [← List.take_append_drop ax l, ← List.take_append_drop ax l', e1, e2]

theorem insAt_remove {α} (l : List α) (ax : Nat) (x : α) (h : ax ≤ l.length) :
    (insAt l ax x).take ax ++ (insAt l ax x).drop (ax + 1) = l := by
  unfold insAt
  have hl : (l.take ax).length = ax := by simp [List.length_take, Nat.min_eq_left h]
  rw [List.append_assoc, List.take_left' hl]
  have : (l.take ax ++ ([x] ++ l.drop ax)).drop (ax + 1) = l.drop ax := by
    rw [List.drop_append, hl]
    simp [List.drop_eq_nil_of_le (show (l.take ax).length ≤ ax + 1 by omega)]
  rw [this, List.take_append_drop]

theorem locAt_insAt (L : List LegSpace) (idx : List Nat) (ax : Nat) (M : LegSpace) (m : Nat)
    (hL : ax ≤ L.length) (hi : ax ≤ idx.length) (i : Nat) :
    locAt (insAt L ax M) (insAt idx ax m) i =
      if i < ax then locAt L idx i else if i = ax then locate M m else locAt L idx (i - 1) := by
  unfold locAt insAt
  rw [getD_insert L ax M [] hL i, getD_insert idx ax m 0 hi i]
  by_cases h1 : i < ax
  · simp [h1]
  · by_cases h2 : i = ax
    · simp [h2]
    · simp [h1, h2]

theorem map_range_insAt {α} (n ax : Nat) (h : ax ≤ n) (f : Nat → α) (x : α) :
    (List.range (n + 1)).map (fun i => if i < ax then f i else if i = ax then x else f (i - 1)) =
      insAt ((List.range n).map f) ax x := by
  apply List.ext_getElem
  · rw [insAt_length _ _ _ (by simpa using h)]; simp
  · intro k h1 h2
    have hk : k < n + 1 := by simpa using h1
    simp only [List.getElem_map, List.getElem_range]
    have e : (insAt ((List.range n).map f) ax x)[k] = (insAt ((List.range n).map f) ax x).getD k x := by
      rw [List.getD_eq_getElem?_getD, List.getElem?_eq_getElem h2]; rfl
    rw [e]
    unfold insAt
    rw [getD_insert _ ax x x (by simpa using h) k]
    by_cases c1 : k < ax
    · simp only [c1, if_true]
      rw [List.getD_eq_getElem?_getD, List.getElem?_map, List.getElem?_range (by omega)]; rfl
    · by_cases c2 : k = ax
      · simp [c2]
      · simp only [c1, c2, if_false]
        rw [List.getD_eq_getElem?_getD, List.getElem?_map, List.getElem?_range (by omega)]; rfl

theorem find?_congr' {α} {p q : α → Bool} : ∀ {l : List α}, (∀ x ∈ l, p x = q x) → l.find? p = l.find? q
  | [], _ => rfl
  | x :: xs, h => by
    have hx := h x (by simp)
    have ih := find?_congr' (l := xs) (fun y hy => h y (by simp [hy]))
    simp [List.find?_cons, hx, ih]

/-- **`add_leg` = `expand_dims`** on the dense array -/
theorem toDense_addLeg [Zero R] {a c : Tensor R} {axis : Nat} {sl : Int} {t : Charge} (ha : WF ms a)
    (h : addLeg a axis sl t = .ok c) (L : List LegSpace) (idx : List Nat)
    (hL : L.length = a.rank) (hi : idx.length = a.rank) :
    toDenseOn (insAt L axis [(a.sym.fuse [t] [sl] sl, 1)]) c (insAt idx axis 0) = toDenseOn L a idx := by
  obtain ⟨_, hax, _, _, hc⟩ := addLeg_ok_iff h
  have hrank : c.rank = a.rank + 1 := by
    rw [hc]; simp only [Tensor.rank, List.length_append, List.length_take, List.length_drop, List.length_singleton]
    unfold Tensor.rank at hax; omega
  generalize ht' : a.sym.fuse [t] [sl] sl = t' at *
  have hloc : ∀ i, locAt (insAt L axis [(t', 1)]) (insAt idx axis 0) i =
      if i < axis then locAt L idx i else if i = axis then some (t', 0) else locAt L idx (i - 1) := by
    intro i
    rw [locAt_insAt L idx axis _ 0 (by omega) (by omega) i]
    simp [locate]
  unfold toDenseOn
  rw [hrank]
  have hall : (List.range (a.rank + 1)).all (fun i => (locAt (insAt L axis [(t', 1)]) (insAt idx axis 0) i).isSome) =
      (List.range a.rank).all (fun i => (locAt L idx i).isSome) := by
    rw [Bool.eq_iff_iff]
    simp only [List.all_eq_true, List.mem_range]
    constructor
    · intro hh i hi'
      by_cases c1 : i < axis
      · have := hh i (by omega); rw [hloc, if_pos c1] at this; exact this
      · have := hh (i + 1) (by omega)
        rw [hloc, if_neg (by omega), if_neg (by omega)] at this
        simpa using this
    · intro hh i hi'
      rw [hloc]
      by_cases c1 : i < axis
      · rw [if_pos c1]; exact hh i (by omega)
      · rw [if_neg c1]
        by_cases c2 : i = axis
        · rw [if_pos c2]; rfl
        · rw [if_neg c2]; exact hh (i - 1) (by omega)
  rw [hall]
  by_cases hA : (List.range a.rank).all (fun i => (locAt L idx i).isSome) = true
  · rw [if_pos hA, if_pos hA]
    have hkey : keyAt (insAt L axis [(t', 1)]) (insAt idx axis 0) (a.rank + 1) = insAt (keyAt L idx a.rank) axis t' := by
      unfold keyAt
      rw [← map_range_insAt a.rank axis hax (fun i => ((locAt L idx i).getD ([], 0)).1) t']
      apply List.map_congr_left
      intro i _
      rw [hloc]
      by_cases c1 : i < axis
      · simp [c1]
      · by_cases c2 : i = axis
        · simp [c2]
        · simp [c1, c2]
    have hpos : posAt (insAt L axis [(t', 1)]) (insAt idx axis 0) (a.rank + 1) = insAt (posAt L idx a.rank) axis 0 := by
      unfold posAt
      rw [← map_range_insAt a.rank axis hax (fun i => ((locAt L idx i).getD ([], 0)).2) 0]
      apply List.map_congr_left
      intro i _
      rw [hloc]
      by_cases c1 : i < axis
      · simp [c1]
      · by_cases c2 : i = axis
        · simp [c2]
        · simp [c1, c2]
    rw [hkey, hpos]
    have hKl : (keyAt L idx a.rank).length = a.rank := by simp [keyAt]
    have hPl : (posAt L idx a.rank).length = a.rank := by simp [posAt]
    -- lookup in the mapped block list
    have hcb : c.blocks = a.blocks.map (fun kb =>
        (insAt kb.1 axis t', (⟨insAt kb.2.shape axis 1, fun i => kb.2.val (i.take axis ++ i.drop (axis + 1))⟩ : Block R))) := by
      rw [hc]; rfl
    have hget : c.get? (insAt (keyAt L idx a.rank) axis t') =
        (a.get? (keyAt L idx a.rank)).map (fun b =>
          (⟨insAt b.shape axis 1, fun i => b.val (i.take axis ++ i.drop (axis + 1))⟩ : Block R)) := by
      unfold Tensor.get?
      rw [hcb, List.find?_map]
      have hp : ∀ kb ∈ a.blocks, ((fun kb : Key × Block R => kb.1 == insAt (keyAt L idx a.rank) axis t') ∘
          (fun kb : Key × Block R => (insAt kb.1 axis t',
            (⟨insAt kb.2.shape axis 1, fun i => kb.2.val (i.take axis ++ i.drop (axis + 1))⟩ : Block R)))) kb =
          (kb.1 == keyAt L idx a.rank) := by
        intro kb hkb
        simp only [Function.comp]
        rw [Bool.eq_iff_iff]
        simp only [beq_iff_eq]
        constructor
        · intro he
          exact insAt_inj (by rw [(ha.keyRank kb hkb).1]; exact hax) (by rw [hKl]; exact hax) he
        · intro he; rw [he]
      rw [find?_congr' hp]
      cases a.blocks.find? (fun kb => kb.1 == keyAt L idx a.rank) <;> rfl
    rw [hget]
    cases a.get? (keyAt L idx a.rank) with
    | none => rfl
    | some b =>
      simp only [Option.map_some]
      rw [insAt_remove _ _ _ (by rw [hPl]; exact hax)]
  · have hA' : (List.range a.rank).all (fun i => (locAt L idx i).isSome) = false := by simpa using hA
    rw [hA']; simp

end YModel

namespace YModel
variable {R : Type} {ms : List Nat}

/-! ### remove_leg -/

theorem insAt_eraseIdx {α} (l : List α) (ax : Nat) (x : α) (h : ax < l.length) (hx : l.getD ax x = x) :
    insAt (l.eraseIdx ax) ax x = l := by
  apply List.ext_getElem
  · rw [insAt_length _ _ _ (by rw [List.length_eraseIdx, if_pos h]; omega), List.length_eraseIdx, if_pos h]; omega
  · intro k h1 h2
    have e : (insAt (l.eraseIdx ax) ax x)[k] = (insAt (l.eraseIdx ax) ax x).getD k x := by
      rw [List.getD_eq_getElem?_getD, List.getElem?_eq_getElem h1]; rfl
    have e2 : l[k] = l.getD k x := by rw [List.getD_eq_getElem?_getD, List.getElem?_eq_getElem h2]; rfl
    rw [e, e2]
    unfold insAt
    rw [getD_insert _ ax x x (by rw [List.length_eraseIdx, if_pos h]; omega) k]
    by_cases c1 : k < ax
    · rw [if_pos c1, getD_eraseIdx, if_pos c1]
    · rw [if_neg c1]
      by_cases c2 : k = ax
      · rw [if_pos c2, c2, hx]
      · rw [if_neg c2, getD_eraseIdx, if_neg (by omega)]
        congr 1; omega

theorem eraseIdx_inj {α} {l l' : List α} {ax : Nat} (d : α) (h : ax < l.length) (h' : ax < l'.length)
    (hx : l.getD ax d = l'.getD ax d) (he : l.eraseIdx ax = l'.eraseIdx ax) : l = l' := by
  have hlen : l.length = l'.length := by
    have := congrArg List.length he
    rw [List.length_eraseIdx, List.length_eraseIdx, if_pos h, if_pos h'] at this
    omega
  apply List.ext_getElem hlen
  intro k h1 h2
  have e1 : l[k] = l.getD k d := by rw [List.getD_eq_getElem?_getD, List.getElem?_eq_getElem h1]; rfl
  have e2 : l'[k] = l'.getD k d := by rw [List.getD_eq_getElem?_getD, List.getElem?_eq_getElem h2]; rfl
  rw [e1, e2]
  by_cases c1 : k < ax
  · have := congrArg (fun z => z.getD k d) he
    simp only [getD_eraseIdx, if_pos c1] at this
    exact this
  · by_cases c2 : k = ax
    · rw [c2]; exact hx
    · have := congrArg (fun z => z.getD (k - 1) d) he
      simp only [getD_eraseIdx, if_neg (show ¬ k - 1 < ax by omega)] at this
      rw [show k - 1 + 1 = k by omega] at this
      exact this

theorem map_range_eraseIdx {α} (n ax : Nat) (h : ax < n + 1) (f : Nat → α) :
    (List.range n).map (fun i => if i < ax then f i else f (i + 1)) = ((List.range (n + 1)).map f).eraseIdx ax := by
  apply List.ext_getElem
  · rw [List.length_eraseIdx, if_pos (by simpa using h)]; simp
  · intro k h1 h2
    have hk : k < n := by simpa using h1
    simp only [List.getElem_map, List.getElem_range, List.getElem_eraseIdx]
    by_cases c1 : k < ax
    · simp [c1]
    · simp [c1]

/-- **`remove_leg` = `squeeze`** on the dense array: with the removed leg's space being the single one-dimensional sector
all blocks carry there, and index `0` on it. -/
theorem toDense_removeLeg [Zero R] {a c : Tensor R} {axis : Nat} (ha : WF ms a)
    (h : removeLeg a axis = .ok c) (L : List LegSpace) (idx : List Nat) (t : Charge)
    (hL : L.length = a.rank) (hi : idx.length = a.rank)
    (ht : ∀ kb ∈ a.blocks, kb.1.getD axis [] = t) (hLt : L.getD axis [] = [(t, 1)]) (h0 : idx.getD axis 0 = 0) :
    toDenseOn (L.eraseIdx axis) c (idx.eraseIdx axis) = toDenseOn L a idx := by
  obtain ⟨_, hax, _, _, hc⟩ := removeLeg_ok_iff h
  have hrank : c.rank + 1 = a.rank := by
    rw [hc]; simp only [Tensor.rank, List.length_eraseIdx]
    unfold Tensor.rank at hax; rw [if_pos hax]; omega
  obtain ⟨n, hn⟩ : ∃ n, c.rank = n := ⟨_, rfl⟩
  have han : a.rank = n + 1 := by omega
  have hloc : ∀ i, locAt (L.eraseIdx axis) (idx.eraseIdx axis) i = if i < axis then locAt L idx i else locAt L idx (i + 1) := by
    intro i
    unfold locAt
    rw [getD_eraseIdx, getD_eraseIdx]
    split <;> rfl
  have hlocax : locAt L idx axis = some (t, 0) := by
    unfold locAt
    rw [hLt, h0]; simp [locate]
  unfold toDenseOn
  rw [hn, han]
  have hall : (List.range n).all (fun i => (locAt (L.eraseIdx axis) (idx.eraseIdx axis) i).isSome) =
      (List.range (n + 1)).all (fun i => (locAt L idx i).isSome) := by
    rw [Bool.eq_iff_iff]
    simp only [List.all_eq_true, List.mem_range]
    constructor
    · intro hh i hi'
      by_cases c1 : i < axis
      · have := hh i (by omega); rw [hloc, if_pos c1] at this; exact this
      · by_cases c2 : i = axis
        · rw [c2, hlocax]; rfl
        · have := hh (i - 1) (by omega)
          rw [hloc, if_neg (by omega), show i - 1 + 1 = i by omega] at this
          exact this
    · intro hh i hi'
      rw [hloc]
      split
      · exact hh i (by omega)
      · exact hh (i + 1) (by omega)
  rw [hall]
  by_cases hA : (List.range (n + 1)).all (fun i => (locAt L idx i).isSome) = true
  · rw [if_pos hA, if_pos hA]
    have hkey : keyAt (L.eraseIdx axis) (idx.eraseIdx axis) n = (keyAt L idx (n + 1)).eraseIdx axis := by
      unfold keyAt
      rw [← map_range_eraseIdx n axis (by omega) (fun i => ((locAt L idx i).getD ([], 0)).1)]
      apply List.map_congr_left
      intro i _
      rw [hloc]; split <;> rfl
    have hpos : posAt (L.eraseIdx axis) (idx.eraseIdx axis) n = (posAt L idx (n + 1)).eraseIdx axis := by
      unfold posAt
      rw [← map_range_eraseIdx n axis (by omega) (fun i => ((locAt L idx i).getD ([], 0)).2)]
      apply List.map_congr_left
      intro i _
      rw [hloc]; split <;> rfl
    rw [hkey, hpos]
    have hKl : (keyAt L idx (n + 1)).length = n + 1 := by simp [keyAt]
    have hPl : (posAt L idx (n + 1)).length = n + 1 := by simp [posAt]
    have hKax : (keyAt L idx (n + 1)).getD axis [] = t := by
      unfold keyAt
      rw [List.getD_eq_getElem?_getD, List.getElem?_map, List.getElem?_range (by omega)]
      simp [hlocax]
    have hPax : (posAt L idx (n + 1)).getD axis 0 = 0 := by
      unfold posAt
      rw [List.getD_eq_getElem?_getD, List.getElem?_map, List.getElem?_range (by omega)]
      simp [hlocax]
    have hcb : c.blocks = a.blocks.map (fun kb =>
        (kb.1.eraseIdx axis, (⟨kb.2.shape.eraseIdx axis, fun i => kb.2.val (i.take axis ++ [0] ++ i.drop axis)⟩ : Block R))) := by
      rw [hc]
    have hget : c.get? ((keyAt L idx (n + 1)).eraseIdx axis) =
        (a.get? (keyAt L idx (n + 1))).map (fun b =>
          (⟨b.shape.eraseIdx axis, fun i => b.val (i.take axis ++ [0] ++ i.drop axis)⟩ : Block R)) := by
      unfold Tensor.get?
      rw [hcb, List.find?_map]
      have hp : ∀ kb ∈ a.blocks, ((fun kb : Key × Block R => kb.1 == (keyAt L idx (n + 1)).eraseIdx axis) ∘
          (fun kb : Key × Block R => (kb.1.eraseIdx axis,
            (⟨kb.2.shape.eraseIdx axis, fun i => kb.2.val (i.take axis ++ [0] ++ i.drop axis)⟩ : Block R)))) kb =
          (kb.1 == keyAt L idx (n + 1)) := by
        intro kb hkb
        simp only [Function.comp]
        rw [Bool.eq_iff_iff]
        simp only [beq_iff_eq]
        constructor
        · intro he
          exact eraseIdx_inj [] (by rw [(ha.keyRank kb hkb).1]; exact hax) (by rw [hKl]; omega)
            (by rw [ht kb hkb, hKax]) he
        · intro he; rw [he]
      rw [find?_congr' hp]
      cases a.blocks.find? (fun kb => kb.1 == keyAt L idx (n + 1)) <;> rfl
    rw [hget]
    cases a.get? (keyAt L idx (n + 1)) with
    | none => rfl
    | some b =>
      simp only [Option.map_some]
      have := insAt_eraseIdx (posAt L idx (n + 1)) axis 0 (by rw [hPl]; omega) hPax
      unfold insAt at this
      rw [this]
  · have hA' : (List.range (n + 1)).all (fun i => (locAt L idx i).isSome) = false := by simpa using hA
    rw [hA']; simp

end YModel
