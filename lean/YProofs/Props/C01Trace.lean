import YProofs.Props.C01DotGen
import YProofs.Props.C02Legs
/-!
# C01 (continued) — `trace` agrees with the dense partial trace

`toDense_trace`: for every well-formed tensor of every symmetry and rank, every choice of traced axis lists
`in0`, `in1` (any number of pairs, any positions, any order) and every sector content,

  `dense(trace(a))[i] = Σ_μ dense(a)[assemble(i, μ, μ)]`

where `μ` runs over all dense multi-indices of the traced legs (the same index on both legs of a pair), on ANY
outer leg spaces `L` and any spaces `Ms` of the traced legs holding the sector tuples of the blocks that
enter the trace.  `assemble(i, μ, μ)` is `asmG rank out i (in0 ++ in1) (μ ++ μ)`.
-/
namespace YModel
variable {R : Type} [CommRing R] {ms : List Nat}

/-- the index map written inline in `trace` -/
def idx3 (rank : Nat) (out : List Nat) (i : List Nat) (in0 in1 : List Nat) (c : List Nat) : List Nat :=
  (List.range rank).map (fun p =>
    let q := out.idxOf p
    if q < out.length then i.getD q 0
    else
      let q0 := in0.idxOf p
      if q0 < in0.length then c.getD q0 0 else c.getD (in1.idxOf p) 0)

theorem idx3_eq_asmG (rank : Nat) (out i in0 in1 c : List Nat) (hc : c.length = in0.length) :
    idx3 rank out i in0 in1 c = asmG rank out i (in0 ++ in1) (c ++ c) := by
  unfold idx3 asmG
  apply List.map_congr_left
  intro p _
  simp only
  split
  · rfl
  · by_cases h0 : p ∈ in0
    · have hlt : in0.idxOf p < in0.length := idxOf_lt_iff.mpr h0
      rw [if_pos hlt, List.idxOf_append_of_mem h0]
      show c.getD (in0.idxOf p) 0 = (c ++ c).getD (in0.idxOf p) 0
      rw [getD_append_left' _ _ _ _ (by omega)]
    · have hnlt : ¬ in0.idxOf p < in0.length := fun h => h0 (idxOf_lt_iff.mp h)
      rw [if_neg hnlt, List.idxOf_append_of_notMem h0]
      show c.getD (in1.idxOf p) 0 = (c ++ c).getD (in0.length + in1.idxOf p) 0
      rw [getD_append_right' _ _ _ _ (by omega)]
      congr 1; omega

/-- what an accepted non-trivial trace returns, with the facts its guards establish -/
theorem trace_ok_iff' {a c : Tensor R} {in0 in1 : List Nat} (h : trace a in0 in1 = .ok c) (hne : in0 ≠ []) :
    in0.length = in1.length ∧ (in0 ++ in1).Nodup ∧ (∀ p ∈ in0 ++ in1, p < a.rank) ∧
    (∀ kb ∈ a.blocks, pick kb.1 in0 = pick kb.1 in1 → pick kb.2.shape in0 = pick kb.2.shape in1) ∧
    c = { sym := a.sym, s := pick a.s (complementAxes a.rank (in0 ++ in1)), n := a.n, isdiag := false,
          blocks := (sortDedup keyLt ((traceCands a in0 in1).map (·.1))).map (fun k =>
             (k, sumBlocks (((traceCands a in0 in1).filter (fun kb => kb.1 == k)).map (·.2)))) } := by
  unfold trace at h
  split at h; · cases h
  split at h; · cases h
  rename_i h1 h2
  simp only [not_or, Decidable.not_not, nodupB, decide_eq_true_eq, List.all_eq_true] at h1
  obtain ⟨h1a, h1b, h1c⟩ := h1
  split at h
  · rename_i he
    exact absurd (by simpa using he) hne
  · simp only at h
    split at h; · cases h
    rename_i h4
    cases h
    refine ⟨h1a, h1b, fun p hp => by simpa using h1c p hp, ?_, rfl⟩
    intro kb hkb hm
    simp only [Decidable.not_not, List.all_eq_true, List.mem_filter, beq_iff_eq, and_imp] at h4
    exact h4 kb hkb hm

theorem sum_filter_ite {α : Type} (l : List α) (P : α → Bool) (G : α → R) :
    ((l.filter P).map G).sum = (l.map (fun x => if P x then G x else 0)).sum := by
  induction l with
  | nil => rfl
  | cons x xs ih =>
    by_cases hp : P x = true
    · simp [List.filter_cons, hp, ih]
    · have hp' : P x = false := by simpa using hp
      simp [List.filter_cons, hp', ih]

/-- contribution of one block of `a` to the dense element `(α, p)` of its trace -/
def hTermT (rank : Nat) (out in0 in1 : List Nat) (α : Key) (p : List Nat) (ka : Key × Block R) : R :=
  if pick ka.1 in0 = pick ka.1 in1 ∧ pick ka.1 out = α then
    ((allIdx (pick ka.2.shape in0)).map (fun q => ka.2.val (asmG rank out p (in0 ++ in1) (q ++ q)))).sum
  else 0

def gTermT (a : Tensor R) (out in0 in1 : List Nat) (α : Key) (p : List Nat) (d : Dec) : R :=
  ((allIdx d.2).map (fun q => opVal a out (in0 ++ in1) α p (d.1 ++ d.1) (q ++ q))).sum

theorem trace_result_as_block_sum {a c : Tensor R} {in0 in1 : List Nat} (h : trace a in0 in1 = .ok c) (hne : in0 ≠ [])
    (α : Key) (p : List Nat) :
    (match c.get? α with
      | none => 0
      | some C => C.val p) =
    (a.blocks.map (hTermT a.rank (complementAxes a.rank (in0 ++ in1)) in0 in1 α p)).sum := by
  obtain ⟨_, _, _, _, hc⟩ := trace_ok_iff' h hne
  have hcb : c.blocks = (sortDedup keyLt ((traceCands a in0 in1).map (·.1))).map (fun k =>
      (k, sumBlocks (((traceCands a in0 in1).filter (fun kb => kb.1 == k)).map (·.2)))) := by rw [hc]
  rw [get?_sortDedup_map c _ _ hcb]
  have hval : (match (if α ∈ (traceCands a in0 in1).map (·.1) then
        some (sumBlocks (((traceCands a in0 in1).filter (fun kb => kb.1 == α)).map (·.2))) else none) with
      | none => (0 : R)
      | some C => C.val p) =
      (((traceCands a in0 in1).filter (fun kb => kb.1 == α)).map (fun cb => cb.2.val p)).sum := by
    by_cases hk : α ∈ (traceCands a in0 in1).map (·.1)
    · rw [if_pos hk]
      obtain ⟨cb, hcb1, hcb2⟩ := List.mem_map.mp hk
      have hne' : ((traceCands a in0 in1).filter (fun kb => kb.1 == α)).map (·.2) ≠ [] := by
        intro hnil
        have : cb ∈ (traceCands a in0 in1).filter (fun kb => kb.1 == α) := List.mem_filter.mpr ⟨hcb1, by simp [hcb2]⟩
        rw [List.map_eq_nil_iff] at hnil
        rw [hnil] at this; cases this
      simp only []
      rw [sumBlocks_val_list _ _ hne', List.map_map]
      rfl
    · rw [if_neg hk]
      have : (traceCands a in0 in1).filter (fun kb => kb.1 == α) = [] := by
        apply List.filter_eq_nil_iff.mpr
        intro cb hcb1 hcb2
        exact hk (List.mem_map.mpr ⟨cb, hcb1, by simpa using hcb2⟩)
      rw [this]; rfl
  rw [hval]
  unfold traceCands
  simp only [List.filter_map, List.map_map, List.filter_filter, Function.comp_def]
  rw [sum_filter_ite]
  apply congrArg
  apply List.map_congr_left
  intro ka _
  unfold hTermT
  by_cases hm : pick ka.1 in0 = pick ka.1 in1
  · by_cases hα : pick ka.1 (complementAxes a.rank (in0 ++ in1)) = α
    · simp only [hm, hα, beq_self_eq_true, Bool.and_self, if_true, and_self]
      rw [sumIdx_eq_sum]
      apply congrArg
      apply List.map_congr_left
      intro q hq
      have hql : q.length = in0.length := by rw [mem_allIdx_length hq, pick_length]
      have := idx3_eq_asmG a.rank (complementAxes a.rank (in0 ++ in1)) p in0 in1 q hql
      unfold idx3 at this
      rw [this]
    · have : (pick ka.1 (complementAxes a.rank (in0 ++ in1)) == α) = false := by simpa using hα
      simp [this, hα]
  · have : (pick ka.1 in0 == pick ka.1 in1) = false := by simpa using hm
    simp [this, hm]

/-- **sector combinations ↔ blocks** for the trace -/
theorem trace_sector_sum_eq_block_sum {a : Tensor R} {out in0 in1 : List Nat} (ha : WF ms a)
    (hA : AxSplit a.rank out (in0 ++ in1)) (hlen : in0.length = in1.length)
    (Ms : List LegSpace) (hMs : Ms.length = in0.length) (hnd : ∀ M ∈ Ms, (M.map (·.1)).Nodup)
    (hcover : ∀ ka ∈ a.blocks, pick ka.1 in0 = pick ka.1 in1 → secOf in0 ka ∈ sectorProduct Ms)
    (α : Key) (p : List Nat) (hα : α.length = out.length) :
    ((sectorProduct Ms).map (gTermT a out in0 in1 α p)).sum = (a.blocks.map (hTermT a.rank out in0 in1 α p)).sum := by
  have hkn := sectorProduct_keys_nodup Ms hnd
  let P : Key × Block R → Bool := fun ka => decide (pick ka.1 in0 = pick ka.1 in1 ∧ pick ka.1 out = α)
  rw [sum_filter_support a.blocks P (hTermT a.rank out in0 in1 α p)
    (by intro ka _ hk; simp only [P, decide_eq_false_iff_not] at hk; simp [hTermT, hk])]
  have hkeyOf : ∀ ka ∈ a.blocks, pick ka.1 in0 = pick ka.1 in1 → pick ka.1 out = α →
      asmG a.rank out α (in0 ++ in1) (pick ka.1 in0 ++ pick ka.1 in0) = ka.1 := by
    intro ka hka hm ho
    have := asmG_pick hA ka.1 (ha.keyRank ka hka).1
    rw [pick_append, ← hm, ho] at this
    exact this
  have hH : ∀ ka ∈ a.blocks.filter P,
      hTermT a.rank out in0 in1 α p ka = gTermT a out in0 in1 α p (secOf in0 ka) := by
    intro ka hka
    obtain ⟨hmem, hp⟩ := List.mem_filter.mp hka
    obtain ⟨hm, ho⟩ : pick ka.1 in0 = pick ka.1 in1 ∧ pick ka.1 out = α := by simpa [P] using hp
    have hget : a.get? (asmG a.rank out α (in0 ++ in1) (pick ka.1 in0 ++ pick ka.1 in0)) = some ka.2 := by
      rw [hkeyOf ka hmem hm ho]
      exact Tensor.get?_of_mem ha.sorted (show (ka.1, ka.2) ∈ a.blocks from hmem)
    unfold hTermT
    rw [if_pos ⟨hm, ho⟩]
    simp only [gTermT, secOf, opVal, hget]
  rw [List.map_congr_left hH]
  have hmm : (List.map (fun ka => gTermT a out in0 in1 α p (secOf in0 ka)) (a.blocks.filter P))
      = List.map (gTermT a out in0 in1 α p) (List.map (secOf in0) (a.blocks.filter P)) := by
    rw [List.map_map]; rfl
  rw [hmm]
  have hbnd : a.blocks.Nodup := by
    have := nodup_of_pairwise_lt keyLt_strictTotal ha.sorted
    exact List.Nodup.of_map _ this
  apply sum_supported (sectorProduct Ms) _ (gTermT a out in0 in1 α p) (List.Nodup.of_map _ hkn)
  · refine List.Nodup.map_on ?_ (hbnd.filter _)
    intro x hx y hy hxy
    obtain ⟨hxm, hxp⟩ := List.mem_filter.mp hx
    obtain ⟨hym, hyp⟩ := List.mem_filter.mp hy
    obtain ⟨hxm0, hxo⟩ : pick x.1 in0 = pick x.1 in1 ∧ pick x.1 out = α := by simpa [P] using hxp
    obtain ⟨hym0, hyo⟩ : pick y.1 in0 = pick y.1 in1 ∧ pick y.1 out = α := by simpa [P] using hyp
    have hγ : pick x.1 in0 = pick y.1 in0 := congrArg Prod.fst hxy
    have hk : x.1 = y.1 := by
      rw [← hkeyOf x hxm hxm0 hxo, ← hkeyOf y hym hym0 hyo, hγ]
    have h1 := Tensor.get?_of_mem ha.sorted (show (x.1, x.2) ∈ a.blocks from hxm)
    have h2 := Tensor.get?_of_mem ha.sorted (show (y.1, y.2) ∈ a.blocks from hym)
    rw [hk, h2] at h1
    cases x; cases y
    simp only at hk h1
    subst hk
    simp at h1
    rw [h1]
  · intro d hd
    obtain ⟨ka, hka, rfl⟩ := List.mem_map.mp hd
    obtain ⟨hmem, hp⟩ := List.mem_filter.mp hka
    have hm : pick ka.1 in0 = pick ka.1 in1 := by
      have : pick ka.1 in0 = pick ka.1 in1 ∧ pick ka.1 out = α := by simpa [P] using hp
      exact this.1
    exact hcover ka hmem hm
  · intro d hdM hdS
    unfold gTermT
    apply List.sum_eq_zero
    intro y hy
    obtain ⟨q, _, rfl⟩ := List.mem_map.mp hy
    have hdl := (mem_sectorProduct_length hdM).1
    have hnone : a.get? (asmG a.rank out α (in0 ++ in1) (d.1 ++ d.1)) = none := by
      cases hg : a.get? (asmG a.rank out α (in0 ++ in1) (d.1 ++ d.1)) with
      | none => rfl
      | some A =>
        exfalso
        have hmem := Tensor.get?_some_mem hg
        have hpin : pick (asmG a.rank out α (in0 ++ in1) (d.1 ++ d.1)) (in0 ++ in1) = d.1 ++ d.1 :=
          pick_asmG_in hA _ _ (by simp [hdl, hMs, hlen])
        rw [pick_append] at hpin
        have h0 : pick (asmG a.rank out α (in0 ++ in1) (d.1 ++ d.1)) in0 = d.1 :=
          List.append_inj_left hpin (by rw [pick_length, hdl, hMs])
        have h1 : pick (asmG a.rank out α (in0 ++ in1) (d.1 ++ d.1)) in1 = d.1 :=
          List.append_inj_right hpin (by rw [pick_length, hdl, hMs])
        apply hdS
        apply List.mem_map.mpr
        refine ⟨(asmG a.rank out α (in0 ++ in1) (d.1 ++ d.1), A), List.mem_filter.mpr ⟨hmem, ?_⟩, ?_⟩
        · simp only [P, decide_eq_true_eq]
          exact ⟨h0.trans h1.symm, pick_asmG_out hA _ _ hα⟩
        · have hsec := hcover _ hmem (h0.trans h1.symm)
          have hch : (secOf in0 (asmG a.rank out α (in0 ++ in1) (d.1 ++ d.1), A)).1 = d.1 := h0
          exact List.inj_on_of_nodup_map hkn hsec hdM hch
    simp [opVal, hnone]

/-- **`trace` agrees with the dense partial trace**, for any traced axes. -/
theorem toDense_trace {a c : Tensor R} {in0 in1 : List Nat} (ha : WF ms a)
    (h : trace a in0 in1 = .ok c) (hne : in0 ≠ [])
    (L Ms : List LegSpace)
    (hL : L.length = (complementAxes a.rank (in0 ++ in1)).length)
    (hMs : Ms.length = in0.length) (hnd : ∀ M ∈ Ms, (M.map (·.1)).Nodup)
    (hcover : ∀ ka ∈ a.blocks, pick ka.1 in0 = pick ka.1 in1 → secOf in0 ka ∈ sectorProduct Ms)
    (i : List Nat) (hi : i.length = (complementAxes a.rank (in0 ++ in1)).length) :
    toDenseOn L c i =
      sumIdx (Ms.map LegSpace.dim) (fun μ =>
        toDenseOn (asmG a.rank (complementAxes a.rank (in0 ++ in1)) L (in0 ++ in1) (Ms ++ Ms)) a
          (asmG a.rank (complementAxes a.rank (in0 ++ in1)) i (in0 ++ in1) (μ ++ μ))) := by
  obtain ⟨hlen, hnd2, hlt, _, hc⟩ := trace_ok_iff' h hne
  have hA : AxSplit a.rank (complementAxes a.rank (in0 ++ in1)) (in0 ++ in1) := ⟨rfl, hnd2, hlt⟩
  generalize ho : complementAxes a.rank (in0 ++ in1) = out at *
  have hcr : c.rank = out.length := by
    rw [hc]; simp only [Tensor.rank, pick_length, ho]
  have hLi : L.length = i.length := by omega
  have hL' : toDenseOn L c i =
      if (List.range out.length).all (fun k => (locAt L i k).isSome) then
        (match c.get? (keyAt L i out.length) with
          | none => 0
          | some C => C.val (posAt L i out.length))
      else 0 := by
    unfold toDenseOn
    rw [hcr]
    split
    · cases c.get? (keyAt L i out.length) <;> rfl
    · rfl
  rw [hL', sumIdx_eq_sum]
  have hR : ∀ μ ∈ allIdx (Ms.map LegSpace.dim),
      toDenseOn (asmG a.rank out L (in0 ++ in1) (Ms ++ Ms)) a (asmG a.rank out i (in0 ++ in1) (μ ++ μ)) =
      if (List.range out.length).all (fun k => (locAt L i k).isSome) then
        liftAll (fun γs q => opVal a out (in0 ++ in1) (keyAt L i out.length) (posAt L i out.length) (γs ++ γs) (q ++ q))
          (locAll Ms μ)
      else 0 := by
    intro μ hμ
    have hμl : μ.length = Ms.length := by rw [mem_allIdx_length hμ, List.length_map]
    have hinn : (in0 ++ in1).length = Ms.length + Ms.length := by simp [hMs, hlen]
    rw [toDense_asm a hA, hinn, allLoc_append Ms Ms μ μ Ms.length hμl.symm, keyAt_append Ms Ms μ μ Ms.length hμl.symm,
      posAt_append Ms Ms μ μ Ms.length hμl.symm, locAll_eq Ms μ hμl]
    by_cases h1 : (List.range out.length).all (fun k => (locAt L i k).isSome) = true
    · by_cases h3 : (List.range Ms.length).all (fun k => (locAt Ms μ k).isSome) = true
      · simp only [h1, h3, Bool.and_self, if_true, liftAll]
      · have h3' : (List.range Ms.length).all (fun k => (locAt Ms μ k).isSome) = false := by simpa using h3
        simp [h1, h3', liftAll]
    · have h1' : (List.range out.length).all (fun k => (locAt L i k).isSome) = false := by simpa using h1
      simp [h1']
  rw [List.map_congr_left hR]
  by_cases hAll : (List.range out.length).all (fun k => (locAt L i k).isSome) = true
  · simp only [hAll, if_true]
    rw [multi_split]
    have hα : (keyAt L i out.length).length = out.length := by simp [keyAt]
    have := trace_result_as_block_sum h hne (keyAt L i out.length) (posAt L i out.length)
    rw [ho] at this
    rw [this, ← trace_sector_sum_eq_block_sum ha hA hlen Ms hMs hnd hcover _ _ hα]
    rfl
  · have hAll' : (List.range out.length).all (fun k => (locAt L i k).isSome) = false := by simpa using hAll
    simp only [hAll', Bool.false_eq_true, if_false]
    exact (List.sum_eq_zero (by intro y hy; obtain ⟨_, _, rfl⟩ := List.mem_map.mp hy; rfl)).symm

end YModel

namespace YModel
section examples
open SymGen
/-- a U1 tensor with a traceable pair of legs (0, 1), one block whose pair charges differ (does not enter the trace) -/
def exT : Tensor Int :=
  { sym := sym_U1, s := [1, -1, 1], n := [0], isdiag := false,
    blocks := [([[0], [0], [0]], ⟨[1, 1, 2], fun i => 1 + i.getD 2 0⟩),
               ([[0], [1], [1]], ⟨[1, 2, 1], fun i => 7 + i.getD 1 0⟩),
               ([[1], [1], [0]], ⟨[2, 2, 2], fun i => 10 * i.getD 0 0 + i.getD 1 0 + 3⟩)] }
/-- non-vacuity: hypotheses of `toDense_trace` hold for `exT`, and both sides evaluate to `[18, 19, 0]` -/
example : WF [0] exT := wfCheck_sound (by decide)
example : ∀ ka ∈ exT.blocks, pick ka.1 [0] = pick ka.1 [1] → secOf [0] ka ∈ sectorProduct [[([0], 1), ([1], 2)]] := by decide
example : (trace exT [0] [1]).toOption.map (fun c => [0, 1, 2].map (fun j => toDenseOn [[([0], 2), ([1], 1)]] c [j])) = some [18, 19, 0] := by decide
example : [0, 1, 2].map (fun j => sumIdx ([[([0], 1), ([1], 2)]].map LegSpace.dim) (fun μ =>
    toDenseOn (asmG exT.rank (complementAxes exT.rank ([0] ++ [1])) [[([0], 2), ([1], 1)]] ([0] ++ [1])
      ([[([0], 1), ([1], 2)]] ++ [[([0], 1), ([1], 2)]])) exT
      (asmG exT.rank (complementAxes exT.rank ([0] ++ [1])) [j] ([0] ++ [1]) (μ ++ μ)))) = [18, 19, 0] := by decide
end examples
end YModel
