import YModel.ExpectSpec
namespace YModel.Expect
/-- placeholder while the harness is brought up -/
theorem expect_nil_placeholder : canon ([] : List (Op Int)) = [] := rfl
end YModel.Expect
