import YProofs.Lemmas.GramPSD
import YProofs.Lemmas.ExpectLemmas
import YProofs.Lemmas.SwapsBook
/-!
# C12 — Exact PEPS environments give exact expectation values and valid metrics

**What is proved here and what is not.**  The environment algorithms (`EnvBoundaryMPS`, `EnvCTM`, `EnvBP`, `EnvNTU`,
`evolution_step_`) are *not* modelled.  This file contains

* the theorems about the executable **specification** of an expectation value (`YModel/ExpectSpec.lean`): what
  "equal to the dense state, including all fermionic signs, with the identity measuring 1" means
  (`expect_spec_props` and its parts),
* the generic **positivity** facts behind "bond metrics are Hermitian and positive semi-definite"
  (`gram_psd`, `cp_compose`): a cluster contraction whose bra layer is the conjugate of its ket layer has Gram form,
* the **bookkeeping** of `DoublePepsTensor.add_charge_swaps_` with which all `measure_*` functions place their
  Jordan–Wigner strings (`charge_swap_toggle` and its parts).

The tie to the code is the differential test `harness/props/c12.py` (level *translation validation*): the real
environments against a NumPy Jordan–Wigner reference, the Lean driver against the real `sign_canonical_order` and
`add_charge_swaps_`, and the Lean specification `expect` against the NumPy reference on exact integer data.
-/
open Matrix
open scoped ComplexOrder

namespace YModel

/-! ## positivity of Gram-form metrics -/

/-- **gram_psd** (clause "bond metrics are Hermitian and positive semi-definite"): every metric of Gram form
`g = Σ_k X_k† X_k` over ℝ or ℂ is Hermitian, positive semi-definite, has a non-negative quadratic form and only
non-negative eigenvalues — for all index sets, all dimensions, all matrices. -/
theorem gram_psd {𝕜 : Type*} [RCLike 𝕜] {m n ι : Type*} [Fintype m] [Fintype n] [DecidableEq n]
    (s : Finset ι) (X : ι → Matrix m n 𝕜) :
    (Gram.gram s X).IsHermitian ∧ (Gram.gram s X).PosSemidef ∧
      (∀ x : n → 𝕜, 0 ≤ star x ⬝ᵥ (Gram.gram s X *ᵥ x)) ∧
      (∀ i, 0 ≤ (Gram.gram_isHermitian s X).eigenvalues i) :=
  ⟨Gram.gram_isHermitian s X, Gram.gram_posSemidef s X, Gram.gram_quadratic_nonneg s X,
    Gram.gram_eigenvalues_nonneg s X⟩

/-- **cp_compose** (why tree-like NTU clusters keep valid metrics): conjugation `g ↦ B† g B` — attaching one more
layer of ket tensors `B` together with their conjugates — maps positive semi-definite metrics to positive
semi-definite metrics, and maps Gram form to Gram form: `B† (Σ X_k† X_k) B = Σ (X_k B)† (X_k B)`. -/
theorem cp_compose {𝕜 : Type*} [RCLike 𝕜] {m n p ι : Type*} [Fintype m] [Fintype n] [Fintype p] :
    (∀ (g : Matrix n n 𝕜) (B : Matrix n p 𝕜), g.PosSemidef → (Bᴴ * g * B).PosSemidef) ∧
    (∀ (s : Finset ι) (X : ι → Matrix m n 𝕜) (B : Matrix n p 𝕜),
        Bᴴ * Gram.gram s X * B = Gram.gram s (fun k => X k * B)) :=
  ⟨fun _ B hg => hg.conjTranspose_mul_mul_same B, fun s X B => Gram.gram_conj s X B⟩

/-- non-vacuity: a concrete non-diagonal Gram matrix (`X = [[1,2],[0,1]]`, `X†X = [[1,2],[2,5]]`) -/
example : (!![1, 2; 2, 5] : Matrix (Fin 2) (Fin 2) ℝ).PosSemidef := by
  have h := (gram_psd (𝕜 := ℝ) (Finset.univ : Finset (Fin 1)) (fun _ => (!![1, 2; 0, 1] : Matrix (Fin 2) (Fin 2) ℝ))).2.1
  have e : Gram.gram (Finset.univ : Finset (Fin 1)) (fun _ => (!![1, 2; 0, 1] : Matrix (Fin 2) (Fin 2) ℝ))
      = !![1, 2; 2, 5] := by
    unfold Gram.gram
    ext i j
    fin_cases i <;> fin_cases j <;> (simp [Matrix.mul_apply, Fin.sum_univ_two]; try norm_num)
  rwa [e] at h

namespace Expect

/-! ## the specification of expectation values -/

/-- **graded reordering** (clause "including all fermionic signs"): exchanging two neighbouring operators that act on
*different* sites multiplies the specified expectation value by `(−1)^{⟨n_a, n_b⟩_fss}` — for every operator word,
every state, every `config.fermionic`, every commutative value ring (operators on one site are never exchanged).
Built on the C05 inversion lemma `invSign_swap_adjacent`. -/
theorem expect_reorder {R : Type} [CommRing R] (f : Fermionic) (basis : List Charge) (d : Nat) (conj : R → R)
    (pre : List (Op R)) (a b : Op R) (post : List (Op R)) (v : State R) (h : a.site ≠ b.site) :
    expect f basis d conj (pre ++ a :: b :: post) v =
      zsign (sgn (f.weight a.charge b.charge)) (expect f basis d conj (pre ++ b :: a :: post) v) := by
  unfold expect
  rw [specSign_swap_adjacent f pre a b post h, canon_swap_adjacent pre a b post h,
    zsign_mul _ _ (sgn_cases _) (specSign_cases f _)]

/-- the sign of the specification (closed form: weighted inversion parity) is the sign computed by the selection
loop of `sign_canonical_order` (C05), for every operator word -/
theorem specSign_eq_source_loop {R : Type} (f : Fermionic) (ops : List (Op R)) : scoSign f ops = specSign f ops :=
  signCanonicalOrder_eq_inversions f natLe_totalPreorder _

/-- bosonic configurations (`fermionic = False` or `()`) carry no sign -/
theorem specSign_bosonic {R : Type} (f : Fermionic) (hf : f.truthy = false) (ops : List (Op R)) : specSign f ops = 1 := by
  unfold specSign invSign
  have : invCount f.weight natLe (ops.map Op.key) = 0 := by
    generalize ops.map Op.key = l
    induction l with
    | nil => rfl
    | cons x l ih =>
      obtain ⟨s, n⟩ := x
      simp only [invCount, ih, Int.add_zero]
      exact sum_map_zero _ _ (fun q _ => weight_falsy f hf _ _)
  rw [this]; rfl

/-- **linearity in the ket**: `⟨u| O₁…O_k (c·w₁ + w₂)⟩ = c ⟨u|O₁…O_k w₁⟩ + ⟨u|O₁…O_k w₂⟩`
(sums of states are concatenations of formal sums) -/
theorem matrixElement_linear {R : Type} [CommRing R] (f : Fermionic) (basis : List Charge) (d : Nat) (conj : R → R)
    (ops : List (Op R)) (u w1 w2 : State R) (c : R) :
    vdot conj u (applyAll f basis d ops (scale c w1 ++ w2)) =
      c * vdot conj u (applyAll f basis d ops w1) + vdot conj u (applyAll f basis d ops w2) := by
  rw [applyAll_append, vdot_append, applyAll_scale, vdot_scale]

/-- **the empty product measures `⟨ψ|ψ⟩`** -/
theorem expect_nil {R : Type} [CommRing R] (f : Fermionic) (basis : List Charge) (d : Nat) (conj : R → R)
    (v : State R) : expect f basis d conj [] v = vdot conj v v := by
  simp [expect, specSign, invSign, invCount, sgn, zsign, canon, isort, braket, applyAll]

/-- **the identity measures `⟨ψ|ψ⟩`** (clause "with the identity measuring 1" after division by the norm):
an operator with a neutral charge (`⟨n, t⟩_fss = 0` for all `t`) and the identity matrix, on any site, for every
state whose configurations are valid on that site. -/
theorem expect_identity {R : Type} [CommRing R] (f : Fermionic) (basis : List Charge) (d : Nat) (conj : R → R)
    (o : Op R) (hw : ∀ t, f.weight o.charge t = 0)
    (hI : ∀ a b, a < d → b < d → entry o.mat a b = if a = b then 1 else 0)
    (v : State R) (hv : ∀ t ∈ v, t.1.getD o.site 0 < d) :
    expect f basis d conj [o] v = vdot conj v v := by
  have hs : specSign f [o] = 1 := by
    simp [specSign, invSign, invCount, sgn]
  unfold expect
  rw [hs, zsign_one]
  simp only [canon, isort, insertBy, braket, applyAll, List.foldr_cons, List.foldr_nil]
  exact vdot_applyOp_identity f basis d conj o hw hI v v hv

/-- **expect_spec_props**: the three clauses together (linearity, identity, graded reordering). -/
theorem expect_spec_props {R : Type} [CommRing R] (f : Fermionic) (basis : List Charge) (d : Nat) (conj : R → R) :
    (∀ (ops : List (Op R)) (u w1 w2 : State R) (c : R),
        vdot conj u (applyAll f basis d ops (scale c w1 ++ w2)) =
          c * vdot conj u (applyAll f basis d ops w1) + vdot conj u (applyAll f basis d ops w2)) ∧
    (∀ (o : Op R), (∀ t, f.weight o.charge t = 0) →
        (∀ a b, a < d → b < d → entry o.mat a b = if a = b then 1 else 0) →
        ∀ v : State R, (∀ t ∈ v, t.1.getD o.site 0 < d) → expect f basis d conj [o] v = vdot conj v v) ∧
    (∀ (pre : List (Op R)) (a b : Op R) (post : List (Op R)) (v : State R), a.site ≠ b.site →
        expect f basis d conj (pre ++ a :: b :: post) v =
          zsign (sgn (f.weight a.charge b.charge)) (expect f basis d conj (pre ++ b :: a :: post) v)) :=
  ⟨fun ops u w1 w2 c => matrixElement_linear f basis d conj ops u w1 w2 c,
   fun o hw hI v hv => expect_identity f basis d conj o hw hI v hv,
   fun pre a b post v h => expect_reorder f basis d conj pre a b post v h⟩

/-! non-vacuity: spinless fermions (`Z2`, basis charges `[0]`, `[1]`), `c†` on site 0 and `c` on site 1 -/

/-- `c†₀ c₁` and `c₁ c†₀` on the state `|01⟩ + |10⟩` over ℤ: the values are `1` and `−1` -/
example :
    expect (R := Int) .all [[0], [1]] 2 id
        [⟨0, [1], [[0, 0], [1, 0]]⟩, ⟨1, [1], [[0, 1], [0, 0]]⟩] [([0, 1], 1), ([1, 0], 1)] = 1 ∧
      expect (R := Int) .all [[0], [1]] 2 id
        [⟨1, [1], [[0, 1], [0, 0]]⟩, ⟨0, [1], [[0, 0], [1, 0]]⟩] [([0, 1], 1), ([1, 0], 1)] = -1 ∧
      sgn (Fermionic.all.weight [1] [1]) = -1 := by decide

/-- the hypotheses of `expect_identity` are satisfiable: the identity of charge `[0]` on site 1 -/
example : (∀ t, Fermionic.all.weight [0] t = 0) ∧
    expect (R := Int) .all [[0], [1]] 2 id [⟨1, [0], [[1, 0], [0, 1]]⟩] [([0, 1], 2), ([1, 0], 3)] = 13 := by
  constructor
  · intro t
    cases t with
    | nil => rfl
    | cons x t => simp [Fermionic.weight, dotAll]
  · decide

/-! ## bookkeeping of `add_charge_swaps_` -/

/-- **charge_swap_toggle / accumulation**: one call `add_charge_swaps_(charge, axes)` with valid axis names raises no
error and leaves on every axis `a` — componentwise, up to the reduction `mod m` of the symmetry — the previous charge
plus `charge` times the number of occurrences of `a` in `axes`.  (The source stores the *first* charge of an axis as
given and reduces from the second one on; hence "up to the reduction".) -/
theorem charge_swap_accumulate (ms : List Nat) (sw : Swaps) (ch : Charge) (axes : List String)
    (hv : ∀ ax ∈ axes, validAxes.contains ax = true) (a : String) (j : Nat) (hj : j < ms.length) :
    (addChargeSwaps ms sw ch axes).2 = false ∧
    red (ms.getD j 0) ((val ms (addChargeSwaps ms sw ch axes).1 a).getD j 0) =
      red (ms.getD j 0) ((val ms sw a).getD j 0 + (axes.count a : Int) * ch.getD j 0) :=
  ⟨addChargeSwaps_valid ms ch axes sw hv, addChargeSwaps_accumulate ms ch a j hj axes sw hv⟩

/-- **order independence**: two calls commute (the accumulated charges are the same up to reduction) -/
theorem charge_swap_commute (ms : List Nat) (sw : Swaps) (c1 c2 : Charge) (l1 l2 : List String)
    (h1 : ∀ ax ∈ l1, validAxes.contains ax = true) (h2 : ∀ ax ∈ l2, validAxes.contains ax = true)
    (a : String) (j : Nat) (hj : j < ms.length) :
    red (ms.getD j 0) ((val ms (addChargeSwaps ms (addChargeSwaps ms sw c1 l1).1 c2 l2).1 a).getD j 0) =
      red (ms.getD j 0) ((val ms (addChargeSwaps ms (addChargeSwaps ms sw c2 l2).1 c1 l1).1 a).getD j 0) := by
  rw [addChargeSwaps_accumulate ms c2 a j hj l2 _ h2, addChargeSwaps_accumulate ms c1 a j hj l1 _ h1]
  rw [red_add_congr _ _ (addChargeSwaps_accumulate ms c1 a j hj l1 sw h1),
    red_add_congr _ _ (addChargeSwaps_accumulate ms c2 a j hj l2 sw h2)]
  congr 1
  omega

/-- **order independence inside one call**: permuting the listed axes does not change the accumulated charges -/
theorem charge_swap_perm (ms : List Nat) (sw : Swaps) (ch : Charge) (l1 l2 : List String) (hp : l1.Perm l2)
    (h1 : ∀ ax ∈ l1, validAxes.contains ax = true) (a : String) (j : Nat) (hj : j < ms.length) :
    red (ms.getD j 0) ((val ms (addChargeSwaps ms sw ch l1).1 a).getD j 0) =
      red (ms.getD j 0) ((val ms (addChargeSwaps ms sw ch l2).1 a).getD j 0) := by
  have h2 : ∀ ax ∈ l2, validAxes.contains ax = true := fun ax hax => h1 ax (hp.mem_iff.mpr hax)
  rw [addChargeSwaps_accumulate ms ch a j hj l1 sw h1, addChargeSwaps_accumulate ms ch a j hj l2 sw h2, hp.count_eq]

/-- **toggle**: for a `Z₂` component, swapping twice with the same charge cancels -/
theorem charge_swap_toggle (ms : List Nat) (sw : Swaps) (ch : Charge) (axes : List String)
    (hv : ∀ ax ∈ axes, validAxes.contains ax = true) (a : String) (j : Nat) (hj : j < ms.length)
    (h2 : ms.getD j 0 = 2) :
    red (ms.getD j 0) ((val ms (addChargeSwaps ms (addChargeSwaps ms sw ch axes).1 ch axes).1 a).getD j 0) =
      red (ms.getD j 0) ((val ms sw a).getD j 0) := by
  rw [addChargeSwaps_accumulate ms ch a j hj axes _ hv,
    red_add_congr _ _ (addChargeSwaps_accumulate ms ch a j hj axes sw hv)]
  rw [h2]
  unfold red
  simp only [show (2 : Nat) ≠ 0 by decide, if_false]
  omega

/-- **zero entries are removed, keys stay distinct** (invariants of `self.swaps`, for every script of calls) -/
theorem charge_swap_invariants (ms : List Nat) (sw : Swaps) (ch : Charge) (axes : List String)
    (hz : NoZero ms sw) (hn : (sw.map (·.1)).Nodup) :
    NoZero ms (addChargeSwaps ms sw ch axes).1 ∧ ((addChargeSwaps ms sw ch axes).1.map (·.1)).Nodup :=
  ⟨addChargeSwaps_noZero ms ch axes sw hz, addChargeSwaps_nodup ms ch axes sw hn⟩

/-- **error branch**: the first unknown axis name raises; the entries written before it stay written -/
theorem charge_swap_invalid (ms : List Nat) (sw : Swaps) (ch : Charge) (ax : String) (rest : List String)
    (h : validAxes.contains ax = false) : addChargeSwaps ms sw ch (ax :: rest) = (sw, true) := by
  simp only [addChargeSwaps, h, Bool.false_eq_true, if_false]

/-- non-vacuity: `Z₂`, the script of `measure_2x2` for operators on `bl` and `tr` of charge `[1]` on the tensor `tl`:
`['b3','k4']` then `['k2','k4']` leaves `b3`, `k2` and removes `k4` -/
example : (addChargeSwaps [2] (addChargeSwaps [2] [] [1] ["b3", "k4"]).1 [1] ["k2", "k4"]) =
    ([("b3", [1]), ("k2", [1])], false) := by decide

/-- non-vacuity of the error branch and of the raw first entry (`[3]` is stored unreduced for `Z₂`) -/
example : addChargeSwaps [2] [] [3] ["b0", "kt", "b1"] = ([("b0", [3])], true) := by decide

end Expect
end YModel
