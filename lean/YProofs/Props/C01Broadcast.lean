import YProofs.Props.C02
import YProofs.Lemmas.DenseSum
/-!
# C01/C02 (continued) — `broadcast` of a diagonal tensor

`toDense_broadcast`: multiplying leg `ax` of `a` by the diagonal `d` multiplies the dense array, element by element,
by the diagonal value located at position `idx[ax]` of that leg — for every symmetry, rank, sector content (sectors of
`a` absent from `d` give zero), on any leg spaces.  `wf_broadcast`: the result is well-formed with the structure of `a`.
-/
namespace YModel
variable {R : Type} {ms : List Nat}

theorem broadcast_ok_iff [Zero R] [Mul R] {d a c : Tensor R} {ax : Nat} (h : broadcast d a ax = .ok c) :
    ax < a.rank ∧
    c = { a with blocks := (a.blocks.filter (fun kb => (d.get? [kb.1.getD ax [], kb.1.getD ax []]).isSome)).map (fun kb =>
            (kb.1, ⟨kb.2.shape, fun i => diagVal d (kb.1.getD ax []) (i.getD ax 0) * kb.2.val i⟩)) } := by
  unfold broadcast at h
  split at h; · cases h
  split at h; · cases h
  split at h; · cases h
  simp only at h
  split at h; · cases h
  cases h
  rename_i _ _ h3 _
  exact ⟨by omega, rfl⟩

/-- the result is a well-formed tensor with the signature, charge and (a subset of the) blocks structure of `a` -/
theorem wf_broadcast [Zero R] [Mul R] {d a c : Tensor R} {ax : Nat} (ha : WF ms a) (h : broadcast d a ax = .ok c) :
    WF ms c ∧ c.s = a.s ∧ c.n = a.n ∧ c.sym = a.sym := by
  obtain ⟨_, hc⟩ := broadcast_ok_iff h
  have hsub : ∀ x ∈ c.blocks, ∃ kb ∈ a.blocks, x.1 = kb.1 ∧ x.2.shape = kb.2.shape := by
    intro x hx
    rw [hc] at hx
    simp only [List.mem_map, List.mem_filter] at hx
    obtain ⟨kb, ⟨hkb, _⟩, rfl⟩ := hx
    exact ⟨kb, hkb, rfl, rfl⟩
  have hcs : c.s = a.s := by rw [hc]
  have hcn : c.n = a.n := by rw [hc]
  have hcsym : c.sym = a.sym := by rw [hc]
  have hrank : c.rank = a.rank := by unfold Tensor.rank; rw [hcs]
  refine ⟨⟨?_, ?_, ?_, ?_, ?_, ?_, ?_, ?_⟩, hcs, hcn, hcsym⟩
  · intro x hx; rw [hcs] at hx; exact ha.sig x hx
  · rw [hcn]; exact ha.ncanon
  · rw [hc]
    simp only [Tensor.keys, List.map_map, Function.comp_def]
    have hs := ha.sorted
    simp only [Tensor.keys] at hs
    exact (hs.sublist (List.Sublist.map _ (List.filter_sublist)))
  · intro x hx
    obtain ⟨kb, hkb, h1, h2⟩ := hsub x hx
    rw [h1, h2, hrank]; exact ha.keyRank kb hkb
  · intro x hx ch hch
    obtain ⟨kb, hkb, h1, _⟩ := hsub x hx
    rw [h1] at hch; exact ha.canon kb hkb ch hch
  · intro x hx
    obtain ⟨kb, hkb, h1, _⟩ := hsub x hx
    show chargeOfKey c.sym c.s x.1 = c.n
    rw [hcsym, hcs, hcn, h1]; exact ha.rule kb hkb
  · intro x hx dd hdd
    obtain ⟨kb, hkb, _, h2⟩ := hsub x hx
    rw [h2] at hdd; exact ha.dimsPos kb hkb dd hdd
  · intro x hx y hy i hxy
    obtain ⟨kx, hkx, x1, x2⟩ := hsub x hx
    obtain ⟨ky, hky, y1, y2⟩ := hsub y hy
    rw [x2, y2]; rw [x1, y1] at hxy
    exact ha.dimsCons kx hkx ky hky i hxy

/-- lookup in a filtered-and-rescaled block list, when the filter only depends on the key -/
theorem find?_filter_map_key (l : List (Key × Block R)) (P : Key → Bool) (f : Key × Block R → Block R) (K : Key) :
    (((l.filter (fun kb => P kb.1)).map (fun kb => (kb.1, f kb))).find? (fun kb => kb.1 == K)).map (·.2) =
      if P K then ((l.find? (fun kb => kb.1 == K)).map f) else none := by
  induction l with
  | nil => simp
  | cons x xs ih =>
    by_cases hk : x.1 = K
    · by_cases hp : P x.1 = true
      · have hpK : P K = true := by rw [← hk]; exact hp
        simp [List.filter_cons, hp, hk, hpK, List.find?_cons]
      · have hp' : P x.1 = false := by simpa using hp
        have hpK : P K = false := by rw [← hk]; exact hp'
        simp only [List.filter_cons, hp', Bool.false_eq_true, if_false, hpK]
        rw [ih, hpK]; rfl
    · have hk' : (x.1 == K) = false := by simpa using hk
      by_cases hp : P x.1 = true
      · simp only [List.filter_cons, hp, if_true, List.map_cons, List.find?_cons, hk']
        exact ih
      · have hp' : P x.1 = false := by simpa using hp
        simp only [List.filter_cons, hp', Bool.false_eq_true, if_false, List.find?_cons, hk']
        exact ih

/-- **`broadcast` multiplies the dense array along the chosen leg by the diagonal** -/
theorem toDense_broadcast [CommRing R] {d a c : Tensor R} {ax : Nat} (h : broadcast d a ax = .ok c)
    (L : List LegSpace) (idx : List Nat) :
    toDenseOn L c idx = liftLoc (fun γ q => diagVal d γ q) (locAt L idx ax) * toDenseOn L a idx := by
  obtain ⟨hax, hc⟩ := broadcast_ok_iff h
  have hrank : c.rank = a.rank := by rw [hc]; rfl
  unfold toDenseOn
  rw [hrank]
  by_cases hall : (List.range a.rank).all (fun i => (locAt L idx i).isSome) = true
  · rw [if_pos hall, if_pos hall]
    have hsome : (locAt L idx ax).isSome = true := by
      simp only [List.all_eq_true, List.mem_range] at hall
      exact hall ax hax
    obtain ⟨tq, htq⟩ := Option.isSome_iff_exists.mp hsome
    obtain ⟨γ, q⟩ := tq
    have hK : (keyAt L idx a.rank).getD ax [] = γ := by
      unfold keyAt
      rw [List.getD_eq_getElem?_getD, List.getElem?_map, List.getElem?_range hax]
      simp [htq]
    have hP : (posAt L idx a.rank).getD ax 0 = q := by
      unfold posAt
      rw [List.getD_eq_getElem?_getD, List.getElem?_map, List.getElem?_range hax]
      simp [htq]
    have hcb : c.blocks = (a.blocks.filter (fun kb => (d.get? [kb.1.getD ax [], kb.1.getD ax []]).isSome)).map
        (fun kb => (kb.1, (⟨kb.2.shape, fun i => diagVal d (kb.1.getD ax []) (i.getD ax 0) * kb.2.val i⟩ : Block R))) := by rw [hc]
    have key := find?_filter_map_key a.blocks (fun k => (d.get? [k.getD ax [], k.getD ax []]).isSome)
      (fun kb => (⟨kb.2.shape, fun i => diagVal d (kb.1.getD ax []) (i.getD ax 0) * kb.2.val i⟩ : Block R))
      (keyAt L idx a.rank)
    have hget : c.get? (keyAt L idx a.rank) =
        if (d.get? [(keyAt L idx a.rank).getD ax [], (keyAt L idx a.rank).getD ax []]).isSome then
          (a.get? (keyAt L idx a.rank)).map (fun b => (⟨b.shape, fun i =>
            diagVal d ((keyAt L idx a.rank).getD ax []) (i.getD ax 0) * b.val i⟩ : Block R))
        else none := by
      have e1 : c.get? (keyAt L idx a.rank) = (c.blocks.find? (fun kb => kb.1 == keyAt L idx a.rank)).map (·.2) := rfl
      have e2 : a.get? (keyAt L idx a.rank) = (a.blocks.find? (fun kb => kb.1 == keyAt L idx a.rank)).map (·.2) := rfl
      rw [e1, hcb, key, e2]
      by_cases hd : (d.get? [(keyAt L idx a.rank).getD ax [], (keyAt L idx a.rank).getD ax []]).isSome = true
      · rw [if_pos hd, if_pos hd]
        cases hf : a.blocks.find? (fun kb => kb.1 == keyAt L idx a.rank) with
        | none => rfl
        | some kb =>
          have hkk : kb.1 = keyAt L idx a.rank := by
            have := List.find?_some hf
            simpa using this
          simp only [Option.map_some]
          rw [hkk]
      · rw [if_neg hd, if_neg hd]
    rw [hget, htq]
    simp only [liftLoc, hK]
    by_cases hd : (d.get? [γ, γ]).isSome = true
    · rw [if_pos hd]
      cases a.get? (keyAt L idx a.rank) with
      | none => simp
      | some b =>
        simp only [Option.map_some]
        rw [hP]
    · rw [if_neg hd]
      have : d.get? [γ, γ] = none := by simpa using hd
      simp [diagVal, this]
  · have hall' : (List.range a.rank).all (fun i => (locAt L idx i).isSome) = false := by simpa using hall
    rw [hall']; simp

end YModel
