import YProofs.Lemmas.SwapLemmas
import YProofs.Lemmas.ScoLemmas
import YProofs.Lemmas.NconLemmas
import YProofs.Lemmas.NconSemantics
/-!
# C05 — Fermionic signs are consistent and order-independent

Model: `YModel/Swap.lean` (M8: `swap_charges`, `swap_gate` in both call forms, `sign_canonical_order`)
and `YModel/Ncon.lean` (M9: semantics of the command lists of `_meta_ncon`).  The correspondence of
these definitions with the real code is established on every run by `harness/props/c05.py`.

Clauses of the property and where they are proved:
* "swap_gate multiplies each block by the sign fixed by the parities of the swapped charges (only in
  the components declared fermionic)" – `swap_sign_formula`, `swapGate_sign_formula`,
  `swapGateCharge_sign_formula`, `pair_sign_componentwise`, `swapGate_ignores_bosonic_components`,
  `swapGate_pair_symm`, `swapGate_pairs_perm`
* "is its own inverse" – `swapGate_involutive`, `swapGateCharge_involutive`
* "is the identity when statistics are bosonic" – `swapGate_bosonic`, `swapGateCharge_bosonic`
* "in the declared fermionic order of sites" (operator ordering sign used by `fkron`, `generate_mpo`,
  measurements; C07 builds on it) – `signCanonicalOrder_eq_inversions`, `signCanonicalOrder_sorted`,
  `signCanonicalOrder_same_site`, `invSign_swap_adjacent`
* "the value of an ncon network with swap gates does not depend on the contraction order" –
  `jump_move`, `jump_move_bool`, `toggle_cancels`, `execSign_tensordot_invariant`, `ncon_swaps_simple`
  (command semantics), and, per network, `ncon_order_independent_partial`
  (translation validation: the planner's output is judged, the planner itself is not verified).
-/
namespace YModel

/-! ## swap_charges -/

/-- **sign formula of `swap_charges`**: for a truthy `config.fermionic` the result is
`(−1)^{Σ_i ⟨c0_i, c1_i⟩_fss}`, the product over the listed pairs of the pair signs; otherwise `1`. -/
theorem swap_sign_formula (f : Fermionic) (cs0 cs1 : List Charge) :
    swapSign f cs0 cs1 =
      if f.truthy then sprod (List.zipWith (fun a b => sgn (f.weight a b)) cs0 cs1) else 1 := by
  have key : ∀ w : Charge → Charge → Int,
      sgn (List.zipWith w cs0 cs1).sum = sprod (List.zipWith (fun a b => sgn (w a b)) cs0 cs1) := by
    intro w
    rw [sgn_sum, List.map_zipWith]
  cases f with
  | all => simp only [swapSign, Fermionic.truthy, if_true, Fermionic.weight]; exact key _
  | none => simp [swapSign, Fermionic.truthy]
  | mask m =>
    simp only [swapSign, Fermionic.truthy, Fermionic.weight]
    by_cases hm : m.isEmpty = true
    · simp [hm]
    · simp only [hm, Bool.not_false, if_true]; exact key _

/-- `fermionic = True` weighs with the plain dot product = the masked form with the all-true mask -/
theorem weight_all_eq_mask (nsym : Nat) (a b : Charge) (h : a.length ≤ nsym) :
    Fermionic.all.weight a b = (Fermionic.mask (Fermionic.all.fss nsym)).weight a b := by
  simp only [Fermionic.weight, Fermionic.fss]
  exact (fdot_replicate_true nsym a b h).symm

/-- the sign of one pair is the product over the fermionic components `j` of
`(−1)^{parity(a_j)·parity(b_j)}`; bosonic components contribute `1`. -/
theorem pair_sign_componentwise (fss : List Bool) (a b : Charge) :
    sgn (fdot fss a b) = sprod ((List.range fss.length).map
      (fun j => if fss.getD j false then sgn ((a.getD j 0 % 2) * (b.getD j 0 % 2)) else 1)) := by
  unfold fdot
  rw [sgn_sum, List.map_map]
  congr 1
  apply List.map_congr_left
  intro j _
  simp only [Function.comp]
  split
  · exact sgn_mul_parity _ _
  · exact sgn_zero

/-! ## swap_gate(axes) -/

/-- **block sign of `swap_gate(axes)`**: product over the declared pairs of groups of
`(−1)^{⟨Σ_{l∈g₁} t_l , Σ_{l∈g₂} t_l⟩_fss}` (only parities of the fermionic components enter, see
`pair_sign_componentwise`, `swapGate_ignores_bosonic_components`). -/
theorem swapGate_sign_formula (nsym : Nat) (fss : List Bool) (ps : List (List Nat × List Nat)) (ts : List Charge) :
    tpSign (swapGateTpOf nsym fss ps ts) =
      sprod (ps.map (fun g => sgn (fdot fss (groupCharge nsym ts g.1) (groupCharge nsym ts g.2)))) := by
  unfold swapGateTpOf
  rw [tpSign_emod, sgn_sum, List.map_map]
  congr 1
  apply List.map_congr_left
  intro g _
  simp only [Function.comp, pairTerm]
  exact sgn_congr (fdot_cmod2 _ _ _)

/-- **`swap_gate` is its own inverse** (whole tensor, every configuration, every grouping) -/
theorem swapGate_involutive (f : Fermionic) (nsym : Nat) (axes : List (List Nat)) (a b : List SBlock)
    (h : swapGate f nsym axes a = .ok b) : swapGate f nsym axes b = .ok a := by
  unfold swapGate at *
  by_cases ht : f.truthy = true
  · simp only [ht, Bool.not_true] at h ⊢
    cases hp : pairUp axes with
    | none => rw [hp] at h; simp at h
    | some ps =>
      rw [hp] at h
      simp only [Bool.false_eq_true, if_false] at h ⊢
      have hb : b = a.map (fun b => b.scale (tpSign (swapGateTpOf nsym (f.fss nsym) ps b.1))) := by
        injection h with h; exact h.symm
      rw [hb, List.map_map]
      congr 1
      conv => rhs; rw [← List.map_id a]
      apply List.map_congr_left
      intro x _
      simp only [Function.comp, id]
      have : (x.scale (tpSign (swapGateTpOf nsym (f.fss nsym) ps x.1))).1 = x.1 := rfl
      rw [this]
      exact scale_scale _ (tpSign_sq _) x
  · simp only [ht, Bool.not_false, if_true] at h ⊢
    injection h with h; rw [h]

/-- **bosonic identity**: `fermionic = False` (or the empty tuple) returns the argument; a tuple
without any `True` changes no block. -/
theorem swapGate_bosonic (f : Fermionic) (nsym : Nat) (axes : List (List Nat)) (a : List SBlock) :
    (f.truthy = false → swapGate f nsym axes a = .ok a) ∧
    ((∀ x ∈ f.fss nsym, x = false) → ∀ b, swapGate f nsym axes a = .ok b → b = a) := by
  constructor
  · intro ht; unfold swapGate; simp [ht]
  · intro hf b h
    unfold swapGate at h
    by_cases ht : f.truthy = true
    · simp only [ht, Bool.not_true, Bool.false_eq_true, if_false] at h
      cases hp : pairUp axes with
      | none => rw [hp] at h; simp at h
      | some ps =>
        rw [hp] at h
        injection h with h
        rw [← h]
        conv => rhs; rw [← List.map_id a]
        apply List.map_congr_left
        intro x _
        rw [swapGateTpOf_bosonic nsym _ hf]
        exact scale_one x
    · simp only [ht, Bool.not_false, if_true] at h
      injection h with h; exact h.symm

/-- **only the components declared fermionic count, and only their parities**: two blocks whose
leg charges have equal parities in every fermionic component get the same sign. -/
theorem swapGate_ignores_bosonic_components (nsym : Nat) (fss : List Bool) (ps : List (List Nat × List Nat))
    (ts ts' : List Charge)
    (h : ∀ l j, fss.getD j false = true → (ts.getD l []).getD j 0 % 2 = (ts'.getD l []).getD j 0 % 2) :
    swapGateTpOf nsym fss ps ts = swapGateTpOf nsym fss ps ts' := by
  unfold swapGateTpOf
  apply sum_map_emod_congr
  intro g _
  unfold pairTerm
  have hg : ∀ (g : List Nat) j, fss.getD j false = true →
      (cmod2 (groupCharge nsym ts g)).getD j 0 % 2 = (cmod2 (groupCharge nsym ts' g)).getD j 0 % 2 := by
    intro g j hj
    rw [cmod2_getD, cmod2_getD, groupCharge_getD, groupCharge_getD]
    split
    · congr 1
      exact sum_map_emod_congr _ _ _ (fun l _ => h l j hj)
    · rfl
  exact fdot_emod_congr fss _ _ _ _ (hg g.1) (hg g.2)

/-- **the order inside a declared pair is irrelevant** -/
theorem swapGate_pair_symm (nsym : Nat) (fss : List Bool) (ts : List Charge) (g1 g2 : List Nat) :
    pairTerm nsym fss ts (g1, g2) = pairTerm nsym fss ts (g2, g1) := by
  unfold pairTerm; exact fdot_comm _ _ _

/-- **the order of the declared pairs is irrelevant** -/
theorem swapGate_pairs_perm (nsym : Nat) (fss : List Bool) (ts : List Charge) {ps ps' : List (List Nat × List Nat)}
    (h : ps.Perm ps') : swapGateTpOf nsym fss ps ts = swapGateTpOf nsym fss ps' ts := by
  unfold swapGateTpOf; rw [perm_sum_map _ h]

/-! ## swap_gate(axes, charge) -/

/-- **block sign of `swap_gate(axes, charge)`**: product over the listed legs of
`(−1)^{⟨t_leg, charge_k⟩_fss}` (no swap between the legs themselves). -/
theorem swapGateCharge_sign_formula (nsym : Nat) (fss : List Bool) (axes : List Nat) (charges : List Int) (ts : List Charge) :
    tpSign (swapGateChargeTpOf nsym fss axes charges ts) =
      sprod ((List.range axes.length).map (fun k =>
        sgn (fdot fss (ts.getD (axes.getD k 0) []) ((charges.drop (k * nsym)).take nsym)))) := by
  unfold swapGateChargeTpOf
  rw [tpSign_emod, sgn_sum, List.map_map]
  congr 1
  apply List.map_congr_left
  intro k _
  simp only [Function.comp]
  exact sgn_congr (fdot_cmod2_right _ _ _)

theorem swapGateCharge_involutive (f : Fermionic) (nsym : Nat) (axes : List Nat) (charges : List Int) (a b : List SBlock)
    (h : swapGateCharge f nsym axes charges a = .ok b) : swapGateCharge f nsym axes charges b = .ok a := by
  unfold swapGateCharge at *
  by_cases ht : f.truthy = true
  · simp only [ht, Bool.not_true, Bool.false_eq_true, if_false] at h ⊢
    by_cases hl : charges.length ≠ axes.length * nsym
    · rw [if_pos hl] at h; simp at h
    · rw [if_neg hl] at h ⊢
      have hb : b = a.map (fun b => b.scale (tpSign (swapGateChargeTpOf nsym (f.fss nsym) axes charges b.1))) := by
        injection h with h; exact h.symm
      rw [hb, List.map_map]
      congr 1
      conv => rhs; rw [← List.map_id a]
      apply List.map_congr_left
      intro x _
      simp only [Function.comp, id]
      have : (x.scale (tpSign (swapGateChargeTpOf nsym (f.fss nsym) axes charges x.1))).1 = x.1 := rfl
      rw [this]
      exact scale_scale _ (tpSign_sq _) x
  · simp only [ht, Bool.not_false, if_true] at h ⊢
    injection h with h; rw [h]

theorem swapGateCharge_bosonic (f : Fermionic) (nsym : Nat) (axes : List Nat) (charges : List Int) (a : List SBlock) :
    (f.truthy = false → swapGateCharge f nsym axes charges a = .ok a) ∧
    ((∀ x ∈ f.fss nsym, x = false) → ∀ b, swapGateCharge f nsym axes charges a = .ok b → b = a) := by
  constructor
  · intro ht; unfold swapGateCharge; simp [ht]
  · intro hf b h
    unfold swapGateCharge at h
    by_cases ht : f.truthy = true
    · simp only [ht, Bool.not_true, Bool.false_eq_true, if_false] at h
      by_cases hl : charges.length ≠ axes.length * nsym
      · rw [if_pos hl] at h; simp at h
      · rw [if_neg hl] at h
        injection h with h
        rw [← h]
        conv => rhs; rw [← List.map_id a]
        apply List.map_congr_left
        intro x _
        have : swapGateChargeTpOf nsym (f.fss nsym) axes charges x.1 = 0 := by
          unfold swapGateChargeTpOf
          rw [sum_map_zero _ _ (fun k _ => fdot_allFalse _ _ _ hf)]; rfl
        rw [this]
        exact scale_one x
    · simp only [ht, Bool.not_false, if_true] at h
      injection h with h; exact h.symm

/-! ## sign_canonical_order -/

/-- **the selection procedure of `sign_canonical_order` equals the inversion-parity closed form**
`(−1)^{Σ_{i<j, siteᵢ > siteⱼ} ⟨nᵢ,nⱼ⟩_fss}` for EVERY list of (site, charge), every
`config.fermionic` and every `f_ordered` that is a total preorder (all callers in yastn pass `≤`
on integers, on `f_map` ranks, or the lexicographic PEPS order).  Pairs at the same site are never
counted (`siteᵢ > siteⱼ` is strict). -/
theorem signCanonicalOrder_eq_inversions {σ : Type} (f : Fermionic) {le : σ → σ → Bool} (hle : TotalPreorder le)
    (ops : List (σ × Charge)) : signCanonicalOrder f le ops = invSign f le ops := by
  unfold signCanonicalOrder invSign
  by_cases he : ops.isEmpty = true
  · have : ops = [] := List.isEmpty_iff.mp he
    subst this; rfl
  · by_cases ht : f.truthy = true
    · simp only [he, ht, Bool.not_true, Bool.or_self, Bool.false_eq_true, if_false]
      have hsum := scoPairs_sum f.weight hle ops.length ops (Nat.le_refl _)
      by_cases hp : (scoPairs le ops.length ops).isEmpty = true
      · rw [if_pos hp]
        have : scoPairs le ops.length ops = [] := List.isEmpty_iff.mp hp
        rw [this] at hsum
        rw [← hsum]; rfl
      · rw [if_neg hp, swap_sign_formula, if_pos ht, ← hsum, sgn_sum, List.map_map, zipWith_map_fst_snd]
        rfl
    · have ht' : f.truthy = false := by simpa using ht
      simp only [ht', Bool.not_false, Bool.or_true, if_true]
      rw [invCount_zero _ (weight_falsy f ht')]; rfl

/-- operators already in fermionic order (ties allowed) get sign `+1` -/
theorem signCanonicalOrder_sorted {σ : Type} (f : Fermionic) {le : σ → σ → Bool} (hle : TotalPreorder le)
    (ops : List (σ × Charge)) (h : ops.Pairwise (fun a b => le a.1 b.1 = true)) :
    signCanonicalOrder f le ops = 1 := by
  rw [signCanonicalOrder_eq_inversions f hle, invSign, invCount_of_pairwise _ _ _ h]; rfl

/-- **operators at the same site are never swapped**: any number of operators on one site, in any
order and with any charges, give `+1`. -/
theorem signCanonicalOrder_same_site {σ : Type} (f : Fermionic) {le : σ → σ → Bool} (hle : TotalPreorder le)
    (s : σ) (ops : List (σ × Charge)) (h : ∀ o ∈ ops, o.1 = s) : signCanonicalOrder f le ops = 1 := by
  apply signCanonicalOrder_sorted f hle
  apply List.Pairwise.imp_of_mem (R := fun _ _ => True)
  · intro a b ha hb _
    rw [h a ha, h b hb]; exact hle.refl s
  · exact List.pairwise_of_forall (fun _ _ => trivial)

/-- **reordering lemma** (used by C07): exchanging two adjacent operators standing in the wrong
fermionic order (`site_a > site_b`) changes the closed form by exactly the sign of their exchange;
operators at equal sites are not exchanged by this rule. -/
theorem invSign_swap_adjacent {σ : Type} (f : Fermionic) {le : σ → σ → Bool} (hle : TotalPreorder le)
    (pre : List (σ × Charge)) (a b : σ × Charge) (post : List (σ × Charge)) (hab : le a.1 b.1 = false) :
    invSign f le (pre ++ a :: b :: post) = sgn (f.weight a.2 b.2) * invSign f le (pre ++ b :: a :: post) := by
  unfold invSign
  rw [invCount_swap_adjacent f.weight hle a b hab post pre, sgn_add]

/-- `≤` on integers (MPS sites, `f_map` ranks) is a total preorder -/
theorem int_le_totalPreorder : TotalPreorder (fun (a b : Int) => decide (a ≤ b)) := by
  constructor
  · intro a b; simp only [decide_eq_true_eq]; omega
  · intro a b c; simp only [decide_eq_true_eq]; omega

/-- the PEPS order of `SquareLattice.f_ordered`: `s0[1] < s1[1] or (s0[1] == s1[1] and s0[0] <= s1[0])` -/
theorem peps_totalPreorder :
    TotalPreorder (fun (a b : Int × Int) => decide (a.2 < b.2) || (decide (a.2 = b.2) && decide (a.1 ≤ b.1))) := by
  constructor
  · intro a b
    simp only [Bool.or_eq_true, Bool.and_eq_true, decide_eq_true_eq]; omega
  · intro a b c
    simp only [Bool.or_eq_true, Bool.and_eq_true, decide_eq_true_eq]; omega

/-! ## jump moves and the ncon planner -/

/-- **jump-move identity** (one fermionic component): for a tensor whose leg parities `pⱼ` sum to its
parity `P_T`, a swap of leg `i` with an external charge `n` equals the `parity_sign` factor
`(−1)^{P_T·n}` times the swaps of all OTHER legs with `n`:
`(−1)^{pᵢ·n} = (−1)^{P_T·n} · ∏_{j≠i} (−1)^{pⱼ·n}`. -/
theorem jump_move (pre : List Int) (p : Int) (post : List Int) (PT n : Int)
    (hcons : (pre ++ p :: post).sum % 2 = PT % 2) :
    sgn (p * n) = sgn (PT * n) * sprod ((pre ++ post).map (fun q => sgn (q * n))) := by
  have h1 : sprod ((pre ++ post).map (fun q => sgn (q * n))) = sgn ((pre ++ post).sum * n) := by
    rw [← sum_map_mul, sgn_sum, List.map_map]; rfl
  rw [h1, ← sgn_add, ← Int.add_mul]
  apply sgn_congr
  rw [Int.mul_emod, Int.mul_emod (PT + _)]
  congr 2
  simp only [List.sum_append, List.sum_cons] at hcons ⊢
  omega

/-- the same identity on parity bits, as used by the command semantics (`Ncon.chargeOdd`) -/
theorem jump_move_bool (pre : List Bool) (p : Bool) (post : List Bool) (PT n : Bool)
    (hcons : Ncon.xorAll (pre ++ p :: post) = PT) :
    (p && n) = xor (PT && n) (Ncon.xorAll ((pre ++ post).map (· && n))) := by
  rw [← Ncon.and_xorAll, ← hcons, Ncon.xorAll_append, Ncon.xorAll_append]
  simp only [Ncon.xorAll, List.foldr_cons]
  generalize List.foldr xor false pre = A
  generalize List.foldr xor false post = B
  cases A <;> cases B <;> cases p <;> cases n <;> rfl

/-- **Z₂ structure**: toggling the same swap twice is a no-op -/
theorem toggle_cancels (k : Int) : sgn k * sgn k = 1 ∧ sgn (k + k) = 1 := ⟨sgn_mul_self k, sgn_double k⟩

/-- signs with several fermionic components factorise over the components, so judging the planner
with one parity bit per edge is enough -/
theorem sign_factorises (a b : Int) : sgn (a + b) = sgn a * sgn b := sgn_add a b

/-- the specified sign is multiplicative in the list of requested swaps … -/
theorem specOdd_append (lab : Ncon.Edge → Bool) (s1 s2 : List (Ncon.Edge × Ncon.Edge)) :
    Ncon.specOdd lab (s1 ++ s2) = xor (Ncon.specOdd lab s1) (Ncon.specOdd lab s2) := by
  unfold Ncon.specOdd; rw [List.map_append, Ncon.xorAll_append]

/-- … and a repeated swap cancels -/
theorem specOdd_repeat (lab : Ncon.Edge → Bool) (s : Ncon.Edge × Ncon.Edge) (rest : List (Ncon.Edge × Ncon.Edge)) :
    Ncon.specOdd lab (s :: s :: rest) = Ncon.specOdd lab rest := by
  unfold Ncon.specOdd
  simp only [List.map_cons, Ncon.xorAll, List.foldr_cons]
  cases (lab s.1 && lab s.2) <;> simp

/-
FULL STATEMENT (not proved; the planner iterates over Python sets and is judged, not modelled):

  theorem ncon_order_independent : ∀ (inds : List (List Edge)) (swaps) (order₁ order₂ valid for inds),
      ∀ lab, execOdd inds (metaNcon inds order₁ swaps) lab = .ok (specOdd lab swaps)
           ∧ execOdd inds (metaNcon inds order₂ swaps) lab = .ok (specOdd lab swaps)

where `metaNcon` would be a Lean model of `_meta_ncon`/`_resolve_bad_swaps`.  What IS proved is the
per-network statement below: the driver's finite judgement (`Ncon.judge … = none`, evaluated on the
command list that the REAL planner produced) implies the sign identity for ALL labellings, hence any
two judged command lists of one network (two contraction orders) give the same sign on every
labelling, i.e. the same value of the network.
-/

/-- **order independence, per network (translation validation)** -/
theorem ncon_order_independent_partial (inds : List (List Ncon.Edge)) (swaps : List (Ncon.Edge × Ncon.Edge))
    (cmds₁ cmds₂ : List Ncon.Cmd)
    (h₁ : Ncon.judge inds swaps cmds₁ = none) (h₂ : Ncon.judge inds swaps cmds₂ = none) :
    ∀ lab : Ncon.Edge → Bool,
      Ncon.execOdd inds cmds₁ lab = .ok (Ncon.specOdd lab swaps) ∧
      Ncon.execOdd inds cmds₁ lab = Ncon.execOdd inds cmds₂ lab := by
  intro lab
  rw [Ncon.judge_sound inds swaps cmds₁ h₁ lab, Ncon.judge_sound inds swaps cmds₂ h₂ lab]
  exact ⟨rfl, rfl⟩

/-- **`tensordot`, `trace`, `transpose` (and every other command) only move legs around**: after
ANY executed command list every leg of every tensor still carries the parity that the labelling
gives to its edge.  Hence contracting tensors leaves the sign of every later swap between
surviving legs unchanged. -/
theorem execSign_tensordot_invariant (lab : Ncon.Edge → Bool) (inds : List (List Ncon.Edge)) (cmds : List Ncon.Cmd)
    (s : Bool) (st : Ncon.State) (h : Ncon.runFrom false (Ncon.initState lab inds) cmds = .ok (s, st)) :
    Ncon.Consistent lab st :=
  Ncon.runFrom_consistent lab cmds false _ s st (Ncon.initState_consistent lab inds) h

/-- one step of it, for a single command -/
theorem step_preserves_parities (lab : Ncon.Edge → Bool) (st st' : Ncon.State) (c : Ncon.Cmd) (s : Bool)
    (hc : Ncon.Consistent lab st) (h : Ncon.step st c = .ok (s, st')) : Ncon.Consistent lab st' :=
  Ncon.step_consistent lab st st' c s hc h

/-- **command semantics = specification for plain swaps** (no jump move): a `swap_gate` command
executed after ANY prefix of commands contributes exactly `∏ (−1)^{p(e₁)·p(e₂)}` over the pairs of
EDGES of the original network that its leg pairs belong to at that moment — whatever contractions,
traces and transpositions re-indexed the legs before.  (That these edge pairs are the requested ones
is what `judge` checks for the planner's output.) -/
theorem ncon_swaps_simple (lab : Ncon.Edge → Bool) (inds : List (List Ncon.Edge)) (pre : List Ncon.Cmd)
    (s0 : Bool) (st : Ncon.State) (hpre : Ncon.runFrom false (Ncon.initState lab inds) pre = .ok (s0, st))
    (tout tin : Nat) (axes : List Nat) (s1 : Bool) (st1 : Ncon.State)
    (hstep : Ncon.step st (.swapGate tout tin axes) = .ok (s1, st1)) :
    ∃ t ps es, (tin, t) ∈ st ∧ pairUp axes = some ps ∧
      Ncon.Forall2 (fun (p : Nat × Nat) (e : Ncon.Edge × Ncon.Edge) => Ncon.legEdge t p.1 e.1 ∧ Ncon.legEdge t p.2 e.2) ps es ∧
      s1 = Ncon.specOdd lab es := by
  have hc := execSign_tensordot_invariant lab inds pre s0 st hpre
  simp only [Ncon.step] at hstep
  cases h1 : Ncon.pop st tin with
  | error e => simp [h1, bind, Except.bind] at hstep
  | ok r1 =>
    obtain ⟨a, st'⟩ := r1
    cases h2 : Ncon.swapOdd a axes with
    | error e => simp [h1, h2, bind, Except.bind] at hstep
    | ok u =>
      simp [h1, h2, bind, Except.bind, pure, Except.pure] at hstep
      obtain ⟨rfl, _⟩ := hstep
      have ⟨ha, _⟩ := Ncon.pop_ok h1
      obtain ⟨ps, es, hp, hes, hs⟩ := Ncon.swapOdd_spec lab a (hc _ ha) axes u h2
      exact ⟨a, ps, es, ha, hp, hes, hs⟩

/-- a correct swap-free plan contributes no sign on any labelling -/
theorem ncon_no_swaps (inds : List (List Ncon.Edge)) (cmds : List Ncon.Cmd)
    (h : Ncon.judge inds [] cmds = none) : ∀ lab, Ncon.execOdd inds cmds lab = .ok false := by
  intro lab
  have := Ncon.judge_sound inds [] cmds h lab
  simpa [Ncon.specOdd, Ncon.xorAll] using this

/-! ## non-vacuity: concrete, non-trivial instances -/

/-- U1xU1 with both components fermionic: the pair sign is NOT the parity of the total charges
(`(1,0)·(0,1) = 0`, although both total charges are odd) -/
example : swapSign .all [[1, 0]] [[0, 1]] = 1 ∧ swapSign .all [[1, 0]] [[1, 1]] = -1 := by decide
/-- U1xU1xZ2 with only the Z2 component fermionic; a negative U1 charge -/
example : swapSign (.mask [false, false, true]) [[-1, 0, 1]] [[0, 1, 1]] = -1 := by decide
/-- a 3-leg block, groups `((0,1),2)` -/
example : (swapGateTp 1 [true] [[0, 1], [2]] [[1], [0], [1]]).toOption = some 1 := by decide
example : (swapGate .all 1 [[0, 1], [2]] [([[1], [0], [1]], [5, 7]), ([[1], [1], [1]], [3])]).toOption =
    some [([[1], [0], [1]], [-5, -7]), ([[1], [1], [1]], [3])] := by decide
example : (swapGateTp 1 [true] [[0], [1], [2]] [[1], [0], [1]]).toOption = none := by decide
/-- three fermions at sites 2,1,0 (three inversions) and a repeated site -/
example : signCanonicalOrder .all (fun (a b : Int) => decide (a ≤ b)) [(2, [1]), (1, [1]), (0, [1])] = -1 := by decide
example : signCanonicalOrder .all (fun (a b : Int) => decide (a ≤ b)) [(1, [1]), (0, [1]), (1, [1]), (0, [1])] = -1 := by decide
example : signCanonicalOrder .all (fun (a b : Int) => decide (a ≤ b)) [(1, [1]), (1, [1])] = 1 := by decide
/-- the hypothesis of `jump_move` on an odd tensor -/
example : ([1, 0] ++ (1 : Int) :: [1]).sum % 2 = (1 : Int) % 2 := by decide
/-- a command list of the real planner with a jump move on an odd third-party tensor
(`ncon([a,b,c], ((0,),(1,2),(1,2)), swap=((1,0),))`), judged over all 8 labellings -/
example : Ncon.judge [[0], [1, 2], [1, 2]] [(1, 0)]
    [.paritySign 0 1 [0], .tensordot 3 1 2 [0, 1] [0, 1], .tensordot 4 0 3 [] []] = none := by decide
/-- … and the same list without its `parity_sign` is rejected -/
example : (Ncon.judge [[0], [1, 2], [1, 2]] [(1, 0)]
    [.tensordot 3 1 2 [0, 1] [0, 1], .tensordot 4 0 3 [] []]).isSome = true := by decide

end YModel
