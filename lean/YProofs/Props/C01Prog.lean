import YProofs.Props.C01
import YModel.Prog
import Mathlib.Algebra.Ring.Defs
/-!
# C01 (continued) — whole programs, element-wise fragment

`pointwise_prog_dense`: for every finite program built from `add`, `sub`, scalar multiplication, `neg`, `conj`, `conj_blocks` and
`flip_signature`, on ANY leg spaces `L` and at EVERY dense index, the dense entries of all values the program produces are exactly
what the same program computes on the dense entries of its inputs (numbers): block-sparse evaluation and dense evaluation commute
for whole programs, not only for single operations.  (Operations that move or contract indices are covered per operation by
`toDense_transpose`, `toDense_tensordot`, `toDense_trace`, … and for two contractions by `matmul_assoc_dense`.)
-/
namespace YModel
variable {R : Type}

/-- the steps of the element-wise fragment -/
def Step.pointwise : Step R → Bool
  | .add _ _ | .sub _ _ | .smul _ _ | .neg _ | .conj _ | .conjBlocks _ | .flipSignature _ => true
  | _ => false

/-- the same step on numbers (one dense entry of every value) -/
def Step.runScalar [Add R] [Mul R] [Neg R] [Conj R] (ds : List R) : Step R → Option R
  | .add i j => do let a ← ds[i]?; let b ← ds[j]?; pure (a + b)
  | .sub i j => do let a ← ds[i]?; let b ← ds[j]?; pure (a + -b)
  | .smul c i => do let a ← ds[i]?; pure (c * a)
  | .neg i => do let a ← ds[i]?; pure (-a)
  | .conj i => do let a ← ds[i]?; pure (Conj.conj a)
  | .conjBlocks i => do let a ← ds[i]?; pure (Conj.conj a)
  | .flipSignature i => ds[i]?
  | _ => none

def runScalarProg [Add R] [Mul R] [Neg R] [Conj R] (ds : List R) : List (Step R) → Option (List R)
  | [] => some ds
  | st :: rest =>
    match st.runScalar ds with
    | some x => runScalarProg (ds ++ [x]) rest
    | none => none

theorem getVal_dense [Zero R] {vals : List (Tensor R)} {i : Nat} {t : Tensor R} (h : getVal vals i = .ok t)
    (L : List LegSpace) (idx : List Nat) : (vals.map (fun v => toDenseOn L v idx))[i]? = some (toDenseOn L t idx) := by
  unfold getVal at h
  split at h
  · rename_i t' ht
    cases h
    simp [List.getElem?_map, ht]
  · cases h

/-- one step: the dense entry of the result is the step run on the dense entries of the state -/
theorem pointwise_step_dense [CommRing R] [Conj R] [DecidableEq R] (hc0 : Conj.conj (0 : R) = 0)
    {vals : List (Tensor R)} (st : Step R) (hp : st.pointwise = true) {t : Tensor R} (h : st.run vals = .ok t)
    (L : List LegSpace) (idx : List Nat) :
    st.runScalar (vals.map (fun v => toDenseOn L v idx)) = some (toDenseOn L t idx) := by
  cases st with
  | add i j =>
    simp only [Step.run, bind, Except.bind] at h
    split at h; · cases h
    rename_i a ha
    split at h; · cases h
    rename_i b hb
    simp only [Step.runScalar, getVal_dense ha, getVal_dense hb, bind, Option.bind, pure]
    rw [toDense_add (fun x => _root_.zero_add x) (fun x => _root_.add_zero x) h]
  | sub i j =>
    simp only [Step.run, bind, Except.bind] at h
    split at h; · cases h
    rename_i a ha
    split at h; · cases h
    rename_i b hb
    simp only [Step.runScalar, getVal_dense ha, getVal_dense hb, bind, Option.bind, pure]
    rw [toDense_sub (fun x => _root_.zero_add x) (fun x => _root_.add_zero x) _root_.neg_zero h]
  | smul c i =>
    simp only [Step.run, bind, Except.bind] at h
    split at h; · cases h
    rename_i a ha
    simp only [pure, Except.pure] at h
    cases h
    simp only [Step.runScalar, getVal_dense ha, bind, Option.bind, pure]
    rw [toDense_smul c (MulZeroClass.mul_zero c)]
  | neg i =>
    simp only [Step.run, bind, Except.bind] at h
    split at h; · cases h
    rename_i a ha
    simp only [pure, Except.pure] at h
    cases h
    simp only [Step.runScalar, getVal_dense ha, bind, Option.bind, pure]
    rw [toDense_neg _root_.neg_zero]
  | conj i =>
    simp only [Step.run, bind, Except.bind] at h
    split at h; · cases h
    rename_i a ha
    simp only [pure, Except.pure] at h
    cases h
    simp only [Step.runScalar, getVal_dense ha, bind, Option.bind, pure]
    rw [toDense_conj hc0]
  | conjBlocks i =>
    simp only [Step.run, bind, Except.bind] at h
    split at h; · cases h
    rename_i a ha
    simp only [pure, Except.pure] at h
    cases h
    simp only [Step.runScalar, getVal_dense ha, bind, Option.bind, pure]
    rw [toDense_conjBlocks hc0]
  | flipSignature i =>
    simp only [Step.run, bind, Except.bind] at h
    split at h; · cases h
    rename_i a ha
    simp only [pure, Except.pure] at h
    cases h
    simp only [Step.runScalar, getVal_dense ha]
    rw [toDense_flipSignature]
  | transpose _ _ => cases hp
  | tensordot _ _ _ _ => cases hp
  | trace _ _ _ => cases hp
  | addLeg _ _ _ _ => cases hp
  | removeLeg _ _ => cases hp
  | broadcast _ _ _ => cases hp
  | applyMask _ _ _ => cases hp
  | diag _ => cases hp
  | fuse _ _ => cases hp

/-- **whole programs**: dense entries of all produced values = the program run on the dense entries of the inputs -/
theorem pointwise_prog_dense [CommRing R] [Conj R] [DecidableEq R] (hc0 : Conj.conj (0 : R) = 0)
    (steps : List (Step R)) (hp : ∀ st ∈ steps, st.pointwise = true) {vals out : List (Tensor R)}
    (h : runProg vals steps = .ok out) (L : List LegSpace) (idx : List Nat) :
    runScalarProg (vals.map (fun v => toDenseOn L v idx)) steps = some (out.map (fun v => toDenseOn L v idx)) := by
  induction steps generalizing vals with
  | nil => simp only [runProg] at h; cases h; rfl
  | cons st rest ih =>
    simp only [runProg] at h
    split at h
    · rename_i t ht
      have h1 := pointwise_step_dense hc0 st (hp st (by simp)) ht L idx
      have h2 := ih (fun s hs => hp s (by simp [hs])) h
      simp only [runScalarProg, h1]
      simpa using h2
    · cases h

end YModel

namespace YModel
/-! ### non-vacuity: a four-step program on the well-formed example tensor runs, and both sides evaluate to the same non-zero numbers -/
example : (runProg [exA, exA] [Step.add 0 1, Step.smul 3 2, Step.neg 3, Step.sub 4 0]).toOption.map
      (fun out => out.map (fun v => toDenseOn [[([0], 1), ([1], 2)], [([0], 2), ([1], 1)]] v [1, 2])) = some [2, 2, 4, 12, -12, -14] := by decide
example : runScalarProg [2, 2] [Step.add 0 1, Step.smul (3 : Int) 2, Step.neg 3, Step.sub 4 0] = some [2, 2, 4, 12, -12, -14] := by decide
example : ∀ st ∈ [Step.add 0 1, Step.smul (3 : Int) 2, Step.neg 3, Step.sub 4 0], st.pointwise = true := by decide
end YModel
