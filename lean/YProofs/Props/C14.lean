import YProofs.Props.C01
import YModel.Slice
/-!
# C14 — Results do not depend on contraction policy, fusion mode or lazy state

The Lean model has ONE specification per operation, defined on the logical view of a tensor: there is no
policy, no default fusion mode and no pending permutation in it, so its results (and the theorems of
C01/C02/C03 about them) are independent of those knobs by construction.  What has to be shown about the
model is that the things the real code *accumulates lazily* compose the way the eager operations do:
* `transpose_compose_dense` – two transpositions in a row (what a pending `trans` plus a new `transpose`
  amount to) describe the same dense array as the single composed transposition;
* `unroll_sum` – summing a contraction over the pieces of ANY partition of an index range gives the full sum
  (the identity behind `contract_with_unroll`, for contracted and – with disjoint supports – output indices);
* `chunks_partition`, `chunks_sizes` – `slice_leg_uniform` cuts the positions of a leg into consecutive
  pieces that cover every position exactly once, each piece non-empty and of at most `size` positions, all
  but the last of exactly `size`.
That the three production kernels, the meta→hard resolution and `consume_transpose` implement this one
specification is the subject of the lockstep differential execution of the harness (the deciding tie).
-/
namespace YModel
variable {R : Type} {ms : List Nat}

theorem pick_pick {α} [Inhabited α] (l : List α) (σ τ : List Nat) (hτ : ∀ q ∈ τ, q < σ.length) :
    pick (pick l σ) τ = pick l (pick σ τ) := by
  unfold pick
  rw [List.map_map]
  apply List.map_congr_left
  intro q hq
  have := hτ q hq
  simp [List.getD, this]

/-- **pending permutations compose**: transposing by `σ` and then by `τ` describes, on the correspondingly
permuted leg spaces and multi-index, the same dense array as the original tensor — exactly as the single
transposition by the composed permutation `pick σ τ` does (`toDense_transpose`).  Hence accumulating
permutations lazily (`trans`) or materialising each one is unobservable. -/
theorem transpose_compose_dense [Zero R] {σ τ : List Nat} {a b c : Tensor R} (ha : WF ms a)
    (h1 : transpose σ a = .ok b) (h2 : transpose τ b = .ok c) (L : List LegSpace) (idx : List Nat)
    (hidx : idx.length = a.rank) :
    toDenseOn (pick L (pick σ τ)) c (pick idx (pick σ τ)) = toDenseOn L a idx := by
  have hb := wf_transpose ha h1
  obtain ⟨hσ, hbdef⟩ := transpose_ok_iff h1
  obtain ⟨hτ, _⟩ := transpose_ok_iff h2
  have hbr : b.rank = a.rank := by rw [hbdef]; simp [Tensor.rank, pick_length, isPerm_length hσ]
  have hτlt : ∀ q ∈ τ, q < σ.length := by
    intro q hq
    have := isPerm_lt hτ q hq
    rw [hbr, ← isPerm_length hσ] at this
    exact this
  rw [← pick_pick L σ τ hτlt, ← pick_pick idx σ τ hτlt]
  rw [toDense_transpose hb h2 (pick L σ) (pick idx σ) (by rw [pick_length, hbr, isPerm_length hσ])]
  exact toDense_transpose ha h1 L idx hidx

/-- materialising or copying is the identity on the logical view -/
def consumeTranspose (a : Tensor R) : Tensor R := a
def copyT (a : Tensor R) : Tensor R := a
theorem consumeTranspose_obs [Zero R] (a : Tensor R) (L : List LegSpace) (idx : List Nat) :
    toDenseOn L (consumeTranspose a) idx = toDenseOn L a idx ∧ (consumeTranspose a).n = a.n ∧
    legSpaces (consumeTranspose a) = legSpaces a := ⟨rfl, rfl, rfl⟩

/-! ### unrolling: a sum over the pieces of a partition is the whole sum -/

theorem sum_flatten_map (f : Nat → Int) (parts : List (List Nat)) :
    (parts.map (fun S => (S.map f).sum)).sum = (parts.flatten.map f).sum := by
  induction parts with
  | nil => rfl
  | cons S rest ih => simp [List.sum_append, ih]

/-- **unroll_sum**: if the pieces `parts` partition the index range `0..n-1` (every index in exactly one piece,
in any order), then summing the partial contractions `Σ_{j∈S} f j` over the pieces gives the full contraction
`Σ_{j<n} f j` — for every summand `f` (bilinearity is not even needed: the masks only restrict the range). -/
theorem unroll_sum (f : Nat → Int) (n : Nat) (parts : List (List Nat)) (hp : parts.flatten.Perm (List.range n)) :
    (parts.map (fun S => (S.map f).sum)).sum = ((List.range n).map f).sum := by
  rw [sum_flatten_map]
  exact perm_sum_int (hp.map f)

/-! ### `slice_leg_uniform` -/
open Slice

theorem chunksAux_flatten {α} (n : Nat) (hn : 0 < n) (fuel : Nat) (l : List α) (hf : l.length ≤ fuel) :
    (chunksAux n fuel l).flatten = l := by
  induction fuel generalizing l with
  | zero =>
    have : l = [] := List.eq_nil_of_length_eq_zero (by omega)
    subst this; rfl
  | succ k ih =>
    cases l with
    | nil => rfl
    | cons x xs =>
      simp only [chunksAux, List.flatten_cons]
      rw [ih ((x :: xs).drop n) (by simp only [List.length_drop, List.length_cons] at hf ⊢; omega)]
      exact List.take_append_drop n (x :: xs)

/-- **the slices partition the leg**: concatenating the pieces gives back every position exactly once, in order -/
theorem chunks_partition {α} (n : Nat) (hn : 0 < n) (l : List α) : (chunks n l).flatten = l :=
  chunksAux_flatten n hn l.length l (Nat.le_refl _)

theorem chunksAux_sizes {α} (n : Nat) (hn : 0 < n) (fuel : Nat) (l : List α) (hf : l.length ≤ fuel) :
    ∀ c ∈ chunksAux n fuel l, c ≠ [] ∧ c.length ≤ n := by
  induction fuel generalizing l with
  | zero => intro c hc; simp [chunksAux] at hc
  | succ k ih =>
    cases l with
    | nil => intro c hc; simp [chunksAux] at hc
    | cons x xs =>
      intro c hc
      simp only [chunksAux, List.mem_cons] at hc
      rcases hc with rfl | hc
      · refine ⟨?_, by simp [List.length_take]⟩
        intro h
        have := congrArg List.length h
        simp [List.length_take] at this
        omega
      · exact ih ((x :: xs).drop n) (by simp only [List.length_drop, List.length_cons] at hf ⊢; omega) c hc

/-- every slice is non-empty and holds at most `size` positions -/
theorem chunks_sizes {α} (n : Nat) (hn : 0 < n) (l : List α) : ∀ c ∈ chunks n l, c ≠ [] ∧ c.length ≤ n :=
  chunksAux_sizes n hn l.length l (Nat.le_refl _)

theorem chunksAux_full {α} (n : Nat) (hn : 0 < n) (fuel : Nat) (l : List α) (hf : l.length ≤ fuel) :
    ∀ c ∈ (chunksAux n fuel l).dropLast, c.length = n := by
  induction fuel generalizing l with
  | zero => intro c hc; simp [chunksAux] at hc
  | succ k ih =>
    cases l with
    | nil => intro c hc; simp [chunksAux] at hc
    | cons x xs =>
      intro c hc
      simp only [chunksAux] at hc
      cases hrest : chunksAux n k ((x :: xs).drop n) with
      | nil => rw [hrest] at hc; simp at hc
      | cons y ys =>
        rw [hrest, List.dropLast_cons_of_ne_nil (by simp)] at hc
        rcases List.mem_cons.mp hc with rfl | hc
        · -- the first piece is full because something is left after it
          have hne : (x :: xs).drop n ≠ [] := by
            intro h; rw [h] at hrest
            cases k <;> simp [chunksAux] at hrest
          have : n < (x :: xs).length := by
            by_contra hge
            exact hne (List.drop_eq_nil_of_le (by omega))
          simp only [List.length_take, List.length_cons] at this ⊢; omega
        · have := ih ((x :: xs).drop n) (by simp only [List.length_drop, List.length_cons] at hf ⊢; omega) c
          rw [hrest] at this
          exact this hc

/-- all slices but the last hold exactly `size` positions -/
theorem chunks_full {α} (n : Nat) (hn : 0 < n) (l : List α) : ∀ c ∈ (chunks n l).dropLast, c.length = n :=
  chunksAux_full n hn l.length l (Nat.le_refl _)

/-- `slice_leg_uniform`: the pieces partition the positions of the leg -/
theorem slice_uniform_partition (Ds : List Nat) (size : Nat) (hs : 0 < size) :
    (chunks size (positions Ds)).flatten = positions Ds ∧
    (∀ c ∈ chunks size (positions Ds), c ≠ [] ∧ c.length ≤ size) ∧
    (∀ c ∈ (chunks size (positions Ds)).dropLast, c.length = size) :=
  ⟨chunks_partition size hs _, chunks_sizes size hs _, chunks_full size hs _⟩

/-- non-vacuity -/
example : sliceUniform [3, 2, 4] 4 = [[(0, 0, 3), (1, 0, 1)], [(1, 1, 2), (2, 0, 3)], [(2, 3, 4)]] := by decide
example : (chunks 4 (positions [3, 2, 4])).flatten = positions [3, 2, 4] := by decide
example : (transpose [1, 0] exA).toOption.bind (fun b => (transpose [1, 0] b).toOption.map (fun c =>
    toDenseOn [[([0], 1), ([1], 2)], [([0], 2), ([1], 1)]] c [1, 2])) = some 2 := by decide

end YModel
