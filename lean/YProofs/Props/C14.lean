import YProofs.Props.C01
/-! placeholder, replaced below -/
namespace YModel
theorem c14_placeholder : True := trivial
end YModel
