import YProofs.Lemmas.Ravel
import YProofs.Props.C02
/-!
# C03 — Leg fusion is a faithful, reversible change of basis

The model (YModel/Fusion.lean) describes hard fusion as an index map: an element `(key, idx)` of the
original tensor goes to block `fusedKey key` at position
`offset(decomposition of the group) + ravel(indices of the group)` on every fused leg; the fused tensor's
value at `(K, J)` is read back through `locateDec` and `unravel`.  The theorems state that the two
directions are mutually inverse (so no element is lost, duplicated or moved to a symmetry-forbidden
place), for EVERY group of legs, every dimension profile and every sector content.  Nesting to any depth
is iteration of the same map.
-/
namespace YModel
variable {R : Type} {ms : List Nat}

/-! ### dense part: row-major reshape of a group of legs is a bijection -/

/-- forward then backward: the group indices are recovered from the fused position -/
theorem reshape_left_inverse (dims idx : List Nat) (h : inRange dims idx = true) :
    unravel dims (ravel dims idx) = idx ∧ ravel dims idx < prodL dims :=
  ⟨unravel_ravel dims idx h, ravel_lt dims idx h⟩

/-- backward then forward: every position of the fused block comes from exactly one in-range multi-index -/
theorem reshape_right_inverse (dims : List Nat) (p : Nat) (h : p < prodL dims) :
    ravel dims (unravel dims p) = p ∧ inRange dims (unravel dims p) = true := ravel_unravel dims p h

/-! ### sector part: decompositions tile the fused sector without gaps or overlaps -/

/-- forward then backward inside a sector -/
theorem sector_left_inverse (ds : List Dec) (d : Dec) (p : Nat) (hd : d ∈ ds) (hp : p < decSize d) :
    locateDec ds (decOffset ds d + p) = some (d, p) ∧ decOffset ds d + p < sectorDim ds :=
  ⟨locateDec_offset ds d p hd hp, decOffset_lt ds d p hd hp⟩

/-- backward then forward inside a sector: every position `q` of the sector lies in exactly one
decomposition (existence from `q < sectorDim`, uniqueness because `locateDec` is a function) -/
theorem sector_right_inverse (ds : List Dec) (hnd : ds.Nodup) (q : Nat) (hq : q < sectorDim ds) :
    ∃ d p, locateDec ds q = some (d, p) ∧ d ∈ ds ∧ p < decSize d ∧ decOffset ds d + p = q := by
  obtain ⟨d, p, h⟩ := locateDec_of_lt ds q hq
  obtain ⟨h1, h2, h3⟩ := locateDec_some hnd h
  exact ⟨d, p, h, h1, h2, h3.symm⟩

/-- two different (decomposition, position) pairs never share a fused position (no overlap) -/
theorem sector_injective (ds : List Dec) (d d' : Dec) (p p' : Nat) (hd : d ∈ ds) (hd' : d' ∈ ds)
    (hp : p < decSize d) (hp' : p' < decSize d') (h : decOffset ds d + p = decOffset ds d' + p') :
    d = d' ∧ p = p' := by
  have h1 := locateDec_offset ds d p hd hp
  have h2 := locateDec_offset ds d' p' hd' hp'
  rw [h] at h1
  rw [h1] at h2
  simpa using h2

/-! ### charges: the fused key obeys the selection rule (consequence of the grouping law, C19) -/

theorem groupSig_sign {T : Tensor R} (h : WF ms T) (g : List Nat) : groupSig T g = 1 ∨ groupSig T g = -1 := by
  unfold groupSig
  generalize g.headD 0 = i
  by_cases hi : i < T.s.length
  · apply h.sig
    rw [List.getD, List.getElem?_eq_getElem hi]
    exact List.getElem_mem hi
  · rw [List.getD, List.getElem?_eq_none (by omega : T.s.length ≤ i)]
    left; rfl

theorem pick_flatten {α} [Inhabited α] (l : List α) (groups : List (List Nat)) :
    pick l groups.flatten = groups.flatMap (fun g => pick l g) := by
  induction groups with
  | nil => simp [pick]
  | cons g gs ih => simp only [List.flatten_cons, List.flatMap_cons, pick_append, ih]

/-- **the fused tensor conserves charge**: every key produced by hard fusion combines, under the group law
and the signatures of the fused legs, to the unchanged total charge — for every partition of the legs into
groups (in any order).  This is where the grouping law of C19 is used. -/
theorem fused_rule {T : Tensor R} (hd : WSym T.sym ms) (h : WF ms T) (groups : List (List Nat))
    (hp : isPartition T.rank groups = true) (kb : Key × Block R) (hkb : kb ∈ T.blocks) :
    chargeOfKey T.sym (groups.map (groupSig T)) (fusedKey T groups kb.1) = T.n := by
  unfold chargeOfKey fusedKey teffOf
  have hk := (h.keyRank kb hkb).1
  have := fuse_grouping hd (groups.map (fun g => (⟨pick kb.1 g, pick T.s g, groupSig T g⟩ : FGroup)))
    (by
      intro g hg
      obtain ⟨g', _, rfl⟩ := List.mem_map.mp hg
      exact ⟨by simp [pick_length], groupSig_sign h g'⟩) 1
  simp only [List.map_map, Function.comp_def, List.flatMap_map] at this
  rw [this, ← pick_flatten, ← pick_flatten]
  have hperm : groups.flatten.Perm (List.range kb.1.length) := by rw [hk]; exact isPerm_perm hp
  rw [fuse_perm kb.1 T.s groups.flatten 1 hk hperm]
  exact h.rule kb hkb

/-- the effective charges of a fused leg are canonical -/
theorem teff_canonical {T : Tensor R} (hd : WSym T.sym ms) (g : List Nat) (combo : List Charge) :
    isCanonical ms (teffOf T g combo) = true := fuse_range hd _ _ _

/-- fusion does not change the total charge; the fused leg takes the signature of the first leg of its group -/
theorem charge_fuseHard [Zero R] {T F : Tensor R} {groups : List (List Nat)} (h : fuseHard T groups = .ok F) :
    F.n = T.n ∧ F.s = groups.map (groupSig T) ∧ F.sym = T.sym := by
  unfold fuseHard at h
  split at h; · cases h
  split at h; · cases h
  cases h
  exact ⟨rfl, rfl, rfl⟩

/-- keys of the fused tensor are unique and ordered -/
theorem sorted_fuseHard [Zero R] {T F : Tensor R} {groups : List (List Nat)} (h : fuseHard T groups = .ok F) :
    F.keys.Pairwise (fun a b => keyLt a b = true) := by
  unfold fuseHard at h
  split at h; · cases h
  split at h; · cases h
  cases h
  simp only [Tensor.keys, List.map_map, Function.comp_def, List.map_id']
  exact pairwise_sortDedup keyLt_strictTotal _

/-! The tensor-level statement `fuse_element_preserved`
  (`(k, b) ∈ T.blocks → inRange b.shape idx → fusedVal T groups (fusedKey T groups k) (fusedIdx T groups k b.shape idx) = b.val idx`)
combines `reshape_left_inverse` and `sector_left_inverse` per fused leg with a re-assembly ("scatter")
lemma over the partition of the legs.  The per-leg parts are proved above for all inputs; the re-assembly over
arbitrary partitions is NOT proved in this version (`fuse_element_preserved_partial`: the single-group case
below).  The full statement is exercised against the real code by the element-position correspondence of the
harness (every element carries a distinct integer). -/

/-- non-vacuity -/
example : unravel [2, 3] (ravel [2, 3] [1, 2]) = [1, 2] := by decide
example : locateDec [(([[0], [1]]), [1, 2]), (([[1], [0]]), [2, 2])] 4 = some ((([[1], [0]]), [2, 2]), 2) := by decide
example : ((fuseHard exA [[0, 1]]).toOption.map (fun F => F.s)) = some [1] := by decide
example : ((fuseHard exA [[0, 1]]).toOption.map (fun F => F.keys)) = some [[[0]]] := by decide
example : ((fuseHard exA [[0, 1]]).toOption.map (fun F => F.blocks.map (·.2.shape))) = some [[4]] := by decide
example : ((fuseHard exA [[0, 1]]).toOption.map (fun F => F.blocks.map (fun kb => (List.range 4).map (fun j => kb.2.val [j])))) =
    some ([[1, 1, 2, 2]] : List (List Int)) := by decide

end YModel
