import YModel.Fusion
namespace YModel
theorem c03_placeholder : True := trivial
end YModel
