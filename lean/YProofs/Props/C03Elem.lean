import YProofs.Props.C03
/-!
# C03 (continued) — hard fusion preserves every element

`fuse_element_preserved`: for EVERY well-formed tensor, every partition of its legs into groups (in any
order), every stored block and every in-range index, the fused tensor holds exactly that element at block
`fusedKey key`, position `fusedIdx …` — nothing is lost or moved elsewhere.  Together with
`sector_right_inverse` / `sector_injective` (C03.lean: distinct elements go to distinct positions and every
position of a fused sector is reached) this is "fusion is a faithful change of basis" for the model.
-/
namespace YModel
variable {R : Type} {ms : List Nat}

/-! ### the sector table of a leg contains the sectors of every block -/

theorem tdLt_strictTotal :
    StrictTotal (fun (a b : Charge × Nat) => lexLt a.1 b.1 || (a.1 == b.1 && decide (a.2 < b.2))) := by
  refine ⟨?_, ?_, ?_⟩
  · intro a; simp [lexLt_irrefl]
  · intro a b c h1 h2
    simp only [Bool.or_eq_true, Bool.and_eq_true, beq_iff_eq, decide_eq_true_eq] at h1 h2 ⊢
    rcases h1 with h1 | ⟨h1, h1'⟩
    · rcases h2 with h2 | ⟨h2, _⟩
      · exact Or.inl (lexLt_trans _ _ _ h1 h2)
      · rw [← h2]; exact Or.inl h1
    · rcases h2 with h2 | ⟨h2, h2'⟩
      · rw [h1]; exact Or.inl h2
      · exact Or.inr ⟨h1.trans h2, by omega⟩
  · intro a b
    simp only [Bool.or_eq_true, Bool.and_eq_true, beq_iff_eq, decide_eq_true_eq]
    rcases lexLt_trichotomy a.1 b.1 with h | h | h
    · exact Or.inl (Or.inl h)
    · rcases Nat.lt_trichotomy a.2 b.2 with h' | h' | h'
      · exact Or.inl (Or.inr ⟨h, h'⟩)
      · exact Or.inr (Or.inl (Prod.ext h h'))
      · exact Or.inr (Or.inr (Or.inr ⟨h.symm, h'⟩))
    · exact Or.inr (Or.inr (Or.inl h))

theorem mem_legSpace {T : Tensor R} {kb : Key × Block R} (hkb : kb ∈ T.blocks) (l : Nat) :
    (kb.1.getD l [], kb.2.shape.getD l 0) ∈ legSpace T l := by
  unfold legSpace
  exact (mem_sortDedup tdLt_strictTotal _ _).mpr (List.mem_map.mpr ⟨kb, hkb, rfl⟩)

theorem mem_sectorProduct_pick {T : Tensor R} {kb : Key × Block R} (hkb : kb ∈ T.blocks) (g : List Nat) :
    (pick kb.1 g, pick kb.2.shape g) ∈ sectorProduct (g.map (legSpace T)) := by
  induction g with
  | nil => simp [sectorProduct, pick]
  | cons l g ih =>
    simp only [List.map_cons, sectorProduct, List.mem_flatMap, List.mem_map]
    exact ⟨_, mem_legSpace hkb l, _, ih, rfl⟩

/-! ### indices of a group stay in range -/

theorem inRange_getD {shape idx : List Nat} (h : inRange shape idx = true) (l : Nat) (hl : l < shape.length) :
    idx.getD l 0 < shape.getD l 0 := by
  induction shape generalizing idx l with
  | nil => simp at hl
  | cons d ds ih =>
    cases idx with
    | nil => rw [inRange_cons_nil] at h; cases h
    | cons i is =>
      obtain ⟨h1, h2⟩ := inRange_cons.mp h
      cases l with
      | zero => simpa using h1
      | succ l => simpa using ih h2 l (by simpa using hl)

theorem inRange_pick {shape idx : List Nat} (h : inRange shape idx = true) (g : List Nat)
    (hg : ∀ l ∈ g, l < shape.length) : inRange (pick shape g) (pick idx g) = true := by
  induction g with
  | nil => simp [pick, inRange]
  | cons l g ih =>
    have : pick shape (l :: g) = shape.getD l default :: pick shape g := rfl
    rw [this]
    have : pick idx (l :: g) = idx.getD l default :: pick idx g := rfl
    rw [this]
    exact inRange_cons.mpr ⟨inRange_getD h l (hg l (by simp)), ih (fun l' hl' => hg l' (by simp [hl']))⟩

/-! ### scattering the per-group parts back restores the original order -/

theorem zip_map_self {α β} (l : List α) (f : α → β) : l.zip (l.map f) = l.map (fun x => (x, f x)) := by
  induction l with
  | nil => rfl
  | cons x xs ih => simp [ih]

theorem scatter_pick {α} [Inhabited α] (rank : Nat) (groups : List (List Nat)) (hp : isPartition rank groups = true)
    (l : List α) (hl : l.length = rank) : scatter rank groups (groups.map (pick l)) = l := by
  apply List.ext_getElem
  · simp [scatter, hl]
  · intro p h1 h2
    have hpr : p < rank := by simpa [scatter] using h1
    simp only [scatter, List.getElem_map, List.getElem_range]
    have hmem : p ∈ groups.flatten := isPerm_mem hp p hpr
    obtain ⟨g, hg, hpg⟩ := List.mem_flatten.mp hmem
    have hz : groups.zip (groups.map (pick l)) = groups.map (fun g => (g, pick l g)) := zip_map_self _ _
    rw [hz]
    cases hf : (groups.map (fun g => (g, pick l g))).find? (fun gp => gp.1.contains p) with
    | none =>
      exfalso
      rw [List.find?_eq_none] at hf
      exact hf (g, pick l g) (List.mem_map.mpr ⟨g, hg, rfl⟩) (by simpa using hpg)
    | some gp =>
      have hm := List.mem_of_find?_eq_some hf
      have hc := List.find?_some hf
      obtain ⟨g', _, rfl⟩ := List.mem_map.mp hm
      simp only [List.contains_iff_mem] at hc
      simp only
      have hi : g'.idxOf p < g'.length := List.idxOf_lt_length_iff.mpr hc
      rw [pick_getD l g' _ _ hi]
      have : g'.getD (g'.idxOf p) 0 = p := by
        rw [List.getD_eq_getElem?_getD, List.getElem?_eq_getElem hi]
        simp
      rw [this, List.getD_eq_getElem?_getD, List.getElem?_eq_getElem (by omega)]
      rfl

/-! ### the element of every stored block is found in the fused tensor -/

theorem range_map_getD {α β} (l : List α) (d : α) (f : α → β) :
    (List.range l.length).map (fun i => f (l.getD i d)) = l.map f := by
  apply List.ext_getElem
  · simp
  · intro i h1 h2
    simp only [List.length_map, List.length_range] at h1
    simp [List.getD_eq_getElem?_getD, List.getElem?_eq_getElem h1]

/-- **hard fusion loses nothing**: the element at `(key, idx)` of the original tensor is the element of the
fused tensor at block `fusedKey key`, position `fusedIdx key shape idx` -/
theorem fuse_element_preserved [Zero R] {T : Tensor R} (h : WF ms T) (groups : List (List Nat))
    (hp : isPartition T.rank groups = true) (kb : Key × Block R) (hkb : kb ∈ T.blocks)
    (idx : List Nat) (hidx : inRange kb.2.shape idx = true) :
    fusedVal T groups (fusedKey T groups kb.1) (fusedIdx T groups kb.1 kb.2.shape idx) = kb.2.val idx := by
  obtain ⟨hk, hsh⟩ := h.keyRank kb hkb
  have hlen : idx.length = T.rank := by
    have : (kb.2.shape.length == idx.length) = true := by
      unfold inRange at hidx
      exact (Bool.and_eq_true _ _ ▸ hidx).1
    rw [← hsh]; exact (beq_iff_eq.mp this).symm
  have hgl : ∀ g ∈ groups, ∀ l ∈ g, l < T.rank := fun g hg l hl =>
    isPerm_lt hp l (List.mem_flatten.mpr ⟨g, hg, hl⟩)
  -- every fused leg locates the decomposition the element came from
  have hloc : ∀ g ∈ groups,
      locateDec (sectorDecs T g (teffOf T g (pick kb.1 g)))
        (decOffset (sectorDecs T g (teffOf T g (pick kb.1 g))) (pick kb.1 g, pick kb.2.shape g) +
          ravel (pick kb.2.shape g) (pick idx g)) =
        some ((pick kb.1 g, pick kb.2.shape g), ravel (pick kb.2.shape g) (pick idx g)) := by
    intro g hg
    apply locateDec_offset
    · unfold sectorDecs decomps
      exact List.mem_filter.mpr ⟨mem_sectorProduct_pick hkb g, by simp⟩
    · exact ravel_lt _ _ (inRange_pick hidx g (fun l hl => by rw [hsh]; exact hgl g hg l hl))
  unfold fusedVal
  have hlocs : (List.range groups.length).map (fun i =>
      locateDec (sectorDecs T (groups.getD i []) ((fusedKey T groups kb.1).getD i []))
        ((fusedIdx T groups kb.1 kb.2.shape idx).getD i 0)) =
      groups.map (fun g => some ((pick kb.1 g, pick kb.2.shape g), ravel (pick kb.2.shape g) (pick idx g))) := by
    apply List.ext_getElem
    · simp
    · intro i h1 h2
      simp only [List.length_map, List.length_range] at h1
      have hg : groups[i] ∈ groups := List.getElem_mem h1
      simp only [List.getElem_map, List.getElem_range, fusedKey, fusedIdx,
        List.getD_eq_getElem?_getD, List.getElem?_map, List.getElem?_eq_getElem h1, Option.map_some, Option.getD_some]
      exact hloc _ hg
  simp only [hlocs]
  have hall : (groups.map (fun g => some ((pick kb.1 g, pick kb.2.shape g), ravel (pick kb.2.shape g) (pick idx g)))).all
      Option.isSome = true := by simp
  rw [if_pos hall]
  simp only [List.map_map, Function.comp_def, Option.getD_some]
  have hkey : scatter T.rank groups (groups.map (fun g => pick kb.1 g)) = kb.1 := scatter_pick _ _ hp _ hk
  have hidx' : scatter T.rank groups (groups.map (fun g => unravel (pick kb.2.shape g) (ravel (pick kb.2.shape g) (pick idx g))))
      = idx := by
    have : groups.map (fun g => unravel (pick kb.2.shape g) (ravel (pick kb.2.shape g) (pick idx g)))
        = groups.map (pick idx) := by
      apply List.map_congr_left
      intro g hg
      exact unravel_ravel _ _ (inRange_pick hidx g (fun l hl => by rw [hsh]; exact hgl g hg l hl))
    rw [this]; exact scatter_pick _ _ hp _ hlen
  rw [hkey, hidx', Tensor.get?_of_mem h.sorted (show (kb.1, kb.2) ∈ T.blocks from hkb)]

end YModel

namespace YModel
section examples
open SymGen
/-- a U1 matrix with distinguishable elements: value `10·row + col + 100·(block)` -/
def exC : Tensor Int :=
  { sym := sym_U1, s := [1, -1], n := [0], isdiag := false,
    blocks := [([[0], [0]], ⟨[1, 2], fun i => i.getD 0 0 * 10 + i.getD 1 0⟩),
               ([[1], [1]], ⟨[2, 3], fun i => 100 + i.getD 0 0 * 10 + i.getD 1 0⟩)] }
/-- non-vacuity: hypotheses hold for `exC` with the transposing fusion `[[1, 0]]`, and the maps compute -/
example : WF [0] exC := wfCheck_sound (by decide)
example : isPartition exC.rank [[1, 0]] = true := by decide
example : fusedKey exC [[1, 0]] [[1], [1]] = [[0]] ∧ fusedIdx exC [[1, 0]] [[1], [1]] [2, 3] [1, 2] = [2 + (2 * 2 + 1)] := by decide
example : fusedVal exC [[1, 0]] [[0]] [7] = 100 + 10 + 2 := by decide
end examples
end YModel
