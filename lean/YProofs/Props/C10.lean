import YProofs.Lemmas.SchedSweeps
import YProofs.Lemmas.SchedChain
import YProofs.Lemmas.TimeGrid
/-!
# C10 — TDVP conserves what it must and is exact on the full manifold (schedule / time-grid part)

Model: `YModel/Sched.lean` (event traces of `_tdvp.py`, environment state machine of `_env.py`, exact rational time grid)
and the generated `YModel/Consts.lean` (literal `s2`, 2nd/4th-order coefficient tables, shape of the step-count formula —
regenerated from `yastn/tn/mps/_tdvp.py` by `gen/gen_consts.py` on every run).  Tie to the source: traces of REAL `tdvp_`
runs are diffed exactly against `tdvpTrace`, sweep lengths / mid-times / step counts / reported times against the
rational model (`harness/props/c10.py`).

NOT proved (observed on the real code by the oracles): norm / energy conservation and exactness on the full manifold
(Lubich–Oseledets), convergence order for time-dependent generators.
-/
namespace YModel.Sched

/-! ## the half sweeps are overlap chains -/

/-- **`half_sweep_overlap_chain`**, '1site': the forward half updates `f₁ b₁ f₂ … f_N` with `fᵢ` = site `i-1` (exponent
`-u·dt/2`), `bᵢ` = the bond between consecutive sites (`+u·dt/2`); the backward half is the mirror image of such a chain. -/
theorem half_sweep_overlap_chain_1site (N : Nat) (hN : 1 ≤ N) :
    isChain 0 (N - 1) (updsOf N ((List.range N).flatMap (tdvp1Step N .last))) = true ∧
    isChain 0 (N - 1) (mirror (updsOf N ((List.range N).reverse.flatMap (tdvp1Step N .first)))) = true := by
  refine ⟨?_, ?_⟩
  · have := chain_fwd1 N N 0 (by omega) hN
    rwa [← List.range_eq_range'] at this
  · exact isChainDown_reverse _ _ (Nat.le_refl _) _ _ (chain_bwd1 N N hN (Nat.le_refl _))

/-- '2site': `fᵢ` = the pair `(i-1, i)`, `bᵢ` = the shared site `i` (backward one-site update), none after the last pair. -/
theorem half_sweep_overlap_chain_2site (N : Nat) (hN : 2 ≤ N) :
    isChain 0 (N - 1) (updsOf N ((List.range (N - 1)).flatMap (tdvp2Step N .last))) = true ∧
    isChain 0 (N - 1) (mirror (updsOf N ((List.range (N - 1)).reverse.flatMap (tdvp2Step N .first)))) = true := by
  refine ⟨?_, ?_⟩
  · have := chain_fwd2 N (N - 1) 0 (by omega) (by omega)
    rwa [← List.range_eq_range'] at this
  · exact isChainDown_reverse _ _ (Nat.le_refl _) _ _ (chain_bwd2 N (N - 1) (by omega))

/-- '12site' under **any** outcome sequence `o` of `enlarge_bond` (and any continuation `o'` for the way back): both
halves are overlap chains covering `0 … N-1` by one- and two-site intervals; every backward update acts exactly on the
intersection of its neighbours (a shared site, or the bond between adjacent intervals); backward updates of a central
block outside the chain are skipped. -/
theorem half_sweep_overlap_chain_12site (N : Nat) (hN : 1 ≤ N) (o o' : List Bool) :
    isChain 0 (N - 1) (updsOf N (tdvp12Fwd N N false o).1) = true ∧
    isChain 0 (N - 1) (mirror (updsOf N (tdvp12Bwd N N false o').1)) = true := by
  refine ⟨?_, ?_⟩
  · simpa using chain_fwd12 N N 0 false o (by omega) hN (by intro h; cases h)
  · have := chain_bwd12 N N false o' hN (Nat.le_refl _)
    exact isChainDown_reverse _ _ (Nat.le_refl _) _ _ (by simpa using this)

/-- the sweeps are exactly these halves followed by environment bookkeeping without local updates -/
theorem sweeps_are_two_halves (N : Nat) (o : List Bool) :
    tdvp1Sweep N = (List.range N).flatMap (tdvp1Step N .last) ++ (List.range N).reverse.flatMap (tdvp1Step N .first) ++ [.upd 0 .first] ∧
    tdvp2Sweep N = (List.range (N - 1)).flatMap (tdvp2Step N .last) ++ (List.range (N - 1)).reverse.flatMap (tdvp2Step N .first)
      ++ [.clr [0], .upd 0 .first] ∧
    (tdvp12Sweep N o).1 = (tdvp12Fwd N N false o).1 ++ (tdvp12Bwd N N false (tdvp12Fwd N N false o).2).1 ++ [.clr [0], .upd 0 .first] :=
  ⟨rfl, rfl, rfl⟩

/-- '1site' and '2site' are palindromic: the local updates of the second half are exactly those of the first half in the
opposite order (⇒ symmetric second-order composition). -/
theorem sweep_palindromic (N : Nat) :
    updsOf N ((List.range N).reverse.flatMap (tdvp1Step N .first)) =
      mirror (updsOf N ((List.range N).flatMap (tdvp1Step N .last))) ∧
    updsOf N ((List.range (N - 1)).reverse.flatMap (tdvp2Step N .first)) =
      mirror (updsOf N ((List.range (N - 1)).flatMap (tdvp2Step N .last))) :=
  ⟨sweep_palindromic_1site N, sweep_palindromic_2site N⟩

/-! ## environment freshness -/

/-- **`tdvp_reads_fresh`**: for every `N ≥ 1`, method ('1site', '2site', '12site' under any `enlarge_bond` oracle), number
of sweeps sharing one environment, with and without precompute: no event reads a missing or stale environment, no site is
updated while a central block exists, `_update_C` acts on the block left by the preceding `orthogonalize_site_`. -/
theorem tdvp_reads_fresh (N : Nat) (hN : 1 ≤ N) (pre : Bool) (m : Method) (k : Nat) (o : List Bool) :
    (exec N pre (init N true) (tdvpTrace m N k o)).2 = true :=
  (tdvpTrace_ok N pre hN m k o _ (init_S N pre true)).1

/-- after every sweep: no central block, all right environments and the left edge fresh (what the next sweep assumes) -/
theorem tdvp_exit_state (N : Nat) (hN : 1 ≤ N) (pre : Bool) (m : Method) (k : Nat) (o : List Bool) :
    let st := (exec N pre (init N true) (tdvpTrace m N k o)).1
    st.pC = none ∧ ∀ j, j ≤ N → FreshK N st.ver st.F (.R j) := by
  have h := (tdvpTrace_ok N pre hN m k o _ (init_S N pre true)).2
  exact ⟨h.2, fun j hj => h.1.r j (by omega) hj⟩

/-! ## time grid (exact rationals; `T = t1 - t0`, `eps = 10⁻¹²`) -/

/-- **`steps_spec`**: `steps = int((t1-t0-1e-12)//dt)+1` is `⌊(T-ε)/dt⌋+1`; it is `≥ 1` (for `T ≥ ε`), `steps·ds = T`
exactly (the snapshot is reached exactly), `steps` is the least `k` with `k·dt > T-ε`, hence `ds < dt + ε/steps`, and
`ds ≤ dt` unless `T` lies within `ε` above a multiple of `dt` (the unconditional `ds ≤ dt` is FALSE: `T=1, dt=1-5·10⁻¹³`);
when `dt` divides `T` the step is not changed. -/
theorem steps_spec (T dt : Q) (hT : 0 < T.den) (hd : 0 < dt.den) (hn : 0 < dt.num) (h : eps ≤ T.toRat) :
    stepsQ T dt = ⌊(T.toRat - eps) / dt.toRat⌋ + 1 ∧ 1 ≤ stepsQ T dt ∧
    (stepsQ T dt : ℚ) * (dsQ T dt).toRat = T.toRat ∧
    (((stepsQ T dt : ℚ) - 1) * dt.toRat ≤ T.toRat - eps ∧ T.toRat - eps < (stepsQ T dt : ℚ) * dt.toRat) ∧
    (∀ k : ℤ, T.toRat - eps < (k : ℚ) * dt.toRat → stepsQ T dt ≤ k) ∧
    (dsQ T dt).toRat < dt.toRat + eps / (stepsQ T dt : ℚ) ∧
    ((¬ ∃ k : ℤ, (k : ℚ) * dt.toRat < T.toRat ∧ T.toRat < (k : ℚ) * dt.toRat + eps) → (dsQ T dt).toRat ≤ dt.toRat) ∧
    (∀ k : ℤ, 1 ≤ k → T.toRat = k * dt.toRat → eps < dt.toRat → stepsQ T dt = k ∧ (dsQ T dt).toRat = dt.toRat) :=
  ⟨stepsQ_eq_floor T dt hT hd hn, steps_pos T dt hT hd hn h, steps_mul_ds T dt hT hd hn h, steps_bracket T dt hT hd hn,
   fun k hk => steps_minimal T dt hT hd hn k hk, ds_lt T dt hT hd hn h, fun hg => ds_le_dt T dt hT hd hn h hg,
   fun k hk hT' hb => ⟨steps_exact_of_dvd T dt hT hd hn k hk hT' hb, ds_eq_dt_of_dvd T dt hT hd hn k hk hT' hb⟩⟩

/-- the formula in the source has the modelled shape (regenerated): `int((t1 - t0 - EPS) // dt) + 1`, `EPS = 10⁻¹²`,
`ds = (t1 - t0)/steps`, `t = t + ds` -/
theorem steps_source_shape : Consts.stepsShape = "floor" ∧ Consts.dsShape = "T/steps" ∧ Consts.advanceShape = "t+ds" ∧
    Consts.epsDen = 10 ^ 12 := source_shapes

/-- **`fourth_order_identities`** for EVERY `s` (coefficient tables regenerated from the source): the five sub-step
lengths are `s, s, 1-4s, s, s`, they sum to one and are palindromic; the five mid-times are the midpoints of the consecutive
sub-intervals (and mirror-symmetric); the 2nd-order step is one sweep of length `ds` at the midpoint. -/
theorem fourth_order_identities (s : ℚ) :
    table4.map (fun p => p.2.evalRat s) = [s, s, 1 - 4 * s, s, s] ∧
    (table4.map (fun p => p.2.evalRat s)).sum = 1 ∧
    (table4.map (fun p => p.2.evalRat s)).reverse = table4.map (fun p => p.2.evalRat s) ∧
    (∀ i, i < 5 → (table4.map (fun p => p.1.evalRat s)).getD i 0 =
      ((table4.map (fun p => p.2.evalRat s)).take i).sum + (table4.map (fun p => p.2.evalRat s)).getD i 0 / 2) ∧
    (∀ i, i < 5 → (table4.map (fun p => p.1.evalRat s)).getD i 0 + (table4.map (fun p => p.1.evalRat s)).getD (4 - i) 0 = 1) ∧
    table2.map (fun p => (p.1.evalRat s, p.2.evalRat s)) = [(1 / 2, 1)] :=
  ⟨fourth_weights s, fourth_sum_one s, fourth_palindromic s, fun i hi => fourth_mid_is_midpoint s i hi,
   fun i hi => fourth_mids_mirror s i hi, second_table s⟩

/-- **`s2_bound`**: the literal in the source satisfies the 4th-order condition `4 s³ + (1-4s)³ = 0` to `10⁻¹⁹` (even
`10⁻²⁰`), lies in `(0, 1/2)`, and is the correctly rounded 20-digit root (changing its last digit breaks this file). -/
theorem s2_literal :
    |4 * s2.toRat ^ 3 + (1 - 4 * s2.toRat) ^ 3| < 1 / 10 ^ 19 ∧
    |4 * s2.toRat ^ 3 + (1 - 4 * s2.toRat) ^ 3| < 1 / 10 ^ 20 ∧ 0 < s2.toRat ∧ s2.toRat < 1 / 2 :=
  ⟨s2_bound, s2_bound_tight, s2_range.1, s2_range.2⟩

/-- the driver's integer-pair evaluation of the tables agrees with the rational one used in the theorems -/
theorem driver_subSteps_exact :
    (subSteps table4 s2).map (fun q => (q.1.toRat, q.2.toRat)) = table4.map (fun p => (p.1.evalRat s2.toRat, p.2.evalRat s2.toRat)) :=
  subSteps_toRat table4 s2 s2_den_ne_zero table4_dens

/-! ## Krylov-size memory -/

/-- a local problem: one site, two neighbouring sites, or a bond -/
def Upd.problem : Upd → Nat × Nat × Nat
  | .site lo hi _ => (0, lo, hi)
  | .bond m _ => (1, m, m)

def Upd.valid : Upd → Prop
  | .site lo hi _ => hi = lo ∨ hi = lo + 1
  | .bond m _ => 1 ≤ m

/-- **`ncv_keys_disjoint`**: the dictionary keys under which `_update_A` (`n`), `_update_C` (`(m-1, m)`) and `_update_AA`
(`(n+1, n)`) remember their Krylov size are injective in the local problem: no two different problems share a key, so each
read returns the value written by the previous update of the same problem. -/
theorem ncv_keys_disjoint (u v : Upd) (hu : u.valid) (hv : v.valid) (h : ncvKey u = ncvKey v) : u.problem = v.problem := by
  cases u with
  | site a b s =>
    cases v with
    | site c d t =>
      simp only [ncvKey, Upd.problem] at *
      split at h <;> split at h <;> simp_all
    | bond m t =>
      simp only [ncvKey, Upd.valid] at *
      split at h
      · simp at h
      · simp only [NcvKey.tup.injEq] at h; omega
  | bond m s =>
    cases v with
    | site c d t =>
      simp only [ncvKey, Upd.valid] at *
      split at h
      · simp at h
      · simp only [NcvKey.tup.injEq] at h; omega
    | bond m' t =>
      simp only [ncvKey, Upd.problem, NcvKey.tup.injEq] at *
      have : m = m' := by omega
      subst this; rfl

/-! ## non-vacuity -/

example : updsOf 4 (tdvp12Fwd 4 4 false [true, false, false, true]).1 =
    [.site 0 1 .minus, .bond 2 .plus, .site 2 2 .minus, .bond 3 .plus, .site 3 3 .minus] := by decide

example : isChain 0 3 [.site 0 1 .minus, .site 1 1 .plus, .site 1 2 .minus, .bond 3 .plus, .site 3 3 .minus] = true := by decide
/-- a backward update on the wrong bond / with the wrong sign is not a chain -/
example : isChain 0 2 [.site 0 0 .minus, .bond 2 .plus, .site 1 1 .minus, .bond 2 .plus, .site 2 2 .minus] = false := by decide
example : isChain 0 1 [.site 0 0 .minus, .bond 1 .minus, .site 1 1 .minus] = false := by decide

/-- palindromy on instances -/
example : updsOf 5 ((List.range 5).reverse.flatMap (tdvp1Step 5 .first)) = (updsOf 5 ((List.range 5).flatMap (tdvp1Step 5 .last))).reverse := by
  decide
example : updsOf 5 ((List.range 4).reverse.flatMap (tdvp2Step 5 .first)) = (updsOf 5 ((List.range 4).flatMap (tdvp2Step 5 .last))).reverse := by
  decide

set_option maxRecDepth 20000 in
example : (exec 3 true (init 3 true) (tdvpTrace .onetwo 3 2 [true, false, true, true, false, true, false])).2 = true := by decide

/-- the final `update_env_(first)` is needed: without it the next sweep reads a stale `F[(0,-1)]`… -/
example : (exec 2 false (init 2 true) (setupFirst 2 ++ (List.range 2).flatMap (tdvp1Step 2 .last)
    ++ (List.range 2).reverse.flatMap (tdvp1Step 2 .first) ++ [.meas 0])).2 = false := by decide

example : stepsQ ⟨1, 1⟩ ⟨1, 4⟩ = 4 ∧ stepsQ ⟨1, 1⟩ ⟨3, 10⟩ = 4 ∧ stepsQ ⟨1, 1⟩ ⟨1999999999999, 2000000000000⟩ = 1 := by decide

end YModel.Sched
