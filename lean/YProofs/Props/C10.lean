import YProofs.Lemmas.TimeGrid
namespace YModel.Sched
/-- placeholder (replaced below) -/
theorem c10_placeholder : (tdvpTrace .one 1 0 []).length = 1 := by decide
end YModel.Sched
