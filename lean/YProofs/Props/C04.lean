import YModel.Factor
import YProofs.Props.C19
/-!
# C04 — structure of the factors of svd / qr (charge bookkeeping of the new leg)

`tCon` is the connecting charge `_meta_svd` / `_meta_qr` assign to a block `(r, c)` of the merged matrix in
their four-way case split.  For every symmetry in canonical shape, all signatures, both choices of the
charge-carrying factor and every block obeying the selection rule the theorems show:
* the blocks of `U` (`(r, tCon)`, signature `(s0, sU)`) combine to `U.n` (= `n` if `nU` else `0`),
* the blocks of `V` (`(tCon, c)`, signature `(-sU, s1)`) combine to `V.n`,
* `S` (`(tCon, tCon)`, signature `(-sU, sU)`) has charge `0`,
* `tCon` is canonical, and it is INJECTIVE on the blocks of the matrix (`no_cross_terms`): in `U @ S @ V`
  each block of the product receives exactly one contribution, from the factors of the same matrix block.
Reconstruction and (co-)isometry of the assembled factors then reduce to the per-block LAPACK contracts,
which are validated numerically on every run (assumed, not proved).
-/
namespace YModel
open Int

variable {d : SymDef} {ms : List Nat}

theorem fuse2_getD (hd : WSym d ms) (a b : Charge) (sa sb : Int) (j : Nat) (hj : j < ms.length) :
    (d.fuse [a, b] [sa, sb] 1).getD j 0 = (sa * a.getD j 0 + sb * b.getD j 0) % (ms.getD j 0 : Int) := by
  rw [fuse_eq_canon d ms hd, canonFuse_getD, if_pos hj, canonComp, rawComp_cons, rawComp_cons, rawComp_nil]
  congr 1; ring

theorem negC_getD (hd : WSym d ms) (a : Charge) (j : Nat) (hj : j < ms.length) :
    (negC d a).getD j 0 = (-(a.getD j 0)) % (ms.getD j 0 : Int) := by
  unfold negC
  rw [fuse_eq_canon d ms hd, canonFuse_getD, if_pos hj, canonComp, rawComp_cons, rawComp_nil]
  congr 1; ring

theorem modEq_mul_emod (s x m : Int) : s * (x % m) ≡ s * x [ZMOD m] := (Int.mod_modEq x m).mul_left s

/-- a matrix block obeys the selection rule of the merged matrix -/
def BlockRule (d : SymDef) (s0 s1 : Int) (n : Charge) (b : MBlock) : Prop :=
  d.fuse [b.r, b.c] [s0, s1] 1 = n

theorem rule_getD (hd : WSym d ms) {s0 s1 : Int} {n : Charge} {b : MBlock} (h : BlockRule d s0 s1 n b)
    (j : Nat) (hj : j < ms.length) :
    n.getD j 0 = (s0 * b.r.getD j 0 + s1 * b.c.getD j 0) % (ms.getD j 0 : Int) := by
  rw [← h]; exact fuse2_getD hd _ _ _ _ j hj

theorem tCon_canonical (hd : WSym d ms) (s0 s1 sU : Int) (nU : Bool) (b : MBlock)
    (hr : isCanonical ms b.r = true) (hc : isCanonical ms b.c = true) :
    isCanonical ms (tCon d s0 s1 sU nU b) = true := by
  unfold tCon negC
  split
  · split
    · exact hc
    · exact fuse_range hd _ _ _
  · split
    · exact hr
    · exact fuse_range hd _ _ _

section rules
variable (hd : WSym d ms) {s0 s1 sU : Int} (h0 : s0 = 1 ∨ s0 = -1) (h1 : s1 = 1 ∨ s1 = -1) (hU : sU = 1 ∨ sU = -1)
  {n : Charge} {b : MBlock} (hb : BlockRule d s0 s1 n b)
include hd h0 h1 hU hb

/-- **the blocks of `U` obey the selection rule with the charge `U` is promised to carry** -/
theorem U_rule (nU : Bool) :
    d.fuse [b.r, tCon d s0 s1 sU nU b] [s0, sU] 1 = if nU then n else d.zero := by
  obtain ⟨hl, _⟩ := moduli_some hd
  have hn : n.length = ms.length := by rw [← hb, fuse_length hd]
  apply charge_ext _ _ (by
    rw [fuse_length hd]; split
    · exact hn.symm
    · simp [SymDef.zero, hl])
  intro j hj
  rw [fuse_length hd] at hj
  rw [fuse2_getD hd _ _ _ _ j hj]
  unfold tCon
  cases nU with
  | true =>
    simp only [if_true]
    rw [rule_getD hd hb j hj]
    by_cases hs : sU = s1
    · rw [if_pos hs, hs]
    · rw [if_neg hs, negC_getD hd _ j hj]
      have hs' : sU = -s1 := by rcases hU with h | h <;> rcases h1 with h' | h' <;> subst h <;> subst h' <;> simp_all
      show _ ≡ _ [ZMOD _]
      have := (Int.ModEq.refl (s0 * b.r.getD j 0)).add (modEq_mul_emod sU (-(b.c.getD j 0)) (ms.getD j 0 : Int))
      rw [hs'] at this ⊢
      have e : -s1 * -(b.c.getD j 0) = s1 * b.c.getD j 0 := by ring
      rw [e] at this
      exact this
  | false =>
    simp only [Bool.false_eq_true, if_false]
    rw [zero_getD hd]
    by_cases hs : sU = -s0
    · rw [if_pos hs, hs]
      have : s0 * b.r.getD j 0 + -s0 * b.r.getD j 0 = 0 := by ring
      rw [this]; simp
    · rw [if_neg hs, negC_getD hd _ j hj]
      have hs' : sU = s0 := by rcases hU with h | h <;> rcases h0 with h' | h' <;> subst h <;> subst h' <;> simp_all
      rw [hs']
      show _ ≡ 0 [ZMOD _]
      have := (Int.ModEq.refl (s0 * b.r.getD j 0)).add (modEq_mul_emod s0 (-(b.r.getD j 0)) (ms.getD j 0 : Int))
      have e : s0 * b.r.getD j 0 + s0 * -(b.r.getD j 0) = 0 := by ring
      rw [e] at this
      exact this

/-- **the blocks of `V` obey the selection rule with the charge `V` is promised to carry** -/
theorem V_rule (nU : Bool) :
    d.fuse [tCon d s0 s1 sU nU b, b.c] [-sU, s1] 1 = if nU then d.zero else n := by
  obtain ⟨hl, _⟩ := moduli_some hd
  have hn : n.length = ms.length := by rw [← hb, fuse_length hd]
  apply charge_ext _ _ (by
    rw [fuse_length hd]; split
    · simp [SymDef.zero, hl]
    · exact hn.symm)
  intro j hj
  rw [fuse_length hd] at hj
  rw [fuse2_getD hd _ _ _ _ j hj]
  unfold tCon
  cases nU with
  | true =>
    simp only [if_true]
    rw [zero_getD hd]
    by_cases hs : sU = s1
    · rw [if_pos hs, hs]
      have : -s1 * b.c.getD j 0 + s1 * b.c.getD j 0 = 0 := by ring
      rw [this]; simp
    · rw [if_neg hs, negC_getD hd _ j hj]
      have hs' : sU = -s1 := by rcases hU with h | h <;> rcases h1 with h' | h' <;> subst h <;> subst h' <;> simp_all
      rw [hs']
      show _ ≡ 0 [ZMOD _]
      have := (modEq_mul_emod (- -s1) (-(b.c.getD j 0)) (ms.getD j 0 : Int)).add (Int.ModEq.refl (s1 * b.c.getD j 0))
      have e : - -s1 * -(b.c.getD j 0) + s1 * b.c.getD j 0 = 0 := by ring
      rw [e] at this
      exact this
  | false =>
    simp only [Bool.false_eq_true, if_false]
    rw [rule_getD hd hb j hj]
    by_cases hs : sU = -s0
    · rw [if_pos hs, hs]
      have : - -s0 * b.r.getD j 0 = s0 * b.r.getD j 0 := by ring
      rw [this]
    · rw [if_neg hs, negC_getD hd _ j hj]
      have hs' : sU = s0 := by rcases hU with h | h <;> rcases h0 with h' | h' <;> subst h <;> subst h' <;> simp_all
      rw [hs']
      show _ ≡ _ [ZMOD _]
      have := (modEq_mul_emod (-s0) (-(b.r.getD j 0)) (ms.getD j 0 : Int)).add (Int.ModEq.refl (s1 * b.c.getD j 0))
      have e : -s0 * -(b.r.getD j 0) = s0 * b.r.getD j 0 := by ring
      rw [e] at this
      exact this

omit h0 h1 hb in
/-- `S` is a diagonal tensor of zero charge on the connecting charge, signature `(-sU, sU)` -/
theorem S_rule (t : Charge) : d.fuse [t, t] [-sU, sU] 1 = d.zero := by
  obtain ⟨hl, _⟩ := moduli_some hd
  apply charge_ext _ _ (by rw [fuse_length hd]; simp [SymDef.zero, hl])
  intro j hj
  rw [fuse_length hd] at hj
  rw [fuse2_getD hd _ _ _ _ j hj, zero_getD hd]
  have : -sU * t.getD j 0 + sU * t.getD j 0 = 0 := by ring
  rw [this]; simp

end rules

/-! ### no cross terms -/

theorem canon_eq_of_modEq (hd : WSym d ms) {a b : Charge} (ha : isCanonical ms a = true) (hb : isCanonical ms b = true)
    (h : ∀ j, j < ms.length → a.getD j 0 ≡ b.getD j 0 [ZMOD (ms.getD j 0 : Int)]) : a = b := by
  have hla : a.length = ms.length := by unfold isCanonical at ha; simp at ha; exact ha.1
  have hlb : b.length = ms.length := by unfold isCanonical at hb; simp at hb; exact hb.1
  apply charge_ext _ _ (by rw [hla, hlb])
  intro j hj
  rw [hla] at hj
  have h1 := emod_of_canonRange (canon_getD hd ha j hj)
  have h2 := emod_of_canonRange (canon_getD hd hb j hj)
  rw [← h1, ← h2]
  exact h j hj

theorem modEq_cancel_sign {s x y m : Int} (hs : s = 1 ∨ s = -1) (h : s * x ≡ s * y [ZMOD m]) : x ≡ y [ZMOD m] := by
  have := h.mul_left s
  rw [← Int.mul_assoc, ← Int.mul_assoc, sign_sq hs, Int.one_mul, Int.one_mul] at this
  exact this

theorem modEq_neg_cancel {x y m : Int} (h : (-x) % m = (-y) % m) : x ≡ y [ZMOD m] := by
  have h' : -x ≡ -y [ZMOD m] := h
  have := h'.neg
  simpa using this

/-- **no cross terms**: two blocks of one matrix (same signature, same total charge, canonical charges) with
the same connecting charge are the same block — so every block of `U @ S @ V` (resp. `Q @ R`) gets exactly
one contribution, from the factors of its own matrix block, in all four cases of the case split. -/
theorem no_cross_terms (hd : WSym d ms) {s0 s1 sU : Int} (h0 : s0 = 1 ∨ s0 = -1) (h1 : s1 = 1 ∨ s1 = -1)
    (nU : Bool) {n : Charge} {b b' : MBlock}
    (hb : BlockRule d s0 s1 n b) (hb' : BlockRule d s0 s1 n b')
    (hr : isCanonical ms b.r = true) (hc : isCanonical ms b.c = true)
    (hr' : isCanonical ms b'.r = true) (hc' : isCanonical ms b'.c = true)
    (h : tCon d s0 s1 sU nU b = tCon d s0 s1 sU nU b') : b.r = b'.r ∧ b.c = b'.c := by
  -- from the rules: s0 r + s1 c ≡ s0 r' + s1 c'
  have hrule : ∀ j, j < ms.length →
      s0 * b.r.getD j 0 + s1 * b.c.getD j 0 ≡ s0 * b'.r.getD j 0 + s1 * b'.c.getD j 0 [ZMOD (ms.getD j 0 : Int)] := by
    intro j hj
    have e1 := rule_getD hd hb j hj
    have e2 := rule_getD hd hb' j hj
    show _ % _ = _ % _
    rw [← e1, ← e2]
  unfold tCon at h
  cases nU with
  | true =>
    simp only [if_true] at h
    have hcc : b.c = b'.c := by
      split at h
      · exact h
      · apply canon_eq_of_modEq hd hc hc'
        intro j hj
        have := congrArg (fun t => t.getD j 0) h
        simp only [negC_getD hd _ j hj] at this
        exact modEq_neg_cancel this
    refine ⟨?_, hcc⟩
    apply canon_eq_of_modEq hd hr hr'
    intro j hj
    have := hrule j hj
    rw [hcc] at this
    exact modEq_cancel_sign h0 (Int.ModEq.add_right_cancel' _ this)
  | false =>
    simp only [Bool.false_eq_true, if_false] at h
    have hrr : b.r = b'.r := by
      split at h
      · exact h
      · apply canon_eq_of_modEq hd hr hr'
        intro j hj
        have := congrArg (fun t => t.getD j 0) h
        simp only [negC_getD hd _ j hj] at this
        exact modEq_neg_cancel this
    refine ⟨hrr, ?_⟩
    apply canon_eq_of_modEq hd hc hc'
    intro j hj
    have := hrule j hj
    rw [hrr] at this
    exact modEq_cancel_sign h1 (Int.ModEq.add_left_cancel' _ this)

/-- the factor that was asked to carries the charge, the other one has charge zero; signatures as promised -/
theorem factor_charges (s0 s1 : Int) (n : Charge) (blocks : List MBlock) (sU : Int) (nU : Bool) :
    let fs := factorStruct d s0 s1 n blocks sU nU
    fs.Un = (if nU then n else d.zero) ∧ fs.Vn = (if nU then d.zero else n) ∧
    fs.sU = (s0, sU) ∧ fs.sS = (-sU, sU) ∧ fs.sV = (-sU, s1) := by
  simp [factorStruct]

/-- non-vacuity: the four cases on a U1xU1xZ2 block of non-zero charge -/
example : BlockRule SymGen.sym_U1xU1xZ2 1 (-1) [1, -1, 1] ⟨[2, 0, 1], [1, 1, 0], 2, 3⟩ := by unfold BlockRule; decide
example : tCon SymGen.sym_U1xU1xZ2 1 (-1) 1 true ⟨[2, 0, 1], [1, 1, 0], 2, 3⟩ = [-1, -1, 0] := by decide
example : tCon SymGen.sym_U1xU1xZ2 1 (-1) 1 false ⟨[2, 0, 1], [1, 1, 0], 2, 3⟩ = [-2, 0, 1] := by decide

end YModel
