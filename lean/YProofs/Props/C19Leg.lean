import YProofs.Props.C19
import YProofs.Lemmas.LegLemmas
import YProofs.Lemmas.SortLemmas
/-!
# C19 (part 2) — `Leg` accepts exactly canonical, non-repeated charges with positive
dimensions, stores them sorted, and `conj` is an involution onto the dual space.
-/
namespace YModel

/-- the acceptance condition of the `Leg` constructor, as the property states it -/
def LegAccepts (d : SymDef) (ms : List Nat) (s : Int) (t D : List Int) : Prop :=
  (s = 1 ∨ s = -1) ∧ (∀ x ∈ D, 0 < x) ∧
  (D.length * d.nsym = t.length ∧ ¬(d.nsym = 0 ∧ 1 < D.length)) ∧
  (∀ c ∈ splitCharges d.nsym D.length t, isCanonical ms c = true) ∧
  (splitCharges d.nsym D.length t).Nodup

theorem splitCharges_length_of_count {nsym lD : Nat} {t : List Int} (h : lD * nsym = t.length) :
    ∀ c ∈ splitCharges nsym lD t, c.length = nsym := by
  intro c hc
  unfold splitCharges at hc
  simp only [List.mem_map, List.mem_range] at hc
  obtain ⟨i, hi, rfl⟩ := hc
  simp only [List.length_take, List.length_drop]
  have : (i + 1) * nsym ≤ lD * nsym := Nat.mul_le_mul_right _ hi
  rw [Nat.add_mul] at this
  omega

theorem map_fuse_eq_self_iff {d : SymDef} {ms : List Nat} (hd : WSym d ms) {s : Int} (hs : s = 1 ∨ s = -1)
    (l : List Charge) :
    l = l.map (fun c => d.fuse [c] [s] s) ↔ ∀ c ∈ l, isCanonical ms c = true := by
  induction l with
  | nil => simp
  | cons c l ih =>
    simp only [List.map_cons, List.cons.injEq, List.mem_cons, forall_eq_or_imp]
    constructor
    · rintro ⟨h1, h2⟩
      exact ⟨by rw [h1]; exact fuse_range hd _ _ _, ih.mp h2⟩
    · rintro ⟨h1, h2⟩
      exact ⟨(fuse_idem hd h1 hs).symm, ih.mpr h2⟩

/-- **A Leg accepts exactly** signatures ±1, positive dimensions, matching counts, canonical and
non-repeated charges; and the error raised is the first failing test in source order. -/
theorem leg_accepts_iff {d : SymDef} {ms : List Nat} (hd : WSym d ms) (s : Int) (t D : List Int) :
    (∃ l, Leg.mk? d s t D = .ok l) ↔ LegAccepts d ms s t D := by
  unfold Leg.mk? LegAccepts
  by_cases hs : s = 1 ∨ s = -1
  · rw [if_neg (not_not_intro hs)]
    by_cases hD : ∀ x ∈ D, 0 < x
    · rw [if_neg (not_not_intro hD)]
      by_cases hc : D.length * d.nsym = t.length ∧ ¬(d.nsym = 0 ∧ 1 < D.length)
      · rw [if_neg (not_not_intro hc)]
        have key := map_fuse_eq_self_iff hd hs (splitCharges d.nsym D.length t)
        by_cases hr : ∀ c ∈ splitCharges d.nsym D.length t, isCanonical ms c = true
        · have heq := key.mpr hr
          simp only []
          rw [if_neg (not_not_intro heq), ← heq]
          by_cases hn : (splitCharges d.nsym D.length t).Nodup
          · rw [if_neg (not_not_intro hn)]
            exact ⟨fun _ => ⟨hs, hD, hc, hr, hn⟩, fun _ => ⟨_, rfl⟩⟩
          · rw [if_pos hn]
            exact ⟨(fun ⟨_, h⟩ => by cases h), fun h => absurd h.2.2.2.2 hn⟩
        · have hne : ¬ (splitCharges d.nsym D.length t = (splitCharges d.nsym D.length t).map (fun c => d.fuse [c] [s] s)) :=
            fun h => hr (key.mp h)
          simp only []
          rw [if_pos hne]
          exact ⟨(fun ⟨_, h⟩ => by cases h), fun h => absurd h.2.2.2.1 hr⟩
      · rw [if_pos hc]
        exact ⟨(fun ⟨_, h⟩ => by cases h), fun h => absurd h.2.2.1 hc⟩
    · rw [if_pos hD]
      exact ⟨(fun ⟨_, h⟩ => by cases h), fun h => absurd h.2.1 hD⟩
  · rw [if_pos hs]
    exact ⟨(fun ⟨_, h⟩ => by cases h), fun h => absurd h.1 hs⟩

theorem leg_error_kind (d : SymDef) (s : Int) (t D : List Int) :
    (¬(s = 1 ∨ s = -1) → Leg.mk? d s t D = .error .signature) ∧
    ((s = 1 ∨ s = -1) → ¬(∀ x ∈ D, 0 < x) → Leg.mk? d s t D = .error .dims) ∧
    ((s = 1 ∨ s = -1) → (∀ x ∈ D, 0 < x) →
      ¬(D.length * d.nsym = t.length ∧ ¬(d.nsym = 0 ∧ 1 < D.length)) → Leg.mk? d s t D = .error .count) := by
  refine ⟨?_, ?_, ?_⟩
  · intro h; unfold Leg.mk?; rw [if_pos h]
  · intro h1 h2; unfold Leg.mk?; rw [if_neg (not_not_intro h1), if_pos h2]
  · intro h1 h2 h3; unfold Leg.mk?; rw [if_neg (not_not_intro h1), if_neg (not_not_intro h2), if_pos h3]

/-- the stored sectors are strictly ascending in the Python tuple order and are a permutation
of the supplied `(t, D)` pairs -/
theorem leg_sorted {d : SymDef} {s : Int} {t D : List Int} {l : Leg} (h : Leg.mk? d s t D = .ok l) :
    l.tD.Pairwise (fun a b => lexLt a.1 b.1 = true) ∧
    l.tD.Perm ((splitCharges d.nsym D.length t).zip (D.map Int.toNat)) ∧ l.s = s ∧ l.sym = d := by
  unfold Leg.mk? at h
  split at h; · cases h
  split at h; · cases h
  split at h; · cases h
  simp only at h
  split at h; · cases h
  rename_i hr
  split at h; · cases h
  rename_i hn
  simp only [ne_eq, Decidable.not_not] at hr hn
  cases h
  simp only [and_true]
  rw [← hr] at hn ⊢
  refine ⟨?_, isort_perm _ _⟩
  have hsorted := isort_pairwise tdLe
    (fun a b c => lexLe_trans a.1 b.1 c.1) (fun a b => lexLe_total a.1 b.1)
    ((splitCharges d.nsym D.length t).zip (D.map Int.toNat))
  have hnd : ((isort tdLe ((splitCharges d.nsym D.length t).zip (D.map Int.toNat))).map Prod.fst).Nodup := by
    have hp := (isort_perm tdLe ((splitCharges d.nsym D.length t).zip (D.map Int.toNat))).map Prod.fst
    apply hp.nodup_iff.mpr
    rw [List.map_fst_zip (by simp [splitCharges])]
    exact hn
  generalize (isort tdLe ((splitCharges d.nsym D.length t).zip (D.map Int.toNat))) = L at hsorted hnd
  induction L with
  | nil => exact List.Pairwise.nil
  | cons a L ih =>
    rw [List.pairwise_cons] at hsorted ⊢
    rw [List.map_cons, List.nodup_cons] at hnd
    refine ⟨?_, ih hsorted.2 hnd.2⟩
    intro b hb
    apply lexLt_of_le_ne (hsorted.1 b hb)
    intro hab
    exact hnd.1 (by rw [hab]; exact List.mem_map_of_mem hb)

/-- `conj` is an involution … -/
theorem leg_conj_conj (l : Leg) : l.conj.conj = l := by
  cases l with
  | mk sym s tD hf =>
    cases hf with
    | mk tree op ss =>
      simp [Leg.conj, Fusion.conj, List.map_map]

/-- … that maps a space to its dual: same sectors and dimensions, opposite signature(s) -/
theorem leg_conj_dual (l : Leg) :
    l.conj.tD = l.tD ∧ l.conj.s = -l.s ∧ l.conj.sym = l.sym ∧
    l.conj.hf.s = l.hf.s.map (fun x => -x) ∧ l.conj.hf.tree = l.hf.tree ∧ l.conj.hf.op = l.hf.op := by
  simp [Leg.conj, Fusion.conj]

/-- non-vacuity: a concrete accepted leg (Z2xU1, unsorted input gets sorted) and rejections -/
example : (Leg.mk? SymGen.sym_Z2xU1 (-1) [1, 0, 0, 3, 0, -2] [2, 1, 4]).toOption.map (·.tD)
    = some [([0, -2], 4), ([0, 3], 1), ([1, 0], 2)] := by decide
example : Leg.mk? SymGen.sym_Z2 1 [0, 2] [1, 1] = .error .range := by decide
example : Leg.mk? SymGen.sym_Z2 1 [1, 1] [1, 1] = .error .repeated := by decide
example : Leg.mk? SymGen.sym_none 1 [] [1, 1] = .error .count := by decide

end YModel
