import YProofs.Lemmas.SerialLemmas
/-!
# C17 — Serialisation round-trips every object exactly

Model: `YModel/Serial.lean`.  All theorems quantify over every nested dictionary / tensor record / block layout.
-/
namespace YModel.Serial
open YModel

/-! ## split / combine -/

theorem pyIndex_append (pre : List Val) (v : Val) (rest : List Val) :
    pyIndex (pre ++ v :: rest) (pre.length : Int) = .ok v := by
  unfold pyIndex
  have h0 : (0 : Int) ≤ (pre.length : Int) := Int.natCast_nonneg _
  simp only [h0, if_true, Int.toNat_natCast]
  simp

mutual
/-- walk level: combining with the meta of the walk restores the walked dictionary, whatever was in the data list
before (`pre`) and whatever is appended later (`rest`) -/
theorem combineV_splitV : ∀ (v : Val) (pre : List Val),
    ∃ ext, (splitV v pre).2 = pre ++ ext ∧ ∀ rest, combineV (pre ++ ext ++ rest) (splitV v pre).1 = .ok v
  | .dict kvs, pre => by
    obtain ⟨ext, h1, h2⟩ := combineKVs_splitKVs kvs pre
    refine ⟨ext, ?_, ?_⟩
    · simp only [splitV]; exact h1
    · intro rest
      simp only [splitV, combineV, h2 rest]
  | .int _, pre => ⟨[], by simp [splitV], by intro rest; simp [splitV, combineV]⟩
  | .str _, pre => ⟨[], by simp [splitV], by intro rest; simp [splitV, combineV]⟩
  | .bool _, pre => ⟨[], by simp [splitV], by intro rest; simp [splitV, combineV]⟩
  | .none, pre => ⟨[], by simp [splitV], by intro rest; simp [splitV, combineV]⟩
  | .arr _, pre => ⟨[], by simp [splitV], by intro rest; simp [splitV, combineV]⟩
  | .tuple _, pre => ⟨[], by simp [splitV], by intro rest; simp [splitV, combineV]⟩
theorem combineKVs_splitKVs : ∀ (kvs : List KV) (pre : List Val),
    ∃ ext, (splitKVs kvs pre).2 = pre ++ ext ∧ ∀ rest, combineKVs (pre ++ ext ++ rest) (splitKVs kvs pre).1 = .ok kvs
  | [], pre => ⟨[], by simp [splitKVs], by intro rest; simp [splitKVs, combineKVs]⟩
  | (k, v) :: t, pre => by
    by_cases hk : k = dataKey
    · obtain ⟨ext, h1, h2⟩ := combineKVs_splitKVs t (pre ++ [v])
      refine ⟨v :: ext, ?_, ?_⟩
      · simp only [splitKVs, hk, if_true]
        rw [h1]; simp
      · intro rest
        simp only [splitKVs, hk, if_true, combineKVs]
        have e : pre ++ v :: ext ++ rest = pre ++ v :: (ext ++ rest) := by simp
        rw [e, pyIndex_append]
        have e2 : pre ++ v :: (ext ++ rest) = pre ++ [v] ++ ext ++ rest := by simp
        rw [e2, h2 rest]
    · obtain ⟨e1, h1, h2⟩ := combineV_splitV v pre
      obtain ⟨e2, h3, h4⟩ := combineKVs_splitKVs t (splitV v pre).2
      refine ⟨e1 ++ e2, ?_, ?_⟩
      · simp only [splitKVs, hk, if_false]
        rw [h3, h1]; simp
      · intro rest
        simp only [splitKVs, hk, if_false, combineKVs]
        have e : pre ++ (e1 ++ e2) ++ rest = pre ++ e1 ++ (e2 ++ rest) := by simp
        rw [e, h2 (e2 ++ rest)]
        have e' : pre ++ e1 ++ (e2 ++ rest) = (splitV v pre).2 ++ e2 ++ rest := by rw [h1]; simp
        rw [e', h4 rest]
end

/-! ### canonical form -/

mutual
/-- every walked level is in sorted key order -/
def isCanon : Val → Bool
  | .dict kvs => sortedB kvLe kvs && isCanonKVs kvs
  | _ => true
def isCanonKVs : List KV → Bool
  | [] => true
  | (k, v) :: t => (if k = dataKey then true else isCanon v) && isCanonKVs t
end

def entryCanon (p : KV) : Bool := if p.1 = dataKey then true else isCanon p.2

theorem isCanonKVs_iff (l : List KV) : isCanonKVs l = true ↔ ∀ p ∈ l, entryCanon p = true := by
  induction l with
  | nil => simp [isCanonKVs]
  | cons p t ih =>
    obtain ⟨k, v⟩ := p
    simp only [isCanonKVs, Bool.and_eq_true, ih, List.mem_cons, forall_eq_or_imp, entryCanon]

mutual
theorem canon_isCanon : ∀ v : Val, isCanon (canon v) = true
  | .dict kvs => by
    simp only [canon, isCanon, Bool.and_eq_true]
    refine ⟨isort_sorted kvLe kvLe_total _, ?_⟩
    rw [isCanonKVs_iff]
    intro p hp
    have hp' := (isort_perm kvLe (canonKVs kvs)).mem_iff.mp hp
    exact (isCanonKVs_iff _).mp (canonKVs_isCanon kvs) p hp'
  | .int _ => rfl
  | .str _ => rfl
  | .bool _ => rfl
  | .none => rfl
  | .arr _ => rfl
  | .tuple _ => rfl
theorem canonKVs_isCanon : ∀ kvs : List KV, isCanonKVs (canonKVs kvs) = true
  | [] => rfl
  | (k, v) :: t => by
    simp only [canonKVs, isCanonKVs, Bool.and_eq_true]
    refine ⟨?_, canonKVs_isCanon t⟩
    by_cases hk : k = dataKey
    · simp [hk]
    · simp only [hk, if_false]; exact canon_isCanon v
end

mutual
/-- the canonical form is a fixed point of `canon` (a dictionary already in sorted order is walked as it is) -/
theorem canon_of_isCanon : ∀ v : Val, isCanon v = true → canon v = v
  | .dict kvs, h => by
    simp only [isCanon, Bool.and_eq_true] at h
    simp only [canon, canonKVs_of_isCanon kvs h.2, isort_of_sorted kvLe h.1]
  | .int _, _ => rfl
  | .str _, _ => rfl
  | .bool _, _ => rfl
  | .none, _ => rfl
  | .arr _, _ => rfl
  | .tuple _, _ => rfl
theorem canonKVs_of_isCanon : ∀ kvs : List KV, isCanonKVs kvs = true → canonKVs kvs = kvs
  | [], _ => rfl
  | (k, v) :: t, h => by
    simp only [isCanonKVs, Bool.and_eq_true] at h
    simp only [canonKVs, canonKVs_of_isCanon t h.2]
    by_cases hk : k = dataKey
    · simp [hk]
    · simp only [hk, if_false] at h ⊢
      rw [canon_of_isCanon v h.1]
end

theorem canon_idem (v : Val) : canon (canon v) = canon v := canon_of_isCanon _ (canon_isCanon v)

theorem sortedB_keys (l : List KV) : sortedB kvLe l = sortedB Key.le (l.map Prod.fst) := by
  induction l with
  | nil => rfl
  | cons a t ih =>
    cases t with
    | nil => rfl
    | cons b u =>
      simp only [List.map, sortedB] at ih ⊢
      rw [ih]; rfl

theorem splitKVs_keys : ∀ (kvs : List KV) (pre : List Val), (splitKVs kvs pre).1.map Prod.fst = kvs.map Prod.fst
  | [], _ => rfl
  | (k, v) :: t, pre => by
    by_cases hk : k = dataKey
    · simp only [splitKVs, hk, if_true, List.map, splitKVs_keys t]
    · simp only [splitKVs, hk, if_false, List.map, splitKVs_keys t]

mutual
theorem splitV_isCanon : ∀ (v : Val) (pre : List Val), isCanon v = true → isCanon (splitV v pre).1 = true
  | .dict kvs, pre, h => by
    simp only [isCanon, Bool.and_eq_true] at h
    simp only [splitV, isCanon, Bool.and_eq_true]
    refine ⟨?_, splitKVs_isCanon kvs pre h.2⟩
    rw [sortedB_keys, splitKVs_keys, ← sortedB_keys]; exact h.1
  | .int _, _, _ => rfl
  | .str _, _, _ => rfl
  | .bool _, _, _ => rfl
  | .none, _, _ => rfl
  | .arr _, _, _ => rfl
  | .tuple _, _, _ => rfl
theorem splitKVs_isCanon : ∀ (kvs : List KV) (pre : List Val), isCanonKVs kvs = true → isCanonKVs (splitKVs kvs pre).1 = true
  | [], _, _ => rfl
  | (k, v) :: t, pre, h => by
    simp only [isCanonKVs, Bool.and_eq_true] at h
    by_cases hk : k = dataKey
    · simp only [splitKVs, hk, if_true, isCanonKVs, Bool.true_and]
      exact splitKVs_isCanon t _ h.2
    · simp only [hk, if_false] at h
      simp only [splitKVs, hk, if_false, isCanonKVs, Bool.and_eq_true]
      exact ⟨splitV_isCanon v pre h.1, splitKVs_isCanon t _ h.2⟩
end

mutual
theorem splitV_keysOk : ∀ (v : Val) (pre : List Val), keysOk v = true → keysOk (splitV v pre).1 = true
  | .dict kvs, pre, h => by
    simp only [keysOk, Bool.and_eq_true] at h
    simp only [splitV, keysOk, Bool.and_eq_true, splitKVs_keys]
    exact ⟨h.1, splitKVs_keysOk kvs pre h.2⟩
  | .int _, _, _ => rfl
  | .str _, _, _ => rfl
  | .bool _, _, _ => rfl
  | .none, _, _ => rfl
  | .arr _, _, _ => rfl
  | .tuple _, _, _ => rfl
theorem splitKVs_keysOk : ∀ (kvs : List KV) (pre : List Val), keysOkKVs kvs = true → keysOkKVs (splitKVs kvs pre).1 = true
  | [], _, _ => rfl
  | (k, v) :: t, pre, h => by
    simp only [keysOkKVs, Bool.and_eq_true] at h
    by_cases hk : k = dataKey
    · simp only [splitKVs, hk, if_true, keysOkKVs, Bool.true_and]
      exact splitKVs_keysOk t _ h.2
    · simp only [hk, if_false] at h
      simp only [splitKVs, hk, if_false, keysOkKVs, Bool.and_eq_true]
      exact ⟨splitV_keysOk v pre h.1, splitKVs_keysOk t _ h.2⟩
end

/-- **C17, split/combine clause.**  For every nested dictionary `d` (any key types, any nesting, any payloads) on which
`split_data_and_meta` does not raise, `combine_data_and_meta(*split_data_and_meta(d))` is `d` itself — as a Python
dictionary, i.e. up to the order in which the keys are listed (`canon d`; `canon d = d` if `d` lists them sorted,
`combine_split_sorted`). -/
theorem combine_split (d : Val) (data : List Val) (m : Val) (h : split d = .ok (data, m)) :
    combine data m = .ok (canon d) := by
  cases d with
  | dict kvs =>
    simp only [split] at h
    by_cases hk : keysOk (canon (.dict kvs)) = true
    · simp only [hk, if_true, Except.ok.injEq, Prod.mk.injEq] at h
      obtain ⟨hd, hm⟩ := h
      have hc := canon_isCanon (.dict kvs)
      have hmc : isCanon m = true := hm ▸ splitV_isCanon _ [] hc
      have hmk : keysOk m = true := hm ▸ splitV_keysOk _ [] hk
      obtain ⟨ext, h1, h2⟩ := combineV_splitV (canon (.dict kvs)) []
      have hmd : ∃ l, m = .dict l := by
        rw [← hm]; simp only [canon, splitV]; exact ⟨_, rfl⟩
      obtain ⟨l, hl⟩ := hmd
      have := h2 []
      simp only [List.nil_append, List.append_nil] at this h1
      rw [hl] at hmc hmk
      simp only [combine, hl, canon_of_isCanon _ hmc, hmk, if_true]
      rw [← hl, ← hm, ← hd, h1]
      exact this
    · simp [hk] at h
  | int _ => simp [split] at h
  | str _ => simp [split] at h
  | bool _ => simp [split] at h
  | none => simp [split] at h
  | arr _ => simp [split] at h
  | tuple _ => simp [split] at h

/-- for a dictionary whose levels are listed in sorted order the round trip is the identity on the nose -/
theorem combine_split_sorted (d : Val) (hd : isCanon d = true) (data : List Val) (m : Val)
    (h : split d = .ok (data, m)) : combine data m = .ok d := by
  rw [combine_split d data m h, canon_of_isCanon d hd]

/-- `split` succeeds exactly when `sorted` can compare the keys of every level that is walked -/
theorem split_ok_iff (kvs : List KV) : (∃ r, split (.dict kvs) = .ok r) ↔ keysOk (canon (.dict kvs)) = true := by
  simp only [split]
  by_cases hk : keysOk (canon (.dict kvs)) = true
  · simp [hk]
  · simp [hk]

/-- (D6) a level mixing an `int` key with a `tuple` key — the `A` entry of an MPS with central block — is rejected
by `sorted`, for every content of the dictionary -/
theorem split_mixed_keys_rejected (i : Int) (t : List Atom) (v w : Val) (rest : List KV) :
    split (.dict ((.int i, v) :: (.tup t, w) :: rest)) = .error .typeError := by
  have hperm := isort_perm kvLe (canonKVs ((Key.int i, v) :: (Key.tup t, w) :: rest))
  have hlev : levelOk ((isort kvLe (canonKVs ((Key.int i, v) :: (Key.tup t, w) :: rest))).map Prod.fst) = false := by
    rw [Bool.eq_false_iff]
    intro hall
    simp only [levelOk, List.all_eq_true] at hall
    have m1 : Key.int i ∈ (isort kvLe (canonKVs ((Key.int i, v) :: (Key.tup t, w) :: rest))).map Prod.fst :=
      List.mem_map.mpr ⟨(Key.int i, if Key.int i = dataKey then v else canon v), hperm.mem_iff.mpr (by simp [canonKVs]), rfl⟩
    have m2 : Key.tup t ∈ (isort kvLe (canonKVs ((Key.int i, v) :: (Key.tup t, w) :: rest))).map Prod.fst :=
      List.mem_map.mpr ⟨(Key.tup t, if Key.tup t = dataKey then w else canon w), hperm.mem_iff.mpr (by simp [canonKVs]), rfl⟩
    have := hall _ m1 _ m2
    simp [Key.cmpOk] at this
  simp only [split, canon, keysOk, hlev, Bool.false_and, Bool.false_eq_true, if_false]

/-! ### the order of the data tuple depends only on the key structure -/

def eraseEntry (p : KV) : KV := (p.1, if p.1 = dataKey then Val.none else erase p.2)

theorem eraseKVs_eq_map : ∀ l : List KV, eraseKVs l = l.map eraseEntry
  | [] => rfl
  | (k, v) :: t => by simp only [eraseKVs, List.map, eraseEntry, eraseKVs_eq_map t]

mutual
theorem canon_erase : ∀ v : Val, canon (erase v) = erase (canon v)
  | .dict kvs => by
    simp only [erase, canon, canonKVs_erase kvs]
    rw [eraseKVs_eq_map, eraseKVs_eq_map]
    rw [isort_map kvLe kvLe eraseEntry (fun _ _ => rfl)]
  | .int _ => rfl
  | .str _ => rfl
  | .bool _ => rfl
  | .none => rfl
  | .arr _ => rfl
  | .tuple _ => rfl
theorem canonKVs_erase : ∀ kvs : List KV, canonKVs (eraseKVs kvs) = eraseKVs (canonKVs kvs)
  | [] => rfl
  | (k, v) :: t => by
    simp only [eraseKVs, canonKVs, canonKVs_erase t]
    by_cases hk : k = dataKey
    · simp [hk]
    · simp only [hk, if_false]; rw [canon_erase v]
end

mutual
theorem splitV_erase : ∀ (v : Val) (pre pre' : List Val), pre.length = pre'.length →
    (splitV v pre).1 = (splitV (erase v) pre').1 ∧ (splitV v pre).2.length = (splitV (erase v) pre').2.length
  | .dict kvs, pre, pre', h => by
    have := splitKVs_erase kvs pre pre' h
    simp only [erase, splitV, this.1, this.2, and_self]
  | .int _, _, _, h => ⟨rfl, h⟩
  | .str _, _, _, h => ⟨rfl, h⟩
  | .bool _, _, _, h => ⟨rfl, h⟩
  | .none, _, _, h => ⟨rfl, h⟩
  | .arr _, _, _, h => ⟨rfl, h⟩
  | .tuple _, _, _, h => ⟨rfl, h⟩
theorem splitKVs_erase : ∀ (kvs : List KV) (pre pre' : List Val), pre.length = pre'.length →
    (splitKVs kvs pre).1 = (splitKVs (eraseKVs kvs) pre').1 ∧
    (splitKVs kvs pre).2.length = (splitKVs (eraseKVs kvs) pre').2.length
  | [], _, _, h => ⟨rfl, h⟩
  | (k, v) :: t, pre, pre', h => by
    by_cases hk : k = dataKey
    · have := splitKVs_erase t (pre ++ [v]) (pre' ++ [Val.none]) (by simp [h])
      simp only [eraseKVs, splitKVs, hk, if_true, this.1, this.2, h, and_self]
    · have h1 := splitV_erase v pre pre' h
      have h2 := splitKVs_erase t (splitV v pre).2 (splitV (erase v) pre').2 h1.2
      simp only [eraseKVs, splitKVs, hk, if_false, h1.1, h2.1, h2.2, and_self]
end

/-- **C17, data-order clause.**  Two dictionaries with the same key structure and the same non-data leaves (they may list
their keys in different orders and carry different payloads under `"data"`) produce the *same* `meta` and data tuples
of the same length: the position of a payload in the tuple is a function of the key structure alone. -/
theorem split_data_order (d₁ d₂ : Val) (he : canon (erase d₁) = canon (erase d₂))
    (data₁ data₂ : List Val) (m₁ m₂ : Val)
    (h₁ : split d₁ = .ok (data₁, m₁)) (h₂ : split d₂ = .ok (data₂, m₂)) :
    m₁ = m₂ ∧ data₁.length = data₂.length := by
  have key : ∀ d data m, split d = .ok (data, m) →
      m = (splitV (canon (erase d)) []).1 ∧ data.length = (splitV (canon (erase d)) []).2.length := by
    intro d data m h
    cases d with
    | dict kvs =>
      simp only [split] at h
      by_cases hk : keysOk (canon (.dict kvs)) = true
      · simp only [hk, if_true, Except.ok.injEq, Prod.mk.injEq] at h
        have := splitV_erase (canon (.dict kvs)) [] [] rfl
        rw [canon_erase, ← h.1, ← h.2]
        exact this
      · simp [hk] at h
    | int _ => simp [split] at h
    | str _ => simp [split] at h
    | bool _ => simp [split] at h
    | none => simp [split] at h
    | arr _ => simp [split] at h
    | tuple _ => simp [split] at h
  obtain ⟨a1, a2⟩ := key d₁ data₁ m₁ h₁
  obtain ⟨b1, b2⟩ := key d₂ data₂ m₂ h₂
  rw [a1, b1, a2, b2, he]
  exact ⟨rfl, rfl⟩

/-- consequence used by the Krylov solvers: the `meta` of one object decodes the data tuple of any other object with
the same key structure -/
theorem combine_with_foreign_meta (d₁ d₂ : Val) (he : canon (erase d₁) = canon (erase d₂))
    (data₁ data₂ : List Val) (m₁ m₂ : Val)
    (h₁ : split d₁ = .ok (data₁, m₁)) (h₂ : split d₂ = .ok (data₂, m₂)) :
    combine data₂ m₁ = .ok (canon d₂) := by
  rw [(split_data_order d₁ d₂ he data₁ data₂ m₁ m₂ h₁ h₂).1]
  exact combine_split d₂ data₂ m₂ h₂

/-! ## `to_dict(meta=…)` : the vector embedding -/

/-- layouts coming from a tensor structure list every block charge once -/
def Layout.WF (lay : Layout) : Prop := (lay.map Prod.fst).Nodup

theorem lookup_of_mem_nodup : ∀ (lay : Layout), Layout.WF lay → ∀ e ∈ lay, lay.lookup e.1 = some e.2
  | [], _, e, he => by cases he
  | (t, n) :: l, hwf, e, he => by
    simp only [Layout.WF, List.map, List.nodup_cons] at hwf
    rcases List.mem_cons.mp he with rfl | he'
    · simp [List.lookup]
    · have hne : (e.1 == t) = false := by
        rw [beq_eq_false_iff_ne]
        intro h
        exact hwf.1 (h ▸ List.mem_map.mpr ⟨e, he', rfl⟩)
      simp only [List.lookup, hne]
      exact lookup_of_mem_nodup l hwf.2 e he'

theorem mem_of_lookup {α β} [BEq α] [LawfulBEq α] : ∀ (l : List (α × β)) (a : α) (b : β), l.lookup a = some b → (a, b) ∈ l
  | [], _, _, h => by simp [List.lookup] at h
  | (k, v) :: t, a, b, h => by
    simp only [List.lookup] at h
    by_cases hk : (a == k) = true
    · simp only [hk] at h
      have : a = k := eq_of_beq hk
      simp only [Option.some.injEq] at h
      subst this; subst h
      exact List.mem_cons_self
    · have hk' : (a == k) = false := by simpa using hk
      simp only [hk'] at h
      exact List.mem_cons_of_mem _ (mem_of_lookup t a b h)

/-- under `fits`, every layout slot receives a block of exactly its length -/
theorem blockOf_length (lay : Layout) (hwf : Layout.WF lay) (x : Blocks) (hf : fits lay x = true) :
    ∀ e ∈ lay, (blockOf x e).length = e.2 := by
  intro e he
  unfold blockOf
  cases hx : x.lookup e.1 with
  | none => simp [zeros]
  | some v =>
    have hm := mem_of_lookup x e.1 v hx
    simp only [fits, List.all_eq_true] at hf
    have := hf _ hm
    simp only [beq_iff_eq] at this
    rw [lookup_of_mem_nodup lay hwf e he] at this
    simp only [Option.some.injEq] at this
    exact this.symm

/-- **C17, rejection clause (meta).**  A tensor having a block that `meta` does not list, or lists with another
size, is rejected — whatever else it contains. -/
theorem embed_rejects (lay : Layout) (x : Blocks) (b : Charge × List Int) (hb : b ∈ x)
    (hbad : lay.lookup b.1 ≠ some b.2.length) :
    embed lay x = .error (.rejected "Tensor is inconsistent with meta") := by
  have : fits lay x = false := by
    rw [Bool.eq_false_iff]
    intro hf
    simp only [fits, List.all_eq_true] at hf
    have := hf b hb
    simp only [beq_iff_eq] at this
    exact hbad this
  simp [embed, this]

theorem embed_ok (lay : Layout) (x : Blocks) (hf : fits lay x = true) :
    embed lay x = .ok (lay.flatMap (blockOf x)) := by simp [embed, hf]

theorem unembed_flatMap (x : Blocks) : ∀ l : Layout, (∀ e ∈ l, (blockOf x e).length = e.2) →
    unembed l (l.flatMap (blockOf x)) = l.map (fun e => (e.1, blockOf x e))
  | [], _ => rfl
  | (t, n) :: l, h => by
    have h0 : (blockOf x (t, n)).length = n := h (t, n) List.mem_cons_self
    simp only [List.flatMap_cons, unembed, List.map]
    rw [List.take_left' h0, List.drop_left' h0]
    rw [unembed_flatMap x l (fun e he => h e (List.mem_cons_of_mem _ he))]

/-- **C17, zero fill.**  Decoding the vector with the same `meta` gives back the tensor with every block listed in
`meta`: the tensor's own blocks unchanged, the missing ones filled with zeros. -/
theorem unembed_embed (lay : Layout) (hwf : Layout.WF lay) (x : Blocks) (v : List Int) (h : embed lay x = .ok v) :
    unembed lay v = lay.map (fun e => (e.1, blockOf x e)) := by
  by_cases hf : fits lay x = true
  · rw [embed_ok lay x hf] at h
    simp only [Except.ok.injEq] at h
    rw [← h]
    exact unembed_flatMap x lay (blockOf_length lay hwf x hf)
  · simp [embed, hf] at h

/-- the embedding is injective on what it keeps: equal vectors ⇒ equal zero-filled tensors -/
theorem embed_injective (lay : Layout) (hwf : Layout.WF lay) (x y : Blocks) (v : List Int)
    (hx : embed lay x = .ok v) (hy : embed lay y = .ok v) :
    lay.map (fun e => (e.1, blockOf x e)) = lay.map (fun e => (e.1, blockOf y e)) := by
  rw [← unembed_embed lay hwf x v hx, ← unembed_embed lay hwf y v hy]

theorem flatMap_zipWith (f : Int → Int → Int) (gx gy gz : Charge × Nat → List Int) : ∀ l : Layout,
    (∀ e ∈ l, (gx e).length = (gy e).length) → (∀ e ∈ l, gz e = List.zipWith f (gx e) (gy e)) →
    l.flatMap gz = List.zipWith f (l.flatMap gx) (l.flatMap gy)
  | [], _, _ => rfl
  | e :: l, hl, hz => by
    simp only [List.flatMap_cons]
    rw [List.zipWith_append (hl e List.mem_cons_self), hz e List.mem_cons_self,
      flatMap_zipWith f gx gy gz l (fun e he => hl e (List.mem_cons_of_mem _ he)) (fun e he => hz e (List.mem_cons_of_mem _ he))]

/-- **C17, linearity (sum).**  If `z` is the block-wise sum of `x` and `y` (blocks that a tensor lacks count as zero
blocks — this is what `x + y` is), then the vector of `z` is the entry-wise sum of the vectors. -/
theorem embed_linear (lay : Layout) (hwf : Layout.WF lay) (x y z : Blocks) (vx vy vz : List Int)
    (hx : embed lay x = .ok vx) (hy : embed lay y = .ok vy) (hz : embed lay z = .ok vz)
    (hsum : ∀ e ∈ lay, blockOf z e = List.zipWith (· + ·) (blockOf x e) (blockOf y e)) :
    vz = List.zipWith (· + ·) vx vy := by
  by_cases hfx : fits lay x = true
  · by_cases hfy : fits lay y = true
    · by_cases hfz : fits lay z = true
      · rw [embed_ok _ _ hfx] at hx; rw [embed_ok _ _ hfy] at hy; rw [embed_ok _ _ hfz] at hz
        simp only [Except.ok.injEq] at hx hy hz
        rw [← hx, ← hy, ← hz]
        refine flatMap_zipWith _ _ _ _ lay ?_ hsum
        intro e he
        rw [blockOf_length lay hwf x hfx e he, blockOf_length lay hwf y hfy e he]
      · simp [embed, hfz] at hz
    · simp [embed, hfy] at hy
  · simp [embed, hfx] at hx

theorem flatMap_map_congr (f : Int → Int) (gx gz : Charge × Nat → List Int) : ∀ l : Layout,
    (∀ e ∈ l, gz e = (gx e).map f) → l.flatMap gz = (l.flatMap gx).map f
  | [], _ => rfl
  | e :: l, h => by
    simp only [List.flatMap_cons, List.map_append]
    rw [h e List.mem_cons_self, flatMap_map_congr f gx gz l (fun e he => h e (List.mem_cons_of_mem _ he))]

theorem sum_map_zero : ∀ l : Layout, (l.map (fun _ => (0 : Int))).sum = 0
  | [] => rfl
  | _ :: l => by simp only [List.map, List.sum_cons, sum_map_zero l]; rfl

/-- **C17, linearity (scalar).** -/
theorem embed_smul (lay : Layout) (c : Int) (x z : Blocks) (vx vz : List Int)
    (hx : embed lay x = .ok vx) (hz : embed lay z = .ok vz)
    (hmul : ∀ e ∈ lay, blockOf z e = (blockOf x e).map (c * ·)) :
    vz = vx.map (c * ·) := by
  by_cases hfx : fits lay x = true
  · by_cases hfz : fits lay z = true
    · rw [embed_ok _ _ hfx] at hx; rw [embed_ok _ _ hfz] at hz
      simp only [Except.ok.injEq] at hx hz
      rw [← hx, ← hz]
      exact flatMap_map_congr _ _ _ lay hmul
    · simp [embed, hfz] at hz
  · simp [embed, hfx] at hx

theorem sumSq_append (a b : List Int) : sumSq (a ++ b) = sumSq a + sumSq b := by
  simp [sumSq, List.map_append, List.sum_append]

theorem sumSq_zeros (n : Nat) : sumSq (zeros n) = 0 := by
  induction n with
  | zero => rfl
  | succ k ih =>
    have : zeros (k + 1) = 0 :: zeros k := by simp [zeros, List.replicate_succ]
    rw [this]
    simp only [sumSq, List.map, List.sum_cons] at ih ⊢
    rw [ih]; rfl

theorem sumSq_flatMap (g : Charge × Nat → List Int) : ∀ l : Layout,
    sumSq (l.flatMap g) = (l.map (fun e => sumSq (g e))).sum
  | [] => rfl
  | e :: l => by
    simp only [List.flatMap_cons, sumSq_append, List.map, List.sum_cons, sumSq_flatMap g l]

theorem blockOf_cons (t : Charge) (v : List Int) (xs : Blocks) (e : Charge × Nat) :
    blockOf ((t, v) :: xs) e = if e.1 = t then v else blockOf xs e := by
  unfold blockOf
  simp only [List.lookup]
  by_cases h : e.1 = t
  · simp [h]
  · have : (e.1 == t) = false := by rw [beq_eq_false_iff_ne]; exact h
    simp [h, this]

/-- one slot of a duplicate-free layout changes from a zero contribution to `A` -/
theorem sum_update (t : Charge) (A : Int) (g g' : Charge × Nat → Int) : ∀ l : Layout, Layout.WF l →
    (∀ e ∈ l, e.1 = t → g e = 0 ∧ g' e = A) → (∀ e ∈ l, e.1 ≠ t → g' e = g e) → t ∈ l.map Prod.fst →
    (l.map g').sum = A + (l.map g).sum
  | [], _, _, _, ht => by cases ht
  | e :: l, hwf, h1, h2, ht => by
    simp only [Layout.WF, List.map, List.nodup_cons] at hwf
    simp only [List.map, List.sum_cons]
    by_cases he : e.1 = t
    · obtain ⟨hg, hg'⟩ := h1 e List.mem_cons_self he
      have hrest : l.map g' = l.map g := by
        apply List.map_congr_left
        intro e' he'
        apply h2 e' (List.mem_cons_of_mem _ he')
        intro h
        exact hwf.1 (he ▸ h ▸ List.mem_map.mpr ⟨e', he', rfl⟩)
      rw [hg, hg', hrest]; omega
    · have ht' : t ∈ l.map Prod.fst := by
        simp only [List.map, List.mem_cons] at ht
        rcases ht with h | h
        · exact absurd h.symm he
        · exact h
      rw [h2 e List.mem_cons_self he,
        sum_update t A g g' l hwf.2 (fun e' he' => h1 e' (List.mem_cons_of_mem _ he'))
          (fun e' he' => h2 e' (List.mem_cons_of_mem _ he')) ht']
      omega

theorem lookup_none_of_not_mem : ∀ (xs : Blocks) (t : Charge), t ∉ xs.map Prod.fst → xs.lookup t = none
  | [], _, _ => rfl
  | (k, v) :: r, t, h => by
    simp only [List.map, List.mem_cons, not_or] at h
    have : (t == k) = false := by rw [beq_eq_false_iff_ne]; exact h.1
    simp only [List.lookup, this]
    exact lookup_none_of_not_mem r t h.2

theorem mem_keys_of_lookup (lay : Layout) (t : Charge) (n : Nat) (h : lay.lookup t = some n) : t ∈ lay.map Prod.fst :=
  List.mem_map.mpr ⟨(t, n), mem_of_lookup lay t n h, rfl⟩

theorem norm_slots (lay : Layout) (hwf : Layout.WF lay) : ∀ x : Blocks, (x.map Prod.fst).Nodup → fits lay x = true →
    (lay.map (fun e => sumSq (blockOf x e))).sum = normSq x
  | [], _, _ => by
    have : lay.map (fun e => sumSq (blockOf [] e)) = lay.map (fun _ => (0 : Int)) := by
      apply List.map_congr_left
      intro e _
      simp [blockOf, List.lookup, sumSq_zeros]
    rw [this, sum_map_zero]
    rfl
  | (t, v) :: xs, hnd, hf => by
    simp only [List.map, List.nodup_cons] at hnd
    have hf' : fits lay xs = true := by
      simp only [fits, List.all_cons, Bool.and_eq_true] at hf ⊢; exact hf.2
    have hlk : lay.lookup t = some v.length := by
      simp only [fits, List.all_cons, Bool.and_eq_true, beq_iff_eq] at hf; exact hf.1
    have ih := norm_slots lay hwf xs hnd.2 hf'
    have hxs : xs.lookup t = none := lookup_none_of_not_mem xs t hnd.1
    have := sum_update t (sumSq v) (fun e => sumSq (blockOf xs e)) (fun e => sumSq (blockOf ((t, v) :: xs) e)) lay hwf
      (by
        intro e _ het
        refine ⟨?_, ?_⟩
        · simp only [blockOf, het, hxs, sumSq_zeros]
        · simp only [blockOf_cons, het, if_true])
      (by
        intro e _ het
        simp only [blockOf_cons, het, if_false])
      (mem_keys_of_lookup lay t _ hlk)
    rw [this, ih]
    simp [normSq]

/-- **C17, norm clause.**  `Σ |v_i|² = Σ_blocks Σ |x_i|²`: the embedding preserves the (squared) Frobenius norm
(each block of the tensor lands in exactly one slot, everything else is zero). -/
theorem embed_norm (lay : Layout) (hwf : Layout.WF lay) (x : Blocks) (hx : (x.map Prod.fst).Nodup) (v : List Int)
    (h : embed lay x = .ok v) : sumSq v = normSq x := by
  by_cases hf : fits lay x = true
  · rw [embed_ok lay x hf] at h
    simp only [Except.ok.injEq] at h
    rw [← h, sumSq_flatMap]
    exact norm_slots lay hwf x hx hf
  · simp [embed, hf] at h

/-! ## field-level codec of `Tensor.to_dict` / `Tensor.from_dict` -/

theorem mapM_map_some {α β} (f : β → Option α) (g : α → β) (h : ∀ a, f (g a) = some a) :
    ∀ l : List α, (l.map g).mapM f = some l
  | [] => rfl
  | a :: l => by simp [List.mapM_cons, h, mapM_map_some f g h l]

@[simp] theorem keystr_beq (a b : String) : (Key.str a == Key.str b) = decide (a = b) := by
  by_cases h : a = b
  · subst h; simp
  · have : Key.str a ≠ Key.str b := fun e => h (Key.str.inj e)
    simp [h, beq_eq_false_iff_ne, this]

theorem decInts_enc (l : List Int) : decInts (encInts l) = some l :=
  mapM_map_some decInt Val.int (fun _ => rfl) l

theorem decIntss_enc (l : List (List Int)) : decIntss (encIntss l) = some l :=
  mapM_map_some decInts encInts decInts_enc l

theorem decCfg_enc (lvl : Nat) (c : Cfg) : decCfg (encCfg lvl c) = some c := by
  by_cases h : lvl = 0 <;> simp [encCfg, h, decCfg, getK, sk, List.lookup, decStr, decBool]

theorem decFusion_enc (lvl : Nat) (f : Fusion) : decFusion (encFusion lvl f) = some f := by
  by_cases h : lvl = 0 <;>
    simp [encFusion, h, decFusion, getK, sk, List.lookup, decStr, decInts_enc, decIntss_enc]

theorem decFusions_enc (lvl : Nat) (l : List Fusion) : decFusions (.tuple (l.map (encFusion lvl))) = some l :=
  mapM_map_some decFusion (encFusion lvl) (decFusion_enc lvl) l

theorem decStruct_enc (lvl : Nat) (T : TRec) :
    decStruct (encStruct lvl T) = some ⟨T.s, T.n, T.diag, T.t, T.D, T.size⟩ := by
  by_cases h : lvl = 0 <;>
    simp [encStruct, h, decStruct, getK, sk, List.lookup, decBool, decInt, decInts_enc, decIntss_enc]

/-- what `from_dict` finds under each key of a `to_dict` dictionary -/
theorem toDict_lookups (lvl ver : Nat) (T : TRec) :
    ∃ kvs, toDict lvl ver T = .dict kvs ∧
      (getK kvs "dict_ver" >>= decInt) = some (ver : Int) ∧ (getK kvs "type" >>= decStr) = some "Tensor" ∧
      (getK kvs "config" >>= decCfg) = some T.cfg ∧
      (getK kvs "struct" >>= decStruct) = some ⟨T.s, T.n, T.diag, T.t, T.D, T.size⟩ ∧
      (getK kvs "slices" >>= decIntss) = some T.slices ∧ (getK kvs "mfs" >>= decIntss) = some T.mfs ∧
      (getK kvs "hfs" >>= decFusions) = some T.hfs ∧ (getK kvs "data" >>= decArr) = some T.data ∧
      transOf kvs T.s.length = some (if ver = 1 then identityPerm T.s.length else T.trans) := by
  refine ⟨_, rfl, ?_⟩
  by_cases hv : ver = 1 <;>
    simp [hv, getK, sk, List.lookup, decInt, decStr, decArr, decCfg_enc, decStruct_enc, decIntss_enc, decFusions_enc,
      transOf, decInts_enc]

theorem fromDict_toDict_gen (lvl ver : Nat) (hver : ver = 1 ∨ ver = 2) (T : TRec) (config : Option Cfg) :
    fromDict (toDict lvl ver T) config =
      match checkCfg T.cfg config with
      | .error e => .error e
      | .ok c => .ok { T with cfg := c, trans := if ver = 1 then identityPerm T.s.length else T.trans } := by
  obtain ⟨kvs, hk, h1, h2, h3, h4, h5, h6, h7, h8, h9⟩ := toDict_lookups lvl ver T
  rw [hk]
  simp only [fromDict, h1, h2, h3, h4, h5, h6, h7, h8, h9]
  have hv : ¬ ((ver : Int) ≠ 1 ∧ (ver : Int) ≠ 2) := by
    rcases hver with h | h <;> subst h <;> simp
  simp only [hv, if_false, ne_eq, not_true_eq_false]
  cases checkCfg T.cfg config <;> rfl

/-- **C17, record round trip (current generation).**  For every tensor record and every level 0, 1, 2, …:
`from_dict(to_dict(level))` restores every field — signature, charge, block structure, slices, the pending
permutation `trans`, meta- and hard-fusion histories, and the data. -/
theorem fromDict_toDict (lvl : Nat) (T : TRec) : fromDict (toDict lvl 2 T) none = .ok T := by
  rw [fromDict_toDict_gen lvl 2 (Or.inr rfl) T none]
  simp [checkCfg]

/-- **C17, record round trip (dict_ver = 1 generation).**  A dictionary without the `trans` entry restores the
record with the identity permutation … -/
theorem fromDict_toDict_v1 (lvl : Nat) (T : TRec) :
    fromDict (toDict lvl 1 T) none = .ok { T with trans := identityPerm T.s.length } := by
  rw [fromDict_toDict_gen lvl 1 (Or.inl rfl) T none]
  simp [checkCfg]

/-- … hence exactly the tensor, for the tensors that generation could store (no pending permutation). -/
theorem fromDict_toDict_v1_exact (lvl : Nat) (T : TRec) (h : T.trans = identityPerm T.s.length) :
    fromDict (toDict lvl 1 T) none = .ok T := by
  rw [fromDict_toDict_v1, ← h]

/-- a supplied configuration of the same symmetry and statistics replaces the stored one; everything else is restored -/
theorem fromDict_toDict_config (lvl : Nat) (T : TRec) (c : Cfg) (hs : T.cfg.sym = c.sym)
    (hf : T.cfg.fermionic = c.fermionic) : fromDict (toDict lvl 2 T) (some c) = .ok { T with cfg := c } := by
  rw [fromDict_toDict_gen lvl 2 (Or.inr rfl) T (some c)]
  simp [checkCfg, hs, hf]

/-- **C17, rejection clause (config).**  A supplied configuration with another symmetry, or — for the same
symmetry — other fermionic statistics, is rejected at every level and for both generations. -/
theorem fromDict_rejects (lvl ver : Nat) (hver : ver = 1 ∨ ver = 2) (T : TRec) (c : Cfg)
    (h : T.cfg.sym ≠ c.sym ∨ T.cfg.fermionic ≠ c.fermionic) :
    ∃ why, fromDict (toDict lvl ver T) (some c) = .error (.rejected why) := by
  rw [fromDict_toDict_gen lvl ver hver T (some c)]
  by_cases hs : T.cfg.sym = c.sym
  · rcases h with h | h
    · exact absurd hs h
    · exact ⟨"Fermionic statistics in config does not match the one in stored in d.", by simp [checkCfg, hs, h]⟩
  · exact ⟨"Symmetry rule in config does not match the one in stored in d.", by simp [checkCfg, hs]⟩

/-- a dictionary of another object type or an unknown `dict_ver` is rejected -/
theorem fromDict_rejects_version (lvl ver : Nat) (hver : ver ≠ 1 ∧ ver ≠ 2) (T : TRec) (config : Option Cfg) :
    fromDict (toDict lvl ver T) config = .error (.rejected "dict_ver not supported") := by
  obtain ⟨kvs, hk, h1, h2, h3, h4, h5, h6, h7, h8, _⟩ := toDict_lookups lvl ver T
  rw [hk]
  simp only [fromDict, h1, h2, h3, h4, h5, h6, h7, h8]
  have hv : ((ver : Int) ≠ 1 ∧ (ver : Int) ≠ 2) := by
    constructor <;> intro h <;> omega
  rw [if_pos hv]

/-! ## non-vacuity: the hypotheses are satisfiable on concrete, non-trivial instances -/

/-- keys listed out of order, nested dictionaries with `int` keys, three payloads -/
def exDict : Val := .dict [(.str "z", .int 1), (.str "data", .arr [1, 2]),
  (.str "A", .dict [(.int 1, .dict [(.str "data", .arr [3])]), (.int 0, .dict [(.str "data", .arr [4])])])]
def exMeta : Val := .dict [(.str "A", .dict [(.int 0, .dict [(.str "data", .int 0)]), (.int 1, .dict [(.str "data", .int 1)])]),
  (.str "data", .int 2), (.str "z", .int 1)]
/-- same key structure, other payloads, keys listed in another order -/
def exDict' : Val := .dict [(.str "data", .arr [9]), (.str "z", .int 1),
  (.str "A", .dict [(.int 0, .dict [(.str "data", .arr [8, 8])]), (.int 1, .dict [(.str "data", .arr [])])])]

example : split exDict = .ok ([.arr [4], .arr [3], .arr [1, 2]], exMeta) := rfl
example : combine [.arr [4], .arr [3], .arr [1, 2]] exMeta = .ok (canon exDict) :=
  combine_split exDict _ _ rfl
example : split exDict' = .ok ([.arr [8, 8], .arr [], .arr [9]], exMeta) := rfl
example : canon (erase exDict) = canon (erase exDict') := rfl
example : combine [.arr [8, 8], .arr [], .arr [9]] exMeta = .ok (canon exDict') :=
  combine_with_foreign_meta exDict exDict' rfl _ _ _ _ rfl rfl
/-- the `A` dictionary of an MPS with central block `pC = (0, 1)` -/
example : split (.dict [(.int 0, .dict [(.str "data", .arr [1])]), (.tup [.int 0, .int 1], .dict [(.str "data", .arr [2])])])
    = .error .typeError := rfl
/-- `(n, dirn)` keys of `EnvBoundaryMPS` compare fine -/
example : ∃ r, split (.dict [(.tup [.int 1, .str "r"], .int 5), (.tup [.int 0, .str "t"], .int 6)]) = .ok r := ⟨_, rfl⟩

def exLay : Layout := [([0, 0], 2), ([1, 1], 3), ([2, 2], 1)]
def exX : Blocks := [([1, 1], [5, -6, 7])]
def exY : Blocks := [([2, 2], [1]), ([1, 1], [1, 1, 1])]
def exZ : Blocks := [([1, 1], [6, -5, 8]), ([2, 2], [1])]

example : Layout.WF exLay := by unfold Layout.WF; decide
example : (exX.map Prod.fst).Nodup := by decide
example : embed exLay exX = .ok [0, 0, 5, -6, 7, 0] := rfl
example : embed exLay exY = .ok [0, 0, 1, 1, 1, 1] := rfl
example : embed exLay exZ = .ok [0, 0, 6, -5, 8, 1] := rfl
example : ∀ e ∈ exLay, blockOf exZ e = List.zipWith (· + ·) (blockOf exX e) (blockOf exY e) := by decide
example : sumSq [0, 0, 5, -6, 7, 0] = normSq exX := by decide
example : unembed exLay [0, 0, 5, -6, 7, 0] = [([0, 0], [0, 0]), ([1, 1], [5, -6, 7]), ([2, 2], [0])] := rfl
example : ∃ why, embed exLay [([3, 3], [1])] = .error (.rejected why) := ⟨_, rfl⟩

/-- a 2-leg tensor record with a pending transposition, a hard-fused leg and two blocks -/
def exT : TRec :=
  { cfg := ⟨"np", "U1", false⟩, s := [1, -1], n := [1], diag := false, t := [[0, -1], [1, 0]], D := [[2, 1], [3, 2]],
    size := 8, slices := [[0, 2, 2, 1, 2], [2, 8, 3, 2, 6]], trans := [1, 0], mfs := [[1], [1]],
    hfs := [⟨[2, 1, 1], "poo", [1, 1, -1], [[0, 1], [0]], [[1, 2], [1]]⟩, ⟨[1], "o", [-1], [], []⟩],
    data := [1, 2, 3, 4, 5, 6, 7, 8] }

example : fromDict (toDict 0 2 exT) none = .ok exT := fromDict_toDict 0 exT
example : fromDict (toDict 1 2 exT) none = .ok exT := rfl
example : fromDict (toDict 2 2 exT) (some ⟨"torch", "U1", false⟩) = .ok { exT with cfg := ⟨"torch", "U1", false⟩ } :=
  fromDict_toDict_config 2 exT _ rfl rfl
example : (fromDict (toDict 1 1 exT) none).map (·.trans) = .ok [0, 1] := rfl
example : ∃ why, fromDict (toDict 1 2 exT) (some ⟨"np", "Z2", false⟩) = .error (.rejected why) :=
  fromDict_rejects 1 2 (Or.inr rfl) exT _ (Or.inl (by decide))
example : ∃ why, fromDict (toDict 2 1 exT) (some ⟨"np", "U1", true⟩) = .error (.rejected why) :=
  fromDict_rejects 2 1 (Or.inl rfl) exT _ (Or.inr (by decide))

end YModel.Serial
