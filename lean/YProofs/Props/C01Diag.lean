import YProofs.Props.C01Mask
/-!
# C01/C02 (continued) — `diag()`

`toDense_diag`: turning a diagonal tensor into a matrix does not change the dense array; taking the diagonal of a matrix keeps the
elements whose positions inside their sectors coincide and zeroes the others.  `wf_diag`: the result is well-formed with the
signature, charge and blocks structure of the operand.
-/
namespace YModel
variable {R : Type} {ms : List Nat}

theorem diag_ok_iff [Zero R] {a c : Tensor R} (h : diag a = .ok c) :
    (a.isdiag = true ∧ c = { a with isdiag := false }) ∨
    (a.isdiag = false ∧ a.rank = 2 ∧
      c = { a with isdiag := true,
                   blocks := a.blocks.map (fun kb => (kb.1, ⟨kb.2.shape, fun i => if i.getD 0 0 = i.getD 1 0 then kb.2.val i else 0⟩)) }) := by
  unfold diag at h
  split at h
  · rename_i hd; cases h; exact Or.inl ⟨hd, rfl⟩
  · rename_i hd
    split at h; · cases h
    split at h; · cases h
    split at h; · cases h
    rename_i h1 _ _
    cases h
    refine Or.inr ⟨by simpa using hd, ?_, rfl⟩
    simp only [not_or, Decidable.not_not] at h1
    exact h1.1

theorem wf_diag [Zero R] {a c : Tensor R} (ha : WF ms a) (h : diag a = .ok c) :
    WF ms c ∧ c.s = a.s ∧ c.n = a.n ∧ c.sym = a.sym ∧ c.keys = a.keys := by
  rcases diag_ok_iff h with ⟨_, hc⟩ | ⟨_, _, hc⟩
  · rw [hc]
    exact ⟨⟨ha.sig, ha.ncanon, ha.sorted, ha.keyRank, ha.canon, ha.rule, ha.dimsPos, ha.dimsCons⟩, rfl, rfl, rfl, rfl⟩
  · have hk : c.keys = a.keys := by rw [hc]; simp [Tensor.keys, List.map_map, Function.comp_def]
    have hsub : ∀ x ∈ c.blocks, ∃ kb ∈ a.blocks, x.1 = kb.1 ∧ x.2.shape = kb.2.shape := by
      intro x hx
      rw [hc] at hx
      simp only [List.mem_map] at hx
      obtain ⟨kb, hkb, rfl⟩ := hx
      exact ⟨kb, hkb, rfl, rfl⟩
    have hcs : c.s = a.s := by rw [hc]
    have hcn : c.n = a.n := by rw [hc]
    have hcsym : c.sym = a.sym := by rw [hc]
    have hrank : c.rank = a.rank := by unfold Tensor.rank; rw [hcs]
    refine ⟨⟨?_, ?_, ?_, ?_, ?_, ?_, ?_, ?_⟩, hcs, hcn, hcsym, hk⟩
    · intro x hx; rw [hcs] at hx; exact ha.sig x hx
    · rw [hcn]; exact ha.ncanon
    · rw [hk]; exact ha.sorted
    · intro x hx
      obtain ⟨kb, hkb, h1, h2⟩ := hsub x hx
      rw [h1, h2, hrank]; exact ha.keyRank kb hkb
    · intro x hx ch hch
      obtain ⟨kb, hkb, h1, _⟩ := hsub x hx
      rw [h1] at hch; exact ha.canon kb hkb ch hch
    · intro x hx
      obtain ⟨kb, hkb, h1, _⟩ := hsub x hx
      show chargeOfKey c.sym c.s x.1 = c.n
      rw [hcsym, hcs, hcn, h1]; exact ha.rule kb hkb
    · intro x hx dd hdd
      obtain ⟨kb, hkb, _, h2⟩ := hsub x hx
      rw [h2] at hdd; exact ha.dimsPos kb hkb dd hdd
    · intro x hx y hy i hxy
      obtain ⟨kx, hkx, x1, x2⟩ := hsub x hx
      obtain ⟨ky, hky, y1, y2⟩ := hsub y hy
      rw [x2, y2]; rw [x1, y1] at hxy
      exact ha.dimsCons kx hkx ky hky i hxy

/-- **`diag()` on the dense array**: unchanged for diagonal → matrix; for matrix → diagonal the elements whose two positions inside
the located sectors coincide are kept, all others become zero -/
theorem toDense_diag [Zero R] {a c : Tensor R} (h : diag a = .ok c) (L : List LegSpace) (idx : List Nat) :
    toDenseOn L c idx =
      if a.isdiag then toDenseOn L a idx
      else if (posAt L idx 2).getD 0 0 = (posAt L idx 2).getD 1 0 then toDenseOn L a idx else 0 := by
  rcases diag_ok_iff h with ⟨hd, hc⟩ | ⟨hd, hr, hc⟩
  · rw [hd, if_pos rfl, hc]; rfl
  · rw [hd]
    simp only [Bool.false_eq_true, if_false]
    have hrank : c.rank = 2 := by rw [hc]; exact hr
    unfold toDenseOn
    rw [hrank, hr]
    by_cases hA : (List.range 2).all (fun i => (locAt L idx i).isSome) = true
    · rw [if_pos hA, if_pos hA]
      have hget : c.get? (keyAt L idx 2) = (a.get? (keyAt L idx 2)).map (fun b =>
          (⟨b.shape, fun i => if i.getD 0 0 = i.getD 1 0 then b.val i else 0⟩ : Block R)) := by
        have key := find?_filter_map_key a.blocks (fun _ => true)
          (fun kb => (⟨kb.2.shape, fun i => if i.getD 0 0 = i.getD 1 0 then kb.2.val i else 0⟩ : Block R)) (keyAt L idx 2)
        have e1 : c.get? (keyAt L idx 2) = (c.blocks.find? (fun kb => kb.1 == keyAt L idx 2)).map (·.2) := rfl
        have e2 : a.get? (keyAt L idx 2) = (a.blocks.find? (fun kb => kb.1 == keyAt L idx 2)).map (·.2) := rfl
        have hcb : c.blocks = (a.blocks.filter (fun _ => true)).map (fun kb =>
            (kb.1, (⟨kb.2.shape, fun i => if i.getD 0 0 = i.getD 1 0 then kb.2.val i else 0⟩ : Block R))) := by
          rw [hc]; simp
        rw [e1, hcb, key, if_pos rfl, e2]
        cases a.blocks.find? (fun kb => kb.1 == keyAt L idx 2) <;> rfl
      rw [hget]
      cases a.get? (keyAt L idx 2) with
      | none => simp
      | some b =>
        simp only [Option.map_some]
    · have hA' : (List.range 2).all (fun i => (locAt L idx i).isSome) = false := by simpa using hA
      rw [hA']; simp

end YModel
