import YProofs.Lemmas.KrylovLemmas
import YProofs.Lemmas.KrylovMatrix
import YProofs.Lemmas.KrylovTime
import YProofs.Lemmas.KrylovExp
import YProofs.Lemmas.SortLemmas
import Mathlib.Algebra.Order.Field.Rat
import Mathlib.Tactic.NormNum
/-!
# C18 — Krylov solvers agree with dense matrix functions (exact-arithmetic part)

All theorems are about the definitions of `YModel/Krylov.lean` (`expand`, `eigs`, `linSolver`, `expmv`, the very
functions the floating-point driver runs) instantiated with the arithmetic of a field `K` and a `K`-module `E`
(`fieldArith`, resp. `ordArith` over an ordered field).  The inner product `ip`, `sqrt`, `abs`, `re` and — where
not stated otherwise — the comparison `lt` are ARBITRARY functions: the Arnoldi/Lanczos relations are pure
algebra, no orthogonality is used.  The operator `f` is an arbitrary function `E → E` for the relations and a
linear map where invariant subspaces / polynomials are involved.

* §1 `expand_relation`, `arnoldi_relation`, `lanczos_relation`, `lanczos_tridiagonal`, `lanczos_three_term` : `f V[j] = Σ_i H[(i,j)] V[i]` for every built column
* §2 `happy_invariant`, `happy_invariant_span` : after an exact happy breakdown `f V = V T`, `span V` is invariant
* §3 `ritz_exact`, `eigs_ritz_exact` : eigen-pairs of `T` give eigen-pairs of `f`
* §4 `expmv_exact_pow`, `expmv_exact_poly`, `expmv_exact` : `p(f) (V y) = V (p(T) y)` for every polynomial `p`,
  and `exp(t f) (V y) = V (exp(t T) y)` over `ℝ`/`ℂ`
* §5 `expmv_time`, `expmv_t_zero`, `expmv_zero_vector`, `expmv_zero_vector_error` : time bookkeeping of `expmv`
* §6 `lin_solver_residual`
* §7 `krylov_sector`, `eigs_sector`, `lin_solver_sector`, `expmv_sector`

Not covered here (left to the numerical contracts checked by the harness): rounding; that the first column of
`expm` of the AUGMENTED `(m+1)×(m+1)` matrix built by `expmvMatrix` restricted to its first `m` rows is
`exp(c T) e₀` (block-triangular exponential); the quality of `lstsq` / `eig` / `ctrl`.
-/
namespace YModel.Krylov

variable {K E : Type} [Field K] [AddCommGroup E] [Module K E]

/-- `lt x tol = false → x ≠ 0` (the hypothesis `hlt` below) holds for every positive `tol` of an ordered field
with the comparison the model uses there -/
theorem hlt_of_pos [LinearOrder K] [IsStrictOrderedRing K] {tol : K} (htol : 0 < tol) :
    ∀ x : K, (fun a b : K => decide (a < b)) x tol = false → x ≠ 0 := by
  intro x hx h0
  subst h0
  simp [htol] at hx

/-! ## §1 Arnoldi / Lanczos relation -/

section relation
variable [DecidableEq K] (ip : E → E → K) (sq ab rp : K → K) (lt : K → K → Bool)

/-- **C18 clause "Arnoldi/Lanczos relation", general form** (both `hermitian` flags, ANY function `f`, any
start state satisfying the invariant – in particular a state returned by a previous, rejected `expmv` pass).
`hlt` says that a step that is not a breakdown divides by a non-zero norm.
Not happy ⇒ the invariant `KInv` (`len(V) = len(cols)+1`, column `j` has `j+2` entries, `f V[j] = lc cols[j] V`)
holds for the result; happy ⇒ `HappyInv`: all columns but the last satisfy the relation exactly,
`len(cols) = len(V)`, and the last column (which lost `H[(j+1,j)]`) satisfies it up to the dropped remainder `w'`
whose norm compared below `tol`. -/
theorem expand_relation (f : E → E) (tol : K) (ncv : Nat) (herm : Bool) (st : KS K E)
    (hlt : ∀ x, lt x tol = false → x ≠ 0) (hinv : KInv f st) :
    ((expand (fieldArith ip sq ab rp lt) f tol ncv herm st).2 = false →
        KInv f (expand (fieldArith ip sq ab rp lt) f tol ncv herm st).1) ∧
    ((expand (fieldArith ip sq ab rp lt) f tol ncv herm st).2 = true →
        ∃ w', lt (sq (ip w' w')) tol = true ∧
          HappyInv f (expand (fieldArith ip sq ab rp lt) f tol ncv herm st).1 w') :=
  expandLoop_relation ip sq ab rp lt f tol herm hlt _ st hinv

omit [DecidableEq K] in
/-- the start state `V = [q0]`, `H = {}` satisfies the invariant -/
theorem expand_start_inv (f : E → E) (q0 : E) : KInv f ({ V := [q0], cols := [] } : KS K E) := kinv_init f q0

/-- **C18 clause "Arnoldi relation"** `f V[j] = Σ_{i ≤ j+1} H[(i,j)] V[i]` for every column `j` built by
`expand_krylov_space(hermitian=False)` that did not end in a happy breakdown (`H[(i,j)]` read as
`square_matrix_from_dict` reads it: absent = 0). -/
theorem arnoldi_relation (f : E → E) (tol : K) (ncv : Nat) (q0 : E) (hlt : ∀ x, lt x tol = false → x ≠ 0)
    (hh : (expand (fieldArith ip sq ab rp lt) f tol ncv false { V := [q0], cols := [] }).2 = false)
    (j : Nat) (hj : j < (expand (fieldArith ip sq ab rp lt) f tol ncv false { V := [q0], cols := [] }).1.cols.length) :
    f ((expand (fieldArith ip sq ab rp lt) f tol ncv false { V := [q0], cols := [] }).1.V.getD j 0) =
      ∑ i ∈ Finset.range (j + 2),
        hEntry (fieldArith ip sq ab rp lt : Arith K E)
          (expand (fieldArith ip sq ab rp lt) f tol ncv false { V := [q0], cols := [] }).1.cols i j •
        (expand (fieldArith ip sq ab rp lt) f tol ncv false { V := [q0], cols := [] }).1.V.getD i 0 :=
  ((expand_relation ip sq ab rp lt f tol ncv false _ hlt (kinv_init f q0)).1 hh).sum_rel ip sq ab rp lt hj

/-- **C18 clause "Lanczos relation"**: the same identity for `hermitian=True` (three-term recurrence; the column
stored by the model is `[0,…,0, H[(j,j-1)], H[(j,j)], H[(j+1,j)]]`, see `lanczos_tridiagonal`). -/
theorem lanczos_relation (f : E → E) (tol : K) (ncv : Nat) (q0 : E) (hlt : ∀ x, lt x tol = false → x ≠ 0)
    (hh : (expand (fieldArith ip sq ab rp lt) f tol ncv true { V := [q0], cols := [] }).2 = false)
    (j : Nat) (hj : j < (expand (fieldArith ip sq ab rp lt) f tol ncv true { V := [q0], cols := [] }).1.cols.length) :
    f ((expand (fieldArith ip sq ab rp lt) f tol ncv true { V := [q0], cols := [] }).1.V.getD j 0) =
      ∑ i ∈ Finset.range (j + 2),
        hEntry (fieldArith ip sq ab rp lt : Arith K E)
          (expand (fieldArith ip sq ab rp lt) f tol ncv true { V := [q0], cols := [] }).1.cols i j •
        (expand (fieldArith ip sq ab rp lt) f tol ncv true { V := [q0], cols := [] }).1.V.getD i 0 :=
  ((expand_relation ip sq ab rp lt f tol ncv true _ hlt (kinv_init f q0)).1 hh).sum_rel ip sq ab rp lt hj

/-- **C18 clause "Lanczos: tridiagonal, super-diagonal copied from the sub-diagonal"** (any `f`, `ip`, `sq`,
`lt`, `tol`; happy or not): `H[(i,j)] = 0` for `i < j-1` and `H[(j-1,j)] = H[(j,j-1)]` – the model (like the code)
COPIES the entry, it does not conjugate it. -/
theorem lanczos_tridiagonal (f : E → E) (tol : K) (ncv : Nat) (q0 : E) (j : Nat)
    (hj : j < (expand (fieldArith ip sq ab rp lt) f tol ncv true { V := [q0], cols := [] }).1.cols.length) :
    (∀ i, i + 1 < j → hEntry (fieldArith ip sq ab rp lt : Arith K E)
      (expand (fieldArith ip sq ab rp lt) f tol ncv true { V := [q0], cols := [] }).1.cols i j = 0) ∧
    (1 ≤ j → hEntry (fieldArith ip sq ab rp lt : Arith K E)
        (expand (fieldArith ip sq ab rp lt) f tol ncv true { V := [q0], cols := [] }).1.cols (j - 1) j
      = hEntry (fieldArith ip sq ab rp lt : Arith K E)
        (expand (fieldArith ip sq ab rp lt) f tol ncv true { V := [q0], cols := [] }).1.cols j (j - 1)) :=
  expandLoop_tri ip sq ab rp lt f tol _ _ rfl (fun j hj => by simp at hj) j hj

/-- **C18 clause "Lanczos three-term recurrence"**:
`f V[j] = H[(j,j-1)] V[j-1] + H[(j,j)] V[j] + H[(j+1,j)] V[j+1]` for `1 ≤ j` (no breakdown). -/
theorem lanczos_three_term (f : E → E) (tol : K) (ncv : Nat) (q0 : E) (hlt : ∀ x, lt x tol = false → x ≠ 0)
    (hh : (expand (fieldArith ip sq ab rp lt) f tol ncv true { V := [q0], cols := [] }).2 = false)
    (k : Nat) (hj : k + 1 < (expand (fieldArith ip sq ab rp lt) f tol ncv true { V := [q0], cols := [] }).1.cols.length) :
    f ((expand (fieldArith ip sq ab rp lt) f tol ncv true { V := [q0], cols := [] }).1.V.getD (k + 1) 0) =
      hEntry (fieldArith ip sq ab rp lt : Arith K E)
          (expand (fieldArith ip sq ab rp lt) f tol ncv true { V := [q0], cols := [] }).1.cols (k + 1) k •
        (expand (fieldArith ip sq ab rp lt) f tol ncv true { V := [q0], cols := [] }).1.V.getD k 0 +
      hEntry (fieldArith ip sq ab rp lt : Arith K E)
          (expand (fieldArith ip sq ab rp lt) f tol ncv true { V := [q0], cols := [] }).1.cols (k + 1) (k + 1) •
        (expand (fieldArith ip sq ab rp lt) f tol ncv true { V := [q0], cols := [] }).1.V.getD (k + 1) 0 +
      hEntry (fieldArith ip sq ab rp lt : Arith K E)
          (expand (fieldArith ip sq ab rp lt) f tol ncv true { V := [q0], cols := [] }).1.cols (k + 2) (k + 1) •
        (expand (fieldArith ip sq ab rp lt) f tol ncv true { V := [q0], cols := [] }).1.V.getD (k + 2) 0 := by
  rw [lanczos_relation ip sq ab rp lt f tol ncv q0 hlt hh (k + 1) hj]
  obtain ⟨h0, h1⟩ := lanczos_tridiagonal ip sq ab rp lt f tol ncv q0 (k + 1) hj
  rw [Finset.sum_range_succ, Finset.sum_range_succ, Finset.sum_range_succ, Finset.sum_eq_zero, zero_add]
  · have := h1 (by omega)
    simp only [Nat.add_sub_cancel] at this
    rw [this]
  · intro i hi
    rw [h0 i (by have := Finset.mem_range.mp hi; omega), zero_smul]

/-- **C18 clause "relation on a happy breakdown"** (both flags): `len(cols) = len(V) = m`, columns `j < m-1`
satisfy the relation exactly and have `j+2` entries, the last one has `m` entries and
`f V[m-1] = Σ_{i<m} H[(i,m-1)] V[i] + w'` with `‖w'‖ < tol`. -/
theorem happy_relation (f : E → E) (tol : K) (ncv : Nat) (herm : Bool) (q0 : E)
    (hlt : ∀ x, lt x tol = false → x ≠ 0)
    (hh : (expand (fieldArith ip sq ab rp lt) f tol ncv herm { V := [q0], cols := [] }).2 = true) :
    ∃ w', lt (sq (ip w' w')) tol = true ∧
      let r := (expand (fieldArith ip sq ab rp lt) f tol ncv herm { V := [q0], cols := [] }).1
      r.cols.length = r.V.length ∧ 0 < r.V.length ∧
      (∀ j, j + 1 < r.V.length →
        (r.cols.getD j []).length = j + 2 ∧ f (r.V.getD j 0) = lc (r.cols.getD j []) r.V) ∧
      (r.cols.getD (r.V.length - 1) []).length = r.V.length ∧
      f (r.V.getD (r.V.length - 1) 0) = lc (r.cols.getD (r.V.length - 1) []) r.V + w' := by
  obtain ⟨w', h1, h2⟩ := (expand_relation ip sq ab rp lt f tol ncv herm _ hlt (kinv_init f q0)).2 hh
  exact ⟨w', h1, h2.len, h2.pos, fun j hj => h2.getD_rel hj, h2.getD_last.1, h2.getD_last.2⟩

/-! ## §2 exact happy breakdown: invariant subspace -/

/-- **C18 clause "happy breakdown ⇒ invariant subspace", matrix form.**  Idealised exact breakdown `hdef`
(a remainder whose norm compares below `tol` is zero; "tol → 0⁺" with a definite norm).  Then with `m = len(V)`:
`f V[j] = Σ_{i<m} T[i][j] V[i]` for ALL `j < m`, where `T = square_matrix_from_dict(H, m)`, and every column has
at most `m` entries (no `H[(m, m-1)]` left). -/
theorem happy_invariant (f : E → E) (tol : K) (ncv : Nat) (herm : Bool) (q0 : E)
    (hlt : ∀ x, lt x tol = false → x ≠ 0) (hdef : ∀ w, lt (sq (ip w w)) tol = true → w = 0)
    (hh : (expand (fieldArith ip sq ab rp lt) f tol ncv herm { V := [q0], cols := [] }).2 = true) :
    let r := (expand (fieldArith ip sq ab rp lt) f tol ncv herm { V := [q0], cols := [] }).1
    r.cols.length = r.V.length ∧
    ∀ j, j < r.V.length →
      (r.cols.getD j []).length ≤ r.V.length ∧
      f (r.V.getD j 0) = lc (r.cols.getD j []) r.V ∧
      f (r.V.getD j 0) = ∑ i ∈ Finset.range r.V.length,
        mEntry (fieldArith ip sq ab rp lt : Arith K E)
          (squareMatrix (fieldArith ip sq ab rp lt : Arith K E) r.cols r.V.length) i j • r.V.getD i 0 := by
  obtain ⟨w', h1, h2⟩ := (expand_relation ip sq ab rp lt f tol ncv herm _ hlt (kinv_init f q0)).2 hh
  rw [hdef w' h1] at h2
  refine ⟨h2.len, fun j hj => ?_⟩
  obtain ⟨a, b, c⟩ := h2.sum_rel ip sq ab rp lt hj
  refine ⟨a, b, ?_⟩
  rw [c]
  refine Finset.sum_congr rfl (fun i hi => ?_)
  rw [mEntry_squareMatrix _ _ _ _ _ _ _ _ _ (Finset.mem_range.mp hi) hj]

/-- **C18 clause "happy breakdown ⇒ invariant subspace", subspace form**: for linear `f` the span of the
Krylov basis is mapped into itself. -/
theorem happy_invariant_span (f : E →ₗ[K] E) (tol : K) (ncv : Nat) (herm : Bool) (q0 : E)
    (hlt : ∀ x, lt x tol = false → x ≠ 0) (hdef : ∀ w, lt (sq (ip w w)) tol = true → w = 0)
    (hh : (expand (fieldArith ip sq ab rp lt) f tol ncv herm { V := [q0], cols := [] }).2 = true) :
    ∀ x ∈ Submodule.span K {v | v ∈ (expand (fieldArith ip sq ab rp lt) f tol ncv herm { V := [q0], cols := [] }).1.V},
      f x ∈ Submodule.span K {v | v ∈ (expand (fieldArith ip sq ab rp lt) f tol ncv herm { V := [q0], cols := [] }).1.V} := by
  obtain ⟨_, h⟩ := happy_invariant ip sq ab rp lt f tol ncv herm q0 hlt hdef hh
  generalize (expand (fieldArith ip sq ab rp lt) (⇑f) tol ncv herm { V := [q0], cols := [] }).1 = r at h ⊢
  have hle : Submodule.span K {v | v ∈ r.V} ≤ (Submodule.span K {v | v ∈ r.V}).comap f := by
    rw [Submodule.span_le]
    intro v hv
    obtain ⟨j, hj, rfl⟩ := List.getElem_of_mem hv
    have := (h j hj).2.1
    rw [show r.V.getD j 0 = r.V[j] by simp [List.getD, List.getElem?_eq_getElem hj]] at this
    show f r.V[j] ∈ Submodule.span K {v | v ∈ r.V}
    rw [this]
    exact lc_mem_span _ _
  exact fun x hx => hle hx

end relation

/-! ## §3 Ritz pairs are exact on an invariant subspace -/

/-- **C18 clause "eigs: Ritz pairs exact"** (abstract form).  If `f V = V T` column-wise and `T y = θ y` then
`V y` is an eigenvector of `f` for `θ` (or zero).  `V` need not be orthonormal or independent. -/
theorem ritz_exact (f : E →ₗ[K] E) {m : Nat} (V : Fin m → E) (T : Matrix (Fin m) (Fin m) K)
    (hFV : ∀ j, f (V j) = ∑ i, T i j • V i) (θ : K) (y : Fin m → K) (hy : T.mulVec y = θ • y) :
    f (∑ j, y j • V j) = θ • ∑ j, y j • V j := by
  have := apply_comb f V T hFV y
  rw [hy, comb_smul] at this
  exact this

section bridge
variable [DecidableEq K] (ip : E → E → K) (sq ab rp : K → K) (lt : K → K → Bool)

/-- bridge from the model's lists to the `Fin`/`Matrix` form used in §3–§4: after an exact happy breakdown the
basis `V : Fin m → E` and `T i j = H[(i,j)]` (`ritzMatrix`, the entries of `square_matrix_from_dict(H, m)`)
satisfy the hypothesis `hFV` of `ritz_exact`, `expmv_exact_pow`, `expmv_exact_poly`. -/
theorem happy_invariant_fin (f : E → E) (tol : K) (ncv : Nat) (herm : Bool) (q0 : E)
    (hlt : ∀ x, lt x tol = false → x ≠ 0) (hdef : ∀ w, lt (sq (ip w w)) tol = true → w = 0)
    (r : KS K E) (hr : expand (fieldArith ip sq ab rp lt) f tol ncv herm { V := [q0], cols := [] } = (r, true)) :
    ∀ j : Fin r.V.length,
      f r.V[j] = ∑ i : Fin r.V.length, ritzMatrix (E := E) ip sq ab rp lt r.cols r.V.length i j • r.V[i] := by
  obtain ⟨w', h1, h2⟩ := (expand_relation ip sq ab rp lt f tol ncv herm _ hlt (kinv_init f q0)).2 (by rw [hr])
  rw [hdef w' h1, hr] at h2
  exact h2.fin_rel ip sq ab rp lt

/-- **C18 clause "eigs: Ritz pairs exact", end to end.**  If `eigs` succeeds after an exact happy breakdown and
the dense eigen-solver `eig` returns genuine eigen-pairs of the small matrix it is given (`heig`; row-major list
of rows, `Σ_j T[i][j] y[j] = θ y[i]`), then EVERY returned pair `(θ, x)` satisfies `f x = θ x`. -/
theorem eigs_ritz_exact (f : E →ₗ[K] E) (eig : List (List K) → List (K × List K)) (tolE : K) (v0 : E) (k : Nat)
    (which : String) (ncv : Nat) (herm : Bool) (res : List (K × E))
    (hlt : ∀ x, lt x tolE = false → x ≠ 0) (hdef : ∀ w, lt (sq (ip w w)) tolE = true → w = 0)
    (heig : ∀ T θ y, (θ, y) ∈ eig T → y.length = T.length ∧ ∀ i < T.length,
      ∑ j ∈ Finset.range T.length, mEntry (fieldArith ip sq ab rp lt : Arith K E) T i j * y.getD j 0 = θ * y.getD i 0)
    (hh : (expand (fieldArith ip sq ab rp lt) f tolE ncv herm
      { V := [((1 : K) / sq (ip v0 v0)) • v0], cols := [] }).2 = true)
    (h : eigs (fieldArith ip sq ab rp lt) f eig tolE v0 k which ncv herm = .ok res) :
    ∀ p ∈ res, f p.2 = p.1 • p.2 := by
  obtain ⟨_, hres⟩ := eigs_ok ip sq ab rp lt f eig tolE v0 k which ncv herm res h
  obtain ⟨r, b⟩ : ∃ r b, expand (fieldArith ip sq ab rp lt) f tolE ncv herm
      { V := [((1 : K) / sq (ip v0 v0)) • v0], cols := [] } = (r, b) := ⟨_, _, rfl⟩
  obtain ⟨b, hb⟩ := b
  rw [hb] at hh
  dsimp only at hh
  subst hh
  have hres := hres _ hb.symm r.V.length (by simp)
  have hfin := happy_invariant_fin ip sq ab rp lt f tolE ncv herm _ hlt hdef r hb
  have hpos : 0 < r.V.length := by
    obtain ⟨w', _, h2⟩ := (expand_relation ip sq ab rp lt f tolE ncv herm _ hlt (kinv_init f _)).2 (by rw [hb])
    rw [hb] at h2
    exact h2.pos
  rw [List.take_length] at hres
  intro p hp
  rw [hres] at hp
  obtain ⟨q, hq, rfl⟩ := List.mem_map.mp hp
  have hq' : (q.1, q.2) ∈ eig (squareMatrix (fieldArith ip sq ab rp lt : Arith K E) r.cols r.V.length) :=
    (isort_perm _ _).mem_iff.mp (List.mem_of_mem_take hq)
  obtain ⟨hlen, hev⟩ := heig _ _ _ hq'
  have hTlen : (squareMatrix (fieldArith ip sq ab rp lt : Arith K E) r.cols r.V.length).length = r.V.length := by
    simp [squareMatrix]
  rw [hTlen] at hlen hev
  dsimp only
  rw [linComb_eq _ _ _ _ _ _ _ _ ⟨by intro h0; rw [h0] at hlen; simp at hlen; omega,
    by intro h0; rw [h0] at hpos; simp at hpos⟩]
  rw [lc_eq_sum_range, Finset.sum_range]
  have key := ritz_exact f (fun i : Fin r.V.length => r.V[i]) (ritzMatrix (E := E) ip sq ab rp lt r.cols r.V.length)
    hfin q.1 (fun i => q.2.getD i 0) (by
      ext i
      have := hev i i.2
      rw [Finset.sum_range] at this
      simp only [Matrix.mulVec, dotProduct, Pi.smul_apply, smul_eq_mul]
      rw [← this]
      refine Finset.sum_congr rfl (fun j _ => ?_)
      rw [mEntry_squareMatrix _ _ _ _ _ _ _ _ _ i.2 j.2]
      rfl)
  simpa [List.getD] using key

end bridge

/-! ## §4 `expmv` is exact on an invariant subspace: polynomials of `f` -/

/-- **C18 clause "expmv exact on an invariant subspace", powers**: `f^k (V y) = V (T^k y)` -/
theorem expmv_exact_pow (f : E →ₗ[K] E) {m : Nat} (V : Fin m → E) (T : Matrix (Fin m) (Fin m) K)
    (hFV : ∀ j, f (V j) = ∑ i, T i j • V i) (k : Nat) (y : Fin m → K) :
    (f ^ k) (∑ j, y j • V j) = ∑ j, ((T ^ k).mulVec y) j • V j :=
  pow_apply_comb f V T hFV k y

/-- **C18 clause "expmv exact on an invariant subspace", polynomials**: `p(f) (V y) = V (p(T) y)` for every
polynomial `p` – in particular for every partial sum of the exponential series of `t f`. -/
theorem expmv_exact_poly (f : E →ₗ[K] E) {m : Nat} (V : Fin m → E) (T : Matrix (Fin m) (Fin m) K)
    (hFV : ∀ j, f (V j) = ∑ i, T i j • V i) (p : Polynomial K) (y : Fin m → K) :
    (Polynomial.aeval f p) (∑ j, y j • V j) = ∑ j, ((Polynomial.aeval T p).mulVec y) j • V j :=
  aeval_apply_comb f V T hFV p y

/-- **C18 clause "expmv exact on an invariant subspace", the exponential itself.**  `𝕂 = ℝ` or `ℂ`, `E` a complete
normed space (every finite-dimensional one is), `f` continuous linear with `f V = V T` column-wise (e.g. after an
exact happy breakdown, `happy_invariant_fin`): `exp(t f) (V y) = V (exp(t T) y)` for every `t` (any sign, complex
included) – the dense matrix exponential of the SMALL matrix gives the exact action of `exp(t f)` on `span V`.
`V` need not be orthonormal or independent. -/
theorem expmv_exact {𝕂 F : Type} [RCLike 𝕂] [NormedAddCommGroup F] [NormedSpace 𝕂 F] [CompleteSpace F]
    (f : F →L[𝕂] F) {m : Nat} (V : Fin m → F) (T : Matrix (Fin m) (Fin m) 𝕂)
    (hFV : ∀ j, f (V j) = ∑ i, T i j • V i) (t : 𝕂) (y : Fin m → 𝕂) :
    (NormedSpace.exp (t • f)) (∑ j, y j • V j) = ∑ j, ((NormedSpace.exp (t • T)).mulVec y) j • V j :=
  exp_smul_apply_comb f V T hFV t y

/-! ## §5 `expmv`: time bookkeeping of the adaptive loop -/

section time
variable {σ : Type} [LinearOrder K] [IsStrictOrderedRing K] (ip : E → E → K) (sq rp : K → K)

/-- **C18 clause "expmv never overshoots; accepted steps sum to the requested time", loop form.**  ARBITRARY
`f`, dense `expm`, controller `ctrl` (any accept/reject decisions, any proposals `tauNew`, `ncvNew`), any fuel.
From `t_now = 0`, an empty record and a step size `0 < tau ≤ t_out - t_now` (whenever `t_now < t_out`): if the
loop returns then (a) `t_now = t_out` exactly, (b) the recorded exponents are `sgn * τ` with `0 < τ`, the `τ`
sum to `t_out`, hence the exponents sum to `sgn * t_out`, (c) every accepted `τ` fits into the time that was
left before it (`older` = the steps accepted earlier). -/
theorem expmv_loop_time (f : E → E) (expm : List (List K) → List (List K))
    (ctrl : σ → CtrlIn K → CtrlOut K × σ) (tol : K) (herm : Bool) (ncvMax : Nat) (sgn tOut : K)
    (fuel : Nat) (st st' : ES K E σ) (h0 : st.tNow = 0) (hOut : 0 ≤ tOut)
    (htau : st.tNow < tOut → 0 < st.tau ∧ st.tau ≤ tOut - st.tNow) (hsteps : st.steps = [])
    (h : expmvLoop (ordArith ip sq rp) f expm ctrl tol herm ncvMax sgn tOut fuel st = some st') :
    st'.tNow = tOut ∧ st'.steps.sum = sgn * tOut ∧
    ∃ taus : List K, st'.steps = taus.map (fun τ => sgn * τ) ∧ (∀ τ ∈ taus, 0 < τ) ∧ taus.sum = tOut ∧
      ∀ newer older τ, taus = newer ++ τ :: older → 0 < τ ∧ τ ≤ tOut - older.sum := by
  have hinv : TInv sgn tOut st := ⟨by rw [h0]; exact hOut, htau, ⟨[], by simp [hsteps], by simp, by simp [h0]⟩⟩
  obtain ⟨hI, ht⟩ := expmvLoop_inv ip sq rp f expm ctrl tol herm ncvMax sgn tOut fuel st st' hinv h
  obtain ⟨taus, h1, h2, h3⟩ := hI.steps
  rw [ht] at h3
  refine ⟨ht, ?_, taus, h1, h2, h3, fun newer older τ hs => steps_fit h2 h3 newer older τ hs⟩
  rw [h1, ← h3, List.sum_map_mul_left, List.map_id']

/-- one pass of the loop: a rejected pass leaves `t_now` and the record alone; an accepted pass advances by
some `0 < τ ≤ t_out - t_now` (so `t_now` never exceeds `t_out`) and records `sgn * τ`; the invariant
`t_now ≤ t_out ∧ (t_now < t_out → 0 < tau ≤ t_out - t_now)` is preserved. -/
theorem expmv_iter_time (f : E → E) (expm : List (List K) → List (List K))
    (ctrl : σ → CtrlIn K → CtrlOut K × σ) (tol : K) (herm : Bool) (ncvMax : Nat) (sgn tOut : K) (st : ES K E σ)
    (hinv : TInv sgn tOut st) (hlt : st.tNow < tOut) :
    TInv sgn tOut (expmvIter (ordArith ip sq rp) f expm ctrl tol herm ncvMax sgn tOut st) ∧
    (((expmvIter (ordArith ip sq rp) f expm ctrl tol herm ncvMax sgn tOut st).tNow = st.tNow ∧
      (expmvIter (ordArith ip sq rp) f expm ctrl tol herm ncvMax sgn tOut st).steps = st.steps) ∨
     ∃ τ, 0 < τ ∧ τ ≤ tOut - st.tNow ∧
      (expmvIter (ordArith ip sq rp) f expm ctrl tol herm ncvMax sgn tOut st).tNow = st.tNow + τ ∧
      (expmvIter (ordArith ip sq rp) f expm ctrl tol herm ncvMax sgn tOut st).steps = sgn * τ :: st.steps) :=
  expmvIter_inv ip sq rp f expm ctrl tol herm ncvMax sgn tOut st hinv hlt

/-- **C18 clause "accepted steps sum to t; the sign of t multiplies every exponent"**, for `expmv` itself
(vector of non-zero norm, any `t` including negative and zero): the exponents handed to the dense `expm`
in the accepted passes are `(t/|t|) * τ` with `0 < τ`, `Σ τ = |t|`, and they sum to exactly `t`. -/
theorem expmv_time (f : E → E) (expm : List (List K) → List (List K))
    (ctrl : σ → CtrlIn K → CtrlOut K × σ) (mem0 : σ) (fuel size : Nat) (v : E) (t tol : K) (ncv : Nat)
    (herm normalize : Bool) (out : ExpmvOut K E) (hv : sq (ip v v) ≠ 0)
    (h : expmv (ordArith ip sq rp) f expm ctrl mem0 fuel size v t tol ncv herm normalize = .ok out) :
    out.steps.sum = t ∧
    ∃ taus : List K, out.steps = taus.map (fun τ => t / |t| * τ) ∧ (∀ τ ∈ taus, 0 < τ) ∧ taus.sum = |t| ∧
      ∀ newer older τ, taus = newer ++ τ :: older → 0 < τ ∧ τ ≤ |t| - older.sum := by
  rw [expmv_eq_of_ne ip sq rp f expm ctrl mem0 fuel size v t tol ncv herm normalize hv] at h
  split at h
  · exact absurd h (by simp)
  · rename_i st hst
    simp only [Except.ok.injEq] at h
    subst h
    obtain ⟨_, h2, h3⟩ := expmv_loop_time ip sq rp f expm ctrl tol herm (min 30 size) (t / |t|) |t| fuel _ st rfl
      (abs_nonneg t) (fun hlt => ⟨by simpa using hlt, by simp⟩) rfl hst
    refine ⟨?_, h3⟩
    dsimp only
    rw [h2]
    by_cases ht : t = 0
    · simp [ht]
    · exact div_mul_cancel₀ t (abs_ne_zero.mpr ht)

/-- **C18 clause "t = 0"**: the loop body never runs (no call of `f`, empty record) and the vector comes back
rescaled by its own norm (`normalize = False`) resp. normalised. -/
theorem expmv_t_zero (f : E → E) (expm : List (List K) → List (List K))
    (ctrl : σ → CtrlIn K → CtrlOut K × σ) (mem0 : σ) (fuel size : Nat) (v : E) (tol : K) (ncv : Nat)
    (herm normalize : Bool) (hv : sq (ip v v) ≠ 0) :
    expmv (ordArith ip sq rp) f expm ctrl mem0 fuel size v 0 tol ncv herm normalize =
      .ok { v := if normalize then ((1 : K) / sq (ip v v)) • v else sq (ip v v) • (((1 : K) / sq (ip v v)) • v),
            steps := [], nf := 0, ncv := max 1 ncv } := by
  rw [expmv_eq_of_ne ip sq rp f expm ctrl mem0 fuel size v 0 tol ncv herm normalize hv, abs_zero,
    expmvLoop_done ip sq rp f expm ctrl tol herm (min 30 size) _ 0 fuel _ (lt_irrefl _)]

/-- **C18 clause "zero vector, normalize = False"**: returned unchanged-by-the-loop (`normv • v` with
`normv = 0` the computed norm), no call of `f`, for every `t`. -/
theorem expmv_zero_vector (f : E → E) (expm : List (List K) → List (List K))
    (ctrl : σ → CtrlIn K → CtrlOut K × σ) (mem0 : σ) (fuel size : Nat) (v : E) (t tol : K) (ncv : Nat)
    (herm : Bool) (hv : sq (ip v v) = 0) :
    expmv (ordArith ip sq rp) f expm ctrl mem0 fuel size v t tol ncv herm false =
      .ok { v := sq (ip v v) • v, steps := [], nf := 0, ncv := max 1 ncv } := by
  rw [expmv_eq_of_zero ip sq rp f expm ctrl mem0 fuel size v t tol ncv herm false hv,
    expmvLoop_done ip sq rp f expm ctrl tol herm (min 30 size) _ 0 fuel _ (lt_irrefl _)]
  rfl

/-- **C18 clause "zero vector, normalize = True" is the error** -/
theorem expmv_zero_vector_error (f : E → E) (expm : List (List K) → List (List K))
    (ctrl : σ → CtrlIn K → CtrlOut K × σ) (mem0 : σ) (fuel size : Nat) (v : E) (t tol : K) (ncv : Nat)
    (herm : Bool) (hv : sq (ip v v) = 0) :
    expmv (ordArith ip sq rp) f expm ctrl mem0 fuel size v t tol ncv herm true = .error .zeroVector := by
  rw [expmv_eq_of_zero ip sq rp f expm ctrl mem0 fuel size v t tol ncv herm true hv]
  rfl

end time

/-! ## §6 `lin_solver`: the reported residual is the residual of the returned vector -/

section linsolver
variable [DecidableEq K] (ip : E → E → K) (sq ab rp : K → K) (lt : K → K → Bool)

/-- **C18 clause "lin_solver residual"** (data flow; ANY `f`, `lstsq`, `ip`, `sq`, `lt`): the second component
is `‖f(vf) − b‖` evaluated at the RETURNED `vf`, and `vf = v0 + Σ_i y_i Q_i` with `Q` a prefix of the Krylov
basis built from the normalised initial residual `b − f(v0)`. -/
theorem lin_solver_residual (f : E → E) (lstsq : List (List K) → List K → List K) (b v0 : E) (ncv : Nat)
    (tol : K) (herm : Bool) (vf : E) (r : K)
    (h : linSolver (fieldArith ip sq ab rp lt) f lstsq b v0 ncv tol herm = .ok (vf, r)) :
    r = norm (fieldArith ip sq ab rp lt) (vsub (fieldArith ip sq ab rp lt) (f vf) b) ∧
    r = sq (ip (f vf - b) (f vf - b)) ∧
    sq (ip (b - f v0) (b - f v0)) ≠ 0 ∧
    ∃ (y : List K) (n : Nat), vf = v0 + lc y
      ((expand (fieldArith ip sq ab rp lt) f tol ncv herm
        { V := [((1 : K) / sq (ip (b - f v0) (b - f v0))) • (b - f v0)], cols := [] }).1.V.take n) := by
  unfold linSolver at h
  simp only [vsub_eq, norm_eq] at h
  split at h
  · exact absurd h (by simp)
  · rename_i hz
    simp only [Except.ok.injEq, Prod.mk.injEq] at h
    obtain ⟨h1, h2⟩ := h
    refine ⟨?_, by rw [← h2, ← h1], ?_, ?_⟩
    · rw [vsub_eq, norm_eq, ← h2, ← h1]
    · intro h0
      apply hz
      show decide (sq (ip (b - f v0) (b - f v0)) = 0) = true
      simpa using h0
    · rw [addAmp_eq] at h1
      exact ⟨_, _, h1.symm⟩

end linsolver

/-! ## §7 everything stays in the Krylov space of the start vector -/

/-- the Krylov space `span {f^k q0 | k ∈ ℕ}` -/
def krylovSpace (f : Module.End K E) (q0 : E) : Submodule K E :=
  Submodule.span K (Set.range fun k : ℕ => (f ^ k) q0)

theorem krylovSpace_invariant (f : Module.End K E) (q0 : E) : ∀ x ∈ krylovSpace f q0, f x ∈ krylovSpace f q0 := by
  have hle : krylovSpace f q0 ≤ (krylovSpace f q0).comap f := by
    unfold krylovSpace
    rw [Submodule.span_le]
    rintro _ ⟨k, rfl⟩
    show f ((f ^ k) q0) ∈ Submodule.span K (Set.range fun k : ℕ => (f ^ k) q0)
    rw [← Module.End.mul_apply, ← pow_succ']
    exact Submodule.subset_span ⟨k + 1, rfl⟩
  exact fun x hx => hle hx

theorem self_mem_krylovSpace (f : Module.End K E) (q0 : E) : q0 ∈ krylovSpace f q0 :=
  Submodule.subset_span ⟨0, by simp⟩

section sector
variable [DecidableEq K] (ip : E → E → K) (sq ab rp : K → K) (lt : K → K → Bool)

/-- **C18 clause "Krylov vectors stay in the sector of the start vector"**: for linear `f` every basis vector
produced by `expand_krylov_space` lies in `span {f^k q0}` (any `ip`, `sqrt`, `tol`, both flags; a linear
symmetry sector containing `q0` and preserved by `f` contains that span). -/
theorem krylov_sector (f : Module.End K E) (tol : K) (ncv : Nat) (herm : Bool) (q0 : E) :
    ∀ v ∈ (expand (fieldArith ip sq ab rp lt) f tol ncv herm { V := [q0], cols := [] }).1.V,
      v ∈ krylovSpace f q0 :=
  expandLoop_mem ip sq ab rp lt f tol herm (krylovSpace f q0) (krylovSpace_invariant f q0) _ _
    (fun v hv => by rw [List.mem_singleton.mp hv]; exact self_mem_krylovSpace f q0)

/-- general form: any `f`-invariant submodule `S` (e.g. a symmetry sector) containing the start basis keeps
the whole expanded basis -/
theorem krylov_sector_submodule (f : E → E) (tol : K) (ncv : Nat) (herm : Bool) (S : Submodule K E)
    (hf : ∀ x ∈ S, f x ∈ S) (st : KS K E) (h : ∀ v ∈ st.V, v ∈ S) :
    ∀ v ∈ (expand (fieldArith ip sq ab rp lt) f tol ncv herm st).1.V, v ∈ S :=
  expandLoop_mem ip sq ab rp lt f tol herm S hf _ _ h

/-- the Ritz vectors returned by `eigs` lie in the Krylov space of `v0` -/
theorem eigs_sector (f : Module.End K E) (eig : List (List K) → List (K × List K)) (tolE : K) (v0 : E) (k : Nat)
    (which : String) (ncv : Nat) (herm : Bool) (res : List (K × E))
    (h : eigs (fieldArith ip sq ab rp lt) f eig tolE v0 k which ncv herm = .ok res) :
    ∀ p ∈ res, p.2 ∈ krylovSpace f v0 := by
  obtain ⟨_, hres⟩ := eigs_ok ip sq ab rp lt f eig tolE v0 k which ncv herm res h
  rw [hres _ rfl _ rfl]
  intro p hp
  obtain ⟨q, _, rfl⟩ := List.mem_map.mp hp
  have hq0 : ((1 : K) / sq (ip v0 v0)) • v0 ∈ krylovSpace f v0 :=
    Submodule.smul_mem _ _ (self_mem_krylovSpace f v0)
  refine linComb_mem ip sq ab rp lt _ _ _ _ hq0 (fun v hv => ?_)
  exact expandLoop_mem ip sq ab rp lt f tolE herm (krylovSpace f v0) (krylovSpace_invariant f v0) _ _
    (fun v hv => by rw [List.mem_singleton.mp hv]; exact hq0) v (List.mem_of_mem_take hv)

/-- the correction `vf − v0` returned by `lin_solver` lies in the Krylov space of the initial residual -/
theorem lin_solver_sector (f : Module.End K E) (lstsq : List (List K) → List K → List K) (b v0 : E) (ncv : Nat)
    (tol : K) (herm : Bool) (vf : E) (r : K)
    (h : linSolver (fieldArith ip sq ab rp lt) f lstsq b v0 ncv tol herm = .ok (vf, r)) :
    vf - v0 ∈ krylovSpace f (b - f v0) := by
  obtain ⟨_, _, _, y, n, hy⟩ := lin_solver_residual ip sq ab rp lt f lstsq b v0 ncv tol herm vf r h
  rw [hy, add_sub_cancel_left]
  refine lc_mem _ _ _ (fun v hv => ?_)
  exact expandLoop_mem ip sq ab rp lt f tol herm (krylovSpace f (b - f v0)) (krylovSpace_invariant f _) _ _
    (fun v hv => by
      rw [List.mem_singleton.mp hv]
      exact Submodule.smul_mem _ _ (self_mem_krylovSpace f _)) v (List.mem_of_mem_take hv)

end sector

section sector_expmv
variable {σ : Type} [LinearOrder K] [IsStrictOrderedRing K] (ip : E → E → K) (sq rp : K → K)

/-- the vector returned by `expmv` lies in the Krylov space of the input vector (linear `f`; ANY `expm`, `ctrl`,
fuel; rejected passes that keep their Krylov basis for the next pass included) -/
theorem expmv_sector (f : Module.End K E) (expm : List (List K) → List (List K))
    (ctrl : σ → CtrlIn K → CtrlOut K × σ) (mem0 : σ) (fuel size : Nat) (v : E) (t tol : K) (ncv : Nat)
    (herm normalize : Bool) (out : ExpmvOut K E)
    (h : expmv (ordArith ip sq rp) f expm ctrl mem0 fuel size v t tol ncv herm normalize = .ok out) :
    out.v ∈ krylovSpace f v := by
  have hS := krylovSpace_invariant f v
  have hv := self_mem_krylovSpace f v
  by_cases hz : sq (ip v v) = 0
  · rw [expmv_eq_of_zero ip sq rp f expm ctrl mem0 fuel size v t tol ncv herm normalize hz] at h
    split at h
    · exact absurd h (by simp)
    · split at h
      · exact absurd h (by simp)
      · rename_i st hst
        simp only [Except.ok.injEq] at h
        subst h
        have := expmvLoop_mem ip sq (fun x => |x|) rp (fun a b => decide (a < b)) f expm ctrl tol herm (min 30 size)
          _ _ (krylovSpace f v) hS fuel _ st ⟨hv, fun ks hks => by simp at hks⟩ hst
        exact Submodule.smul_mem _ _ this.1
  · rw [expmv_eq_of_ne ip sq rp f expm ctrl mem0 fuel size v t tol ncv herm normalize hz] at h
    split at h
    · exact absurd h (by simp)
    · rename_i st hst
      simp only [Except.ok.injEq] at h
      subst h
      have := expmvLoop_mem ip sq (fun x => |x|) rp (fun a b => decide (a < b)) f expm ctrl tol herm (min 30 size)
        _ _ (krylovSpace f v) hS fuel _ st ⟨Submodule.smul_mem _ _ hv, fun ks hks => by simp at hks⟩ hst
      dsimp only
      cases normalize
      · exact Submodule.smul_mem _ _ this.1
      · exact this.1

end sector_expmv

/-! ## Non-vacuity: concrete instances over `K = ℚ`, `E = ℚ × ℚ` (kernel evaluation of the SAME definitions) -/

section examples

/-- non-symmetric operator `[[1,2],[3,1]]` -/
def exF : ℚ × ℚ → ℚ × ℚ := fun p => (p.1 + 2 * p.2, 3 * p.1 + p.2)
/-- non-symmetric operator `[[2,5],[1,3]]` -/
def exG : ℚ × ℚ → ℚ × ℚ := fun p => (2 * p.1 + 5 * p.2, p.1 + 3 * p.2)
/-- dot product -/
def exIp : ℚ × ℚ → ℚ × ℚ → ℚ := fun a b => a.1 * b.1 + a.2 * b.2
/-- `sqrt := id`, comparison `<` -/
def exA : Arith ℚ (ℚ × ℚ) := fieldArith exIp id (fun x => |x|) id (fun a b => decide (a < b))
/-- `sqrt := id`, comparison `≤` (with `tol = 0`: the exact breakdown test `‖w‖² ≤ 0`) -/
def exB : Arith ℚ (ℚ × ℚ) := fieldArith exIp id (fun x => |x|) id (fun a b => decide (a ≤ b))

/-- `hlt` is satisfiable: positive `tol`, comparison `<` -/
example : ∀ x : ℚ, (fun a b : ℚ => decide (a < b)) x (1 / 100) = false → x ≠ 0 := hlt_of_pos (by norm_num)

/-- Arnoldi, `ncv = 2`, no breakdown: two full columns (3 basis vectors), non-trivial entries -/
example : (expand exA exF (1 / 100) 2 false { V := [(1, 0)], cols := [] }).1.cols
    = [[1, 9], [2 / 3, 1 / 9, 64 / 729]] := by decide +kernel
example : (expand exA exF (1 / 100) 2 false { V := [(1, 0)], cols := [] }).2 = false := by decide +kernel
example : (expand exA exF (1 / 100) 2 false { V := [(1, 0)], cols := [] }).1.V
    = [(1, 0), (0, 1 / 3), (0, 27 / 8)] := by decide +kernel

/-- `arnoldi_relation` applies to this instance (all hypotheses discharged), column `j = 1` -/
example :
    exF ((expand exA exF (1 / 100) 2 false { V := [(1, 0)], cols := [] }).1.V.getD 1 0) =
      ∑ i ∈ Finset.range 3,
        hEntry exA (expand exA exF (1 / 100) 2 false { V := [(1, 0)], cols := [] }).1.cols i 1 •
          (expand exA exF (1 / 100) 2 false { V := [(1, 0)], cols := [] }).1.V.getD i 0 :=
  arnoldi_relation exIp id (fun x => |x|) id (fun a b => decide (a < b)) exF (1 / 100) 2 (1, 0)
    (hlt_of_pos (by norm_num)) (by decide +kernel) 1 (by decide +kernel)

/-- Lanczos on the same data: `H[(0,1)]` is the COPY of `H[(1,0)] = 9` -/
example : (expand exA exF (1 / 100) 2 true { V := [(1, 0)], cols := [] }).1.cols
    = [[1, 9], [9, 1 / 9, 50689 / 729]] := by decide +kernel

/-- exact happy breakdown at `m = 2` (`ncv = 5`): `T = [[2,5],[1,3]]` is the operator itself -/
example : expand exB exG 0 5 false { V := [(1, 0)], cols := [] }
    = ({ V := [(1, 0), (0, 1)], cols := [[2, 1], [5, 3]] }, true) := by
  have h1 : (expand exB exG 0 5 false { V := [(1, 0)], cols := [] }).1.V = [(1, 0), (0, 1)] := by decide +kernel
  have h2 : (expand exB exG 0 5 false { V := [(1, 0)], cols := [] }).1.cols = [[2, 1], [5, 3]] := by decide +kernel
  have h3 : (expand exB exG 0 5 false { V := [(1, 0)], cols := [] }).2 = true := by decide +kernel
  rw [← h1, ← h2, ← h3]

/-- `hlt` and `hdef` of `happy_invariant` are satisfiable together (comparison `≤`, `tol = 0`, definite `ip`) -/
example : ∀ x : ℚ, (fun a b : ℚ => decide (a ≤ b)) x 0 = false → x ≠ 0 := by
  intro x hx h0
  subst h0
  simp at hx
example : ∀ w : ℚ × ℚ, (fun a b : ℚ => decide (a ≤ b)) (id (exIp w w)) 0 = true → w = 0 := by
  intro w hw
  have h : w.1 * w.1 + w.2 * w.2 ≤ 0 := of_decide_eq_true hw
  have h1 : w.1 = 0 := by nlinarith [mul_self_nonneg w.1, mul_self_nonneg w.2]
  have h2 : w.2 = 0 := by nlinarith [mul_self_nonneg w.1, mul_self_nonneg w.2]
  exact Prod.ext h1 h2

/-- `expmv` with `t = -2`, a controller that rejects every other pass and halves the step: three accepted
steps, all negative, summing to `t` -/
def exCtrl : Nat → CtrlIn ℚ → CtrlOut ℚ × Nat :=
  fun n c => ({ accept := n % 2 == 1, tauNew := c.tau / 2, ncvNew := 2 }, n + 1)
example : ((expmv (ordArith exIp id id) exF id exCtrl 0 20 2 (1, 0) (-2) (1 / 100) 2 false false).toOption.map
    (fun o => (o.steps, o.nf))) = some ([-3 / 4, -1 / 4, -1], 6) := by decide +kernel

end examples

end YModel.Krylov
