import YProofs.Props.C03Unfuse
/-!
# C03 (continued) — re-assembly over a partition of the legs is a bijection

`scatter_pick` (C03Elem) shows `scatter ∘ (pick per group) = id` on lists of length `rank`; `pick_scatter` below shows the other
direction, `pick (scatter parts) group_i = parts_i` for parts of the right lengths: for every partition of the legs into groups (in any
order) splitting a key / shape / index into per-group parts and re-assembling it are mutually inverse.
-/
namespace YModel

theorem find_zip_group {α} (groups : List (List Nat)) (parts : List α) (hl : parts.length = groups.length)
    (i : Nat) (hi : i < groups.length) (p : Nat) (hpi : p ∈ groups[i])
    (hdisj : ∀ i' (h : i' < i), p ∉ groups[i']'(Nat.lt_trans h hi)) :
    (groups.zip parts).find? (fun gp => gp.1.contains p) = some (groups[i], parts[i]'(by omega)) := by
  induction groups generalizing parts i with
  | nil => cases hi
  | cons g gs ih =>
    cases parts with
    | nil => simp at hl
    | cons q qs =>
      cases i with
      | zero =>
        have : decide (p ∈ g) = true := by simpa using hpi
        simp [List.find?_cons, this]
      | succ i' =>
        have hng : g.contains p = false := by
          have := hdisj 0 (Nat.succ_pos _)
          simpa using this
        simp only [List.zip_cons_cons, List.find?_cons, hng]
        have hl' : qs.length = gs.length := by simpa using hl
        have := ih qs hl' i' (by simpa using hi) (by simpa using hpi)
          (fun i'' h => by
            have := hdisj (i'' + 1) (Nat.succ_lt_succ h)
            simpa using this)
        simpa using this

/-- `pick` of the re-assembled list returns the part of every group -/
theorem pick_scatter {α} [Inhabited α] (rank : Nat) (groups : List (List Nat)) (hp : isPartition rank groups = true)
    (parts : List (List α)) (hl : parts.length = groups.length)
    (hlen : ∀ i (h : i < groups.length), (parts[i]'(by omega)).length = groups[i].length)
    (i : Nat) (hi : i < groups.length) :
    pick (scatter rank groups parts) groups[i] = parts[i]'(by omega) := by
  have hnd : groups.flatten.Nodup := (isPerm_perm hp).nodup_iff.mpr List.nodup_range
  obtain ⟨hgn, hpw⟩ := List.nodup_flatten.mp hnd
  apply List.ext_getElem
  · simp [pick_length, hlen i hi]
  · intro j h1 h2
    have hj : j < groups[i].length := by simpa [pick_length] using h1
    have hpm : groups[i][j] ∈ groups[i] := List.getElem_mem hj
    have hpr : groups[i][j] < rank := isPerm_lt hp _ (List.mem_flatten.mpr ⟨groups[i], List.getElem_mem hi, hpm⟩)
    have hdisj : ∀ i' (h : i' < i), groups[i][j] ∉ groups[i']'(Nat.lt_trans h hi) := by
      intro i' h hmem
      have := List.pairwise_iff_getElem.mp hpw i' i (Nat.lt_trans h hi) hi h
      exact this hmem hpm
    have hfind := find_zip_group groups parts hl i hi groups[i][j] hpm hdisj
    simp only [pick, List.getElem_map, scatter]
    rw [List.getD_eq_getElem?_getD, List.getElem?_map, List.getElem?_range hpr]
    simp only [Option.map_some, Option.getD_some, hfind]
    have hidx : groups[i].idxOf groups[i][j] = j := (hgn _ (List.getElem_mem hi)).idxOf_getElem j hj
    rw [hidx, List.getD_eq_getElem?_getD, List.getElem?_eq_getElem h2]
    rfl

end YModel
