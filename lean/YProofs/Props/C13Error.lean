import Mathlib.LinearAlgebra.Matrix.Trace
import Mathlib.Data.Real.Basic
/-!
# C13 — clause 3: the truncated factorisation differs from the input by the discarded weight

Dense statement over ℝ (Frobenius norm squared written as `trace (Xᵀ X)`).  Contract assumed of
the LAPACK factorisation and validated per case by the harness: `Uᵀ U = 1`, `V Vᵀ = 1`,
`a = U S V`.
-/
namespace YModel.Trunc
open Matrix

variable {m r n : Type} [Fintype m] [Fintype r] [Fintype n] [DecidableEq r]

/-- isometries do not change the Frobenius norm of a diagonal core:
`‖U diag(d) V‖_F² = Σ d_i²` when `Uᵀ U = 1` and `V Vᵀ = 1`. -/
theorem frobenius_isometric_diag (U : Matrix m r ℝ) (V : Matrix r n ℝ) (d : r → ℝ)
    (hU : Uᵀ * U = 1) (hV : V * Vᵀ = 1) :
    trace ((U * diagonal d * V)ᵀ * (U * diagonal d * V)) = ∑ i, d i ^ 2 := by
  have h1 : (U * diagonal d * V)ᵀ * (U * diagonal d * V)
      = Vᵀ * ((diagonal d * (Uᵀ * U) * diagonal d) * V) := by
    simp only [transpose_mul, diagonal_transpose, Matrix.mul_assoc]
  rw [h1, hU, Matrix.mul_one, trace_mul_comm, Matrix.mul_assoc, hV, Matrix.mul_one, diagonal_mul_diagonal,
    trace_diagonal]
  exact Finset.sum_congr rfl (fun i _ => by ring)

/-- with `S₀` = `S` with the discarded entries set to zero, `‖U S V − U S₀ V‖_F² = Σ_{discarded} s_i²`. -/
theorem truncated_error_zeroed (U : Matrix m r ℝ) (V : Matrix r n ℝ) (s : r → ℝ) (keep : r → Bool)
    (hU : Uᵀ * U = 1) (hV : V * Vᵀ = 1) :
    trace ((U * diagonal s * V - U * diagonal (fun i => if keep i then s i else 0) * V)ᵀ
        * (U * diagonal s * V - U * diagonal (fun i => if keep i then s i else 0) * V))
      = ∑ i, (if keep i then 0 else s i ^ 2) := by
  have hd : U * diagonal s * V - U * diagonal (fun i => if keep i then s i else 0) * V
      = U * diagonal (fun i => if keep i then 0 else s i) * V := by
    rw [← Matrix.sub_mul, ← Matrix.mul_sub, diagonal_sub]
    congr 3
    funext i
    by_cases h : keep i <;> simp [h]
  rw [hd, frobenius_isometric_diag U V _ hU hV]
  exact Finset.sum_congr rfl (fun i _ => by by_cases h : keep i <;> simp [h])

omit [Fintype m] [Fintype n] in
/-- restricting `U`, `S`, `V` to the kept indices (what `apply_mask` does: columns of `U`, entries of
`S`, rows of `V`) gives the same product as zeroing the discarded diagonal entries -/
theorem zero_padding (U : Matrix m r ℝ) (V : Matrix r n ℝ) (s : r → ℝ) (keep : r → Bool) :
    U.submatrix id (Subtype.val : {i // keep i = true} → r) * diagonal (fun i => s i.1)
        * V.submatrix Subtype.val id
      = U * diagonal (fun i => if keep i then s i else 0) * V := by
  ext i l
  rw [Matrix.mul_apply, Matrix.mul_apply]
  simp only [Matrix.mul_diagonal, submatrix_apply, id_eq]
  have : ∀ j : r, U i j * (if keep j = true then s j else 0) * V j l
      = if keep j = true then U i j * s j * V j l else 0 := by
    intro j; by_cases h : keep j = true <;> simp [h]
  simp only [this]
  rw [← Finset.sum_filter]
  exact (Finset.sum_subtype (Finset.univ.filter (fun j => keep j = true)) (by simp)
    (fun j => U i j * s j * V j l)).symm

/-- **truncated_error**: if `Uᵀ U = 1` and `V Vᵀ = 1`, the truncated factorisation
`U_k S_k V_k` (factors restricted to the kept indices, any mask) differs from `a = U S V` by exactly
the discarded weight: `‖U S V − U_k S_k V_k‖_F² = Σ_{discarded} s_i²`.  The LAPACK contract
(`a = U S V`, isometries) is validated numerically on every run
(`c13:contract:*`, `c13:*:error-identity`, tolerance 1e-10·‖a‖). -/
theorem truncated_error (U : Matrix m r ℝ) (V : Matrix r n ℝ) (s : r → ℝ) (keep : r → Bool)
    (hU : Uᵀ * U = 1) (hV : V * Vᵀ = 1) :
    trace ((U * diagonal s * V - U.submatrix id (Subtype.val : {i // keep i = true} → r)
              * diagonal (fun i => s i.1) * V.submatrix Subtype.val id)ᵀ
        * (U * diagonal s * V - U.submatrix id (Subtype.val : {i // keep i = true} → r)
              * diagonal (fun i => s i.1) * V.submatrix Subtype.val id))
      = ∑ i, (if keep i then 0 else s i ^ 2) := by
  rw [zero_padding]
  exact truncated_error_zeroed U V s keep hU hV

/-- non-vacuity: a 2×2 instance with orthogonal (permutation) factors -/
example : trace ((!![0, 1; 1, 0] * diagonal ![3, 4] * (1 : Matrix (Fin 2) (Fin 2) ℝ)
      - !![0, 1; 1, 0] * diagonal (fun i => if ![true, false] i then ![3, 4] i else 0) * 1)ᵀ
    * (!![0, 1; 1, 0] * diagonal ![3, 4] * (1 : Matrix (Fin 2) (Fin 2) ℝ)
      - !![0, 1; 1, 0] * diagonal (fun i => if ![true, false] i then ![3, 4] i else 0) * 1))
    = ∑ i : Fin 2, (if ![true, false] i then 0 else (![3, 4] i : ℝ) ^ 2) := by
  apply truncated_error_zeroed
  · ext i j; fin_cases i <;> fin_cases j <;> simp [Matrix.mul_apply, Fin.sum_univ_two]
  · simp

end YModel.Trunc
