import YProofs.Lemmas.TensorBasic
import YModel.Prog
import YProofs.Lemmas.ChargeLemmas
import YProofs.Lemmas.PermLemmas
import YProofs.Lemmas.ContractLemmas
import Mathlib.Data.List.Nodup
/-!
# C02 — Every produced tensor is well-formed and conserves charge

`WF ms T` (YModel/Tensor.lean) is the model's well-formedness invariant: signatures ±1, canonical total
charge, strictly ascending (hence unique) block keys, every key of the tensor's rank with canonical leg
charges that combine under the symmetry's group law and the signatures to the total charge
(selection rule), positive block dimensions, one bond dimension per (leg, charge).
The theorems below show that each modelled operation preserves `WF` for ALL well-formed operands
(every symmetry in canonical shape, every rank, every sector content) and state the total charge of the
result; `eval_wf` lifts this to every finite program.
-/
namespace YModel
variable {R : Type} {ms : List Nat}

/-! ### element-wise operations, scalar multiplication, negation -/

theorem wf_mapVals (f : R → R) {T : Tensor R} (h : WF ms T) : WF ms (T.mapVals f) := by
  have hb : ∀ kb ∈ (T.mapVals f).blocks, ∃ kb' ∈ T.blocks, kb.1 = kb'.1 ∧ kb.2.shape = kb'.2.shape := by
    intro kb hkb
    simp only [Tensor.mapVals, List.mem_map] at hkb
    obtain ⟨kb', h1, rfl⟩ := hkb
    exact ⟨kb', h1, rfl, rfl⟩
  refine ⟨h.sig, h.ncanon, ?_, ?_, ?_, ?_, ?_, ?_⟩
  · rw [Tensor.keys_mapVals]; exact h.sorted
  · intro kb hkb; obtain ⟨kb', h1, h2, h3⟩ := hb kb hkb; rw [h2, h3]; exact h.keyRank kb' h1
  · intro kb hkb; obtain ⟨kb', h1, h2, _⟩ := hb kb hkb; rw [h2]; exact h.canon kb' h1
  · intro kb hkb; obtain ⟨kb', h1, h2, _⟩ := hb kb hkb; rw [h2]; exact h.rule kb' h1
  · intro kb hkb; obtain ⟨kb', h1, _, h3⟩ := hb kb hkb; rw [h3]; exact h.dimsPos kb' h1
  · intro x hx y hy i hxy
    obtain ⟨x', hx1, hx2, hx3⟩ := hb x hx
    obtain ⟨y', hy1, hy2, hy3⟩ := hb y hy
    rw [hx3, hy3]; rw [hx2, hy2] at hxy
    exact h.dimsCons x' hx1 y' hy1 i hxy

theorem wf_smul [Mul R] (c : R) {T : Tensor R} (h : WF ms T) : WF ms (smul c T) := wf_mapVals _ h
theorem wf_neg [Neg R] {T : Tensor R} (h : WF ms T) : WF ms (neg T) := wf_mapVals _ h
theorem wf_conjBlocks [Conj R] {T : Tensor R} (h : WF ms T) : WF ms (conjBlocks T) := wf_mapVals _ h

/-- element-wise operations, transposition-free reshaping keep the total charge -/
theorem charge_mapVals (f : R → R) (T : Tensor R) : (T.mapVals f).n = T.n ∧ (T.mapVals f).s = T.s := ⟨rfl, rfl⟩

/-! ### conjugation: signature and total charge are negated -/

theorem wf_flipSignature {T : Tensor R} (hd : WSym T.sym ms) (h : WF ms T) : WF ms (flipSignature T) := by
  refine ⟨?_, negCharge_canonical hd _, h.sorted, ?_, h.canon, ?_, h.dimsPos, h.dimsCons⟩
  · intro x hx
    simp only [flipSignature, List.mem_map] at hx
    obtain ⟨y, hy, rfl⟩ := hx
    rcases h.sig y hy with h' | h' <;> subst h' <;> simp
  · intro kb hkb
    have := h.keyRank kb hkb
    simpa [flipSignature, Tensor.rank] using this
  · intro kb hkb
    show chargeOfKey T.sym (T.s.map (fun x => -x)) kb.1 = negCharge T.sym T.n
    rw [conj_rule hd kb.1 T.s (h.keyRank kb hkb).1, h.rule kb hkb]

theorem wf_conj [Conj R] {T : Tensor R} (hd : WSym T.sym ms) (h : WF ms T) : WF ms (conj T) := by
  have h1 : WF ms (T.mapVals Conj.conj) := wf_mapVals _ h
  have h2 := wf_flipSignature (T := T.mapVals Conj.conj) hd h1
  exact h2

/-- **negation for conjugation**: `conj` negates the total charge (group inverse) and every signature -/
theorem charge_conj [Conj R] (T : Tensor R) :
    (conj T).n = negCharge T.sym T.n ∧ (conj T).s = T.s.map (fun x => -x) := ⟨rfl, rfl⟩

/-! ### addition -/

theorem add_ok_iff [Zero R] [Add R] {a b c : Tensor R} (h : add a b = .ok c) :
    a.sym = b.sym ∧ a.rank = b.rank ∧ a.s = b.s ∧ a.n = b.n ∧ a.isdiag = b.isdiag ∧
    jointConsistent a.rank (a.blocks ++ b.blocks) = true ∧
    c = a.ofKeys (a.keys ++ b.keys) (fun k => addBlocks (a.get? k) (b.get? k)) := by
  unfold add at h
  split at h; · cases h
  split at h; · cases h
  split at h; · cases h
  split at h; · cases h
  split at h; · cases h
  split at h; · cases h
  rename_i h1 h2 h3 h4 h5 h6
  simp only [ne_eq, Decidable.not_not] at h1 h2 h3 h4 h5
  simp only [Bool.not_eq_true, Bool.not_eq_false] at h6
  cases h
  exact ⟨h1, h2, h3, h4, h5, by simpa using h6, rfl⟩

theorem wf_add [Zero R] [Add R] {a b c : Tensor R} (ha : WF ms a) (hb : WF ms b) (h : add a b = .ok c) :
    WF ms c := by
  obtain ⟨hsym, hrank, hs, hn, _, hjc, rfl⟩ := add_ok_iff h
  -- every block of the result comes from a block of `a` or of `b` with the same key and shape
  have hsrc : ∀ kb ∈ (a.ofKeys (a.keys ++ b.keys) (fun k => addBlocks (a.get? k) (b.get? k))).blocks,
      ∃ kb' ∈ a.blocks ++ b.blocks, kb.1 = kb'.1 ∧ kb.2.shape = kb'.2.shape := by
    intro kb hkb
    obtain ⟨hk, hv⟩ := Tensor.mem_ofKeys.mp hkb
    rw [hv]
    cases hga : a.get? kb.1 with
    | some ba =>
      refine ⟨(kb.1, ba), List.mem_append_left _ (Tensor.get?_some_mem hga), rfl, ?_⟩
      cases hgb : b.get? kb.1 <;> simp [addBlocks]
    | none =>
      cases hgb : b.get? kb.1 with
      | some bb =>
        exact ⟨(kb.1, bb), List.mem_append_right _ (Tensor.get?_some_mem hgb), rfl, by simp [addBlocks]⟩
      | none =>
        exfalso
        rw [Tensor.get?_none_iff] at hga hgb
        rcases List.mem_append.mp hk with h' | h'
        · exact hga h'
        · exact hgb h'
  have hall : ∀ kb' ∈ a.blocks ++ b.blocks, (kb'.1.length = a.rank ∧ kb'.2.shape.length = a.rank) ∧
      (∀ c ∈ kb'.1, isCanonical ms c = true) ∧ chargeOfKey a.sym a.s kb'.1 = a.n ∧ (∀ d ∈ kb'.2.shape, 0 < d) := by
    intro kb' hkb'
    rcases List.mem_append.mp hkb' with h' | h'
    · exact ⟨ha.keyRank kb' h', ha.canon kb' h', ha.rule kb' h', ha.dimsPos kb' h'⟩
    · refine ⟨?_, hb.canon kb' h', ?_, hb.dimsPos kb' h'⟩
      · rw [hrank]; exact hb.keyRank kb' h'
      · rw [hsym, hs, hn]; exact hb.rule kb' h'
  have hdc : DimsCons (a.blocks ++ b.blocks) :=
    (dimsConsB_iff a.rank _ (fun kb hkb => (hall kb hkb).1)).mp hjc
  refine ⟨ha.sig, ha.ncanon, Tensor.sorted_ofKeys _ _ _, ?_, ?_, ?_, ?_, ?_⟩
  · intro kb hkb; obtain ⟨kb', h1, h2, h3⟩ := hsrc kb hkb; rw [h2, h3]; exact (hall kb' h1).1
  · intro kb hkb; obtain ⟨kb', h1, h2, _⟩ := hsrc kb hkb; rw [h2]; exact (hall kb' h1).2.1
  · intro kb hkb; obtain ⟨kb', h1, h2, _⟩ := hsrc kb hkb; rw [h2]; exact (hall kb' h1).2.2.1
  · intro kb hkb; obtain ⟨kb', h1, _, h3⟩ := hsrc kb hkb; rw [h3]; exact (hall kb' h1).2.2.2
  · intro x hx y hy i hxy
    obtain ⟨x', hx1, hx2, hx3⟩ := hsrc x hx
    obtain ⟨y', hy1, hy2, hy3⟩ := hsrc y hy
    rw [hx3, hy3]; rw [hx2, hy2] at hxy
    exact hdc x' hx1 y' hy1 i hxy

/-- the total charge, signature and symmetry of a sum are those of the operands -/
theorem charge_add [Zero R] [Add R] {a b c : Tensor R} (h : add a b = .ok c) :
    c.n = a.n ∧ c.n = b.n ∧ c.s = a.s ∧ c.sym = a.sym := by
  obtain ⟨_, _, _, hn, _, _, rfl⟩ := add_ok_iff h
  exact ⟨rfl, hn, rfl, rfl⟩

/-- blocks present in only one operand are kept: the key set of a sum is the union -/
theorem keys_add [Zero R] [Add R] {a b c : Tensor R} (h : add a b = .ok c) (k : Key) :
    k ∈ c.keys ↔ k ∈ a.keys ∨ k ∈ b.keys := by
  obtain ⟨_, _, _, _, _, _, rfl⟩ := add_ok_iff h
  rw [Tensor.keys_ofKeys, mem_sortDedup keyLt_strictTotal, List.mem_append]

/-! ### transposition -/

theorem transpose_ok_iff {σ : List Nat} {a c : Tensor R} (h : transpose σ a = .ok c) :
    isPerm a.rank σ = true ∧
    c = { a with s := pick a.s σ,
                 blocks := isort (fun x y => keyLe x.1 y.1) (a.blocks.map (fun kb => (pick kb.1 σ, kb.2.perm σ))) } := by
  unfold transpose at h
  split at h; · cases h
  split at h; · cases h
  rename_i h1 _
  simp only [Bool.not_eq_true, Bool.not_eq_false] at h1
  cases h
  exact ⟨by simpa using h1, rfl⟩

theorem pick_getD {α} [Inhabited α] (l : List α) (σ : List Nat) (i : Nat) (d : α) (hi : i < σ.length) :
    (pick l σ).getD i d = l.getD (σ.getD i 0) default := by
  simp [pick, List.getD, hi]

theorem wf_transpose {σ : List Nat} {a c : Tensor R} (ha : WF ms a) (h : transpose σ a = .ok c) : WF ms c := by
  obtain ⟨hσ, rfl⟩ := transpose_ok_iff h
  have hlen := isPerm_length hσ
  have hlt := isPerm_lt hσ
  -- members of the result
  have hmem : ∀ kb ∈ isort (fun (x y : Key × Block R) => keyLe x.1 y.1) (a.blocks.map (fun kb => (pick kb.1 σ, kb.2.perm σ))),
      ∃ kb' ∈ a.blocks, kb = (pick kb'.1 σ, kb'.2.perm σ) := by
    intro kb hkb
    have := (isort_perm _ _).mem_iff.mp hkb
    obtain ⟨kb', h1, h2⟩ := List.mem_map.mp this
    exact ⟨kb', h1, h2.symm⟩
  refine ⟨?_, ha.ncanon, ?_, ?_, ?_, ?_, ?_, ?_⟩
  · intro x hx
    exact ha.sig x (mem_pick (l := a.s) (fun p hp => hlt p hp) hx)
  · -- sorted
    apply isort_blocks_sorted
    rw [List.map_map]
    have hnd : a.keys.Nodup := nodup_of_pairwise_lt keyLt_strictTotal ha.sorted
    have : (List.map ((fun x => x.1) ∘ fun (kb : Key × Block R) => (pick kb.1 σ, kb.2.perm σ)) a.blocks)
        = a.keys.map (fun k => pick k σ) := by
      simp [Tensor.keys, List.map_map, Function.comp_def]
    rw [this]
    refine List.Nodup.map_on ?_ hnd
    intro k hk k' hk' he
    obtain ⟨kb, hkb, rfl⟩ := List.mem_map.mp hk
    obtain ⟨kb', hkb', rfl⟩ := List.mem_map.mp hk'
    exact pick_injective hσ (ha.keyRank kb hkb).1 (ha.keyRank kb' hkb').1 he
  · intro kb hkb
    obtain ⟨kb', _, rfl⟩ := hmem kb hkb
    simp [Tensor.rank, pick_length, Block.perm]
  · intro kb hkb
    obtain ⟨kb', h1, rfl⟩ := hmem kb hkb
    intro c hc
    have hk := (ha.keyRank kb' h1).1
    exact ha.canon kb' h1 c (mem_pick (l := kb'.1) (fun p hp => by rw [hk]; exact hlt p hp) hc)
  · intro kb hkb
    obtain ⟨kb', h1, rfl⟩ := hmem kb hkb
    have hk := (ha.keyRank kb' h1).1
    show a.sym.fuse (pick kb'.1 σ) (pick a.s σ) 1 = a.n
    rw [fuse_perm kb'.1 a.s σ 1 hk (by rw [hk]; exact isPerm_perm hσ)]
    exact ha.rule kb' h1
  · intro kb hkb
    obtain ⟨kb', h1, rfl⟩ := hmem kb hkb
    intro d hd
    have hk := (ha.keyRank kb' h1).2
    exact ha.dimsPos kb' h1 d (mem_pick (l := kb'.2.shape) (fun p hp => by rw [hk]; exact hlt p hp) hd)
  · intro x hx y hy i hxy
    obtain ⟨x', hx1, rfl⟩ := hmem x hx
    obtain ⟨y', hy1, rfl⟩ := hmem y hy
    by_cases hi : i < σ.length
    · simp only [Block.perm] at hxy ⊢
      rw [pick_getD _ _ _ _ hi, pick_getD _ _ _ _ hi] at hxy
      rw [pick_getD _ _ _ _ hi, pick_getD _ _ _ _ hi]
      exact ha.dimsCons x' hx1 y' hy1 _ hxy
    · simp only [Block.perm]
      have h1 : (pick x'.2.shape σ).length ≤ i := by rw [pick_length]; omega
      have h2 : (pick y'.2.shape σ).length ≤ i := by rw [pick_length]; omega
      simp [List.getD, List.getElem?_eq_none h1, List.getElem?_eq_none h2]

/-- transposition keeps the total charge and permutes the signature -/
theorem charge_transpose {σ : List Nat} {a c : Tensor R} (h : transpose σ a = .ok c) :
    c.n = a.n ∧ c.s = pick a.s σ ∧ c.sym = a.sym := by
  obtain ⟨_, rfl⟩ := transpose_ok_iff h
  exact ⟨rfl, rfl, rfl⟩

/-! ### contraction -/

/-- the candidate blocks of a contraction: one per pair of operand blocks with equal contracted charges -/
def dotCands [Zero R] [Add R] [Mul R] (a b : Tensor R) (inA inB : List Nat) : List (Key × Block R) :=
  let outA := complementAxes a.rank inA
  let outB := complementAxes b.rank inB
  (a.blocks.flatMap (fun ka => (b.blocks.filter (fun kb => pick ka.1 inA == pick kb.1 inB)).map (fun kb => (ka, kb)))).map
    (fun p => (pick p.1.1 outA ++ pick p.2.1 outB, dotBlocks a.rank b.rank outA inA inB outB p.1.2 p.2.2))

theorem tensordot_ok_iff [Zero R] [Add R] [Mul R] {a b c : Tensor R} {inA inB : List Nat}
    (h : tensordot a b inA inB = .ok c) :
    a.sym = b.sym ∧ inA.length = inB.length ∧ inA.Nodup ∧ inB.Nodup ∧ (∀ p ∈ inA, p < a.rank) ∧ (∀ p ∈ inB, p < b.rank) ∧
    pick a.s inA = (pick b.s inB).map (fun x => -x) ∧
    c = { sym := a.sym, s := pick a.s (complementAxes a.rank inA) ++ pick b.s (complementAxes b.rank inB),
          n := a.sym.fuse [a.n, b.n] [1, 1] 1, isdiag := false,
          blocks := (sortDedup keyLt ((dotCands a b inA inB).map (·.1))).map (fun k =>
            (k, sumBlocks (((dotCands a b inA inB).filter (fun kb => kb.1 == k)).map (·.2)))) } ∧
    jointConsistent c.rank c.blocks = true := by
  unfold tensordot at h
  split at h; · cases h
  split at h; · cases h
  split at h; · cases h
  simp only at h
  split at h; · cases h
  split at h; · cases h
  rename_i h1 h2 h3 h4 h5
  simp only [ne_eq, Decidable.not_not] at h1 h3
  simp only [not_or, Decidable.not_not, nodupB, decide_eq_true_eq, List.all_eq_true] at h2
  obtain ⟨h2a, h2b, h2c, h2d, h2e⟩ := h2
  simp only [Bool.not_eq_true, Bool.not_eq_false] at h5
  cases h
  exact ⟨h1, h2a, h2b, h2c, fun p hp => by simpa using h2d p hp, fun p hp => by simpa using h2e p hp, h3, rfl, by simpa using h5⟩

theorem mem_dotCands [Zero R] [Add R] [Mul R] {a b : Tensor R} {inA inB : List Nat} {kb : Key × Block R}
    (h : kb ∈ dotCands a b inA inB) :
    ∃ ka ∈ a.blocks, ∃ kb' ∈ b.blocks, pick ka.1 inA = pick kb'.1 inB ∧
      kb.1 = pick ka.1 (complementAxes a.rank inA) ++ pick kb'.1 (complementAxes b.rank inB) ∧
      kb.2.shape = pick ka.2.shape (complementAxes a.rank inA) ++ pick kb'.2.shape (complementAxes b.rank inB) := by
  unfold dotCands at h
  simp only [List.mem_map, List.mem_flatMap, List.mem_filter, beq_iff_eq] at h
  obtain ⟨p, ⟨ka, hka, kb', ⟨hkb', hm⟩, rfl⟩, rfl⟩ := h
  exact ⟨ka, hka, kb', hkb', hm, rfl, rfl⟩

theorem wf_tensordot [Zero R] [Add R] [Mul R] {a b c : Tensor R} {inA inB : List Nat}
    (hd : WSym a.sym ms) (ha : WF ms a) (hb : WF ms b) (h : tensordot a b inA inB = .ok c) : WF ms c := by
  obtain ⟨hsym, hlen, hndA, hndB, hltA, hltB, hsig, hc, hjc⟩ := tensordot_ok_iff h
  -- every block of the result has the key and the shape of some candidate
  have hsrc : ∀ x ∈ c.blocks, ∃ kb ∈ dotCands a b inA inB, x.1 = kb.1 ∧ x.2.shape = kb.2.shape := by
    intro x hx
    rw [hc] at hx
    simp only [List.mem_map] at hx
    obtain ⟨k, hk, rfl⟩ := hx
    have hk' := (mem_sortDedup keyLt_strictTotal k _).mp hk
    obtain ⟨kb, hkb, rfl⟩ := List.mem_map.mp hk'
    -- the filtered list is non-empty; its head is a candidate with key kb.1
    cases hf : (dotCands a b inA inB).filter (fun y => y.1 == kb.1) with
    | nil =>
      exfalso
      have : kb ∈ (dotCands a b inA inB).filter (fun y => y.1 == kb.1) := List.mem_filter.mpr ⟨hkb, by simp⟩
      rw [hf] at this; cases this
    | cons y ys =>
      have hy : y ∈ (dotCands a b inA inB).filter (fun z => z.1 == kb.1) := by rw [hf]; simp
      obtain ⟨hy1, hy2⟩ := List.mem_filter.mp hy
      refine ⟨y, hy1, ?_, ?_⟩
      · simpa using (beq_iff_eq.mp hy2).symm
      · simp [sumBlocks_shape]
  have hrank : c.rank = (complementAxes a.rank inA).length + (complementAxes b.rank inB).length := by
    rw [hc]; simp [Tensor.rank, pick_length]
  have hkr : ∀ x ∈ c.blocks, x.1.length = c.rank ∧ x.2.shape.length = c.rank := by
    intro x hx
    obtain ⟨kb, hkb, h1, h2⟩ := hsrc x hx
    obtain ⟨ka, _, kb', _, _, h3, h4⟩ := mem_dotCands hkb
    rw [h1, h2, h3, h4, hrank]
    simp [pick_length]
  have hcs : c.s = pick a.s (complementAxes a.rank inA) ++ pick b.s (complementAxes b.rank inB) := by rw [hc]
  have hcn : c.n = a.sym.fuse [a.n, b.n] [1, 1] 1 := by rw [hc]
  have hcsym : c.sym = a.sym := by rw [hc]
  refine ⟨?_, ?_, ?_, hkr, ?_, ?_, ?_, ?_⟩
  · intro x hx
    rw [hcs] at hx
    rcases List.mem_append.mp hx with h' | h'
    · exact ha.sig x (mem_pick (l := a.s) (fun p hp => mem_complement hp) h')
    · exact hb.sig x (mem_pick (l := b.s) (fun p hp => mem_complement hp) h')
  · rw [hcn]; exact fuse_range hd _ _ _
  · rw [hc]
    simp only [Tensor.keys, List.map_map, Function.comp_def, List.map_id']
    exact pairwise_sortDedup keyLt_strictTotal _
  · intro x hx ch hch
    obtain ⟨kb, hkb, h1, _⟩ := hsrc x hx
    obtain ⟨ka, hka, kb', hkb', _, h3, _⟩ := mem_dotCands hkb
    rw [h1, h3] at hch
    rcases List.mem_append.mp hch with h' | h'
    · exact ha.canon ka hka ch (mem_pick (l := ka.1) (fun p hp => by rw [(ha.keyRank ka hka).1]; exact mem_complement hp) h')
    · exact hb.canon kb' hkb' ch (mem_pick (l := kb'.1) (fun p hp => by rw [(hb.keyRank kb' hkb').1]; exact mem_complement hp) h')
  · intro x hx
    obtain ⟨kb, hkb, h1, _⟩ := hsrc x hx
    obtain ⟨ka, hka, kb', hkb', hm, h3, _⟩ := mem_dotCands hkb
    have hka1 := (ha.keyRank ka hka).1
    have hkb1 := (hb.keyRank kb' hkb').1
    show c.sym.fuse x.1 c.s 1 = c.n
    rw [hcsym, hcs, hcn, h1, h3]
    rw [contract_rule hd ka.1 kb'.1 a.s b.s (complementAxes a.rank inA) inA (complementAxes b.rank inB) inB
      hka1 hkb1 (by rw [hka1]; exact complement_perm a.rank inA hndA hltA)
      (by rw [hkb1]; exact complement_perm b.rank inB hndB hltB) hm hsig]
    have r1 := ha.rule ka hka
    have r2 := hb.rule kb' hkb'
    unfold chargeOfKey at r1 r2
    rw [← hsym] at r2
    rw [r1, r2]
  · intro x hx dd hdd
    obtain ⟨kb, hkb, _, h2⟩ := hsrc x hx
    obtain ⟨ka, hka, kb', hkb', _, _, h4⟩ := mem_dotCands hkb
    rw [h2, h4] at hdd
    rcases List.mem_append.mp hdd with h' | h'
    · exact ha.dimsPos ka hka dd (mem_pick (l := ka.2.shape) (fun p hp => by rw [(ha.keyRank ka hka).2]; exact mem_complement hp) h')
    · exact hb.dimsPos kb' hkb' dd (mem_pick (l := kb'.2.shape) (fun p hp => by rw [(hb.keyRank kb' hkb').2]; exact mem_complement hp) h')
  · exact (dimsConsB_iff c.rank c.blocks hkr).mp hjc

/-- **sum for contractions**: the total charge of `tensordot a b` is the group sum `a.n + b.n`; the result
signature is the remaining signature of `a` followed by that of `b` -/
theorem charge_tensordot [Zero R] [Add R] [Mul R] {a b c : Tensor R} {inA inB : List Nat}
    (h : tensordot a b inA inB = .ok c) :
    c.n = gadd a.sym a.n b.n ∧
    c.s = pick a.s (complementAxes a.rank inA) ++ pick b.s (complementAxes b.rank inB) := by
  obtain ⟨_, _, _, _, _, _, _, hc, _⟩ := tensordot_ok_iff h
  rw [hc]; exact ⟨rfl, rfl⟩

/-! ### symmetry-forbidden elements vanish -/

/-- **every dense element outside the symmetry-allowed sectors is zero**: if the leg charges located by a
dense multi-index do not satisfy the selection rule, the dense array holds `0` there — for any leg spaces
`L` (also with extra sectors), any well-formed tensor. -/
theorem toDense_zero_of_forbidden [Zero R] {T : Tensor R} (h : WF ms T) (L : List LegSpace) (idx : List Nat)
    (hf : chargeOfKey T.sym T.s (keyAt L idx T.rank) ≠ T.n) :
    toDenseOn L T idx = 0 := by
  unfold toDenseOn
  split
  · split
    · rfl
    · rename_i b hb
      exact absurd (h.rule _ (Tensor.get?_some_mem hb)) hf
  · rfl

/-! ### the driver's executable check is sound for `WF` -/

theorem pairwise_of_adjacent {α} {r : α → α → Bool} (htr : ∀ a b c, r a b = true → r b c = true → r a c = true)
    (l : List α) (h : (l.zip l.tail).all (fun ab => r ab.1 ab.2) = true) : l.Pairwise (fun a b => r a b = true) := by
  induction l with
  | nil => exact List.Pairwise.nil
  | cons x xs ih =>
    cases xs with
    | nil => simp
    | cons y ys =>
      simp only [List.tail_cons, List.zip_cons_cons, List.all_cons, Bool.and_eq_true] at h
      have ih' := ih (by simpa using h.2)
      refine List.Pairwise.cons ?_ ih'
      rw [List.pairwise_cons] at ih'
      intro b hb
      rcases List.mem_cons.mp hb with rfl | hb
      · exact h.1
      · exact htr _ _ _ h.1 (ih'.1 b hb)

/-- what the driver reports as `wf` on every result implies the invariant `WF` -/
theorem wfCheck_sound {T : Tensor R} (h : wfCheck ms T = true) : WF ms T := by
  unfold wfCheck at h
  simp only [Bool.and_eq_true, List.all_eq_true, Bool.or_eq_true, beq_iff_eq, decide_eq_true_eq] at h
  obtain ⟨⟨⟨⟨h1, h2⟩, h3⟩, h4⟩, h5⟩ := h
  have hkr : ∀ kb ∈ T.blocks, kb.1.length = T.rank ∧ kb.2.shape.length = T.rank :=
    fun kb hkb => ⟨(h4 kb hkb).1.1.1.1, (h4 kb hkb).1.1.1.2⟩
  refine ⟨h1, h2, ?_, hkr, ?_, ?_, ?_, ?_⟩
  · apply pairwise_of_adjacent keyLt_trans
    rw [List.all_eq_true]; exact h3
  · intro kb hkb c hc; exact (h4 kb hkb).1.1.2 c hc
  · intro kb hkb; exact (h4 kb hkb).1.2
  · intro kb hkb d hd; exact (h4 kb hkb).2 d hd
  · exact (dimsConsB_iff T.rank T.blocks hkr).mp h5

/-! ### non-vacuity: concrete well-formed operands exist and the operations accept them -/

section examples
open SymGen

/-- a U1 matrix with two blocks, signature (1,-1), charge 0 -/
def exA : Tensor Int :=
  { sym := sym_U1, s := [1, -1], n := [0], isdiag := false,
    blocks := [([[0], [0]], ⟨[1, 2], fun _ => 1⟩), ([[1], [1]], ⟨[2, 1], fun _ => 2⟩)] }

/-- a U1 vector-like tensor of charge 1 contracting with `exA`'s second leg -/
def exB : Tensor Int :=
  { sym := sym_U1, s := [1, 1], n := [1], isdiag := false,
    blocks := [([[0], [1]], ⟨[2, 3], fun _ => 1⟩), ([[1], [0]], ⟨[1, 1], fun _ => 5⟩)] }

instance : Conj Int := ⟨id⟩

example : WSym sym_U1 [0] := by unfold WSym; decide
example : WF [0] exA := wfCheck_sound (by decide)
example : WF [0] exB := wfCheck_sound (by decide)
example : (tensordot exA exB [1] [0]).toOption.map (fun c => (c.n, c.s, c.keys))
    = some ([1], [1, 1], [[[0], [1]], [[1], [0]]]) := by decide
example : (add exA exA).toOption.map (·.keys) = some [[[0], [0]], [[1], [1]]] := by decide
example : (transpose [1, 0] exA).toOption.map (fun c => (c.s, c.keys)) = some ([-1, 1], [[[0], [0]], [[1], [1]]]) := by decide
example : (runProg [exA, exB] [Step.tensordot 0 1 [1] [0], Step.conj 2, Step.transpose [1, 0] 3]).toOption.map
    (fun vs => vs.map (fun t => (t.n, t.s))) =
    some [([0], [1, -1]), ([1], [1, 1]), ([1], [1, 1]), ([-1], [-1, -1]), ([-1], [-1, -1])] := by decide

end examples

end YModel
