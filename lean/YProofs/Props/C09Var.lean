import Mathlib.Analysis.InnerProductSpace.Rayleigh
/-!
# C09 — the variational clause ("the energy is never below the lowest eigenvalue of H in that sector")

The schedule / freshness part of C09 is in `YProofs/Props/C09.lean`.  This file carries the linear-algebra part, stated on
the abstract objects the harness observes on the real code: the sector of the Hilbert space is a finite-dimensional
inner-product space `E` over ℝ or ℂ (`numpy` float64 / complex128 runs), `H` restricted to the sector is a symmetric
(Hermitian) linear map `T`, the energy `dmrg_` reports for the returned state `x ≠ 0` is the Rayleigh quotient
`re ⟪T x, x⟫ / ‖x‖²` (that this is what `measure()` computes from fresh environments is `dmrg_exit_state` + the C06 recursion).

What ties it to /repo: the dense oracles of `harness/props/c09.py` evaluate exactly these quantities on real `dmrg_` runs
(`numpy.linalg.eigvalsh` of the dense sector block, dense `<psi|H|psi>/<psi|psi>`); the theorem says the inequality they test
is a mathematical necessity for EVERY Hermitian `H` and EVERY state, so an observed violation can only come from the code
(wrong environment, wrong sector, energy not the expectation value), never from the choice of the Hamiltonian.

Not modelled: floating-point round-off (the oracles use a stated tolerance), the Lanczos iteration itself (C18).
-/

open Module.End RCLike

namespace YProofs.C09Var

variable {𝕜 : Type*} [RCLike 𝕜] {E : Type*} [NormedAddCommGroup E] [InnerProductSpace 𝕜 E]
  [FiniteDimensional 𝕜 E]

/-- the Rayleigh quotient of a linear map on a finite-dimensional space is bounded below (by `-‖T‖`) -/
theorem rayleigh_bddBelow (T : E →ₗ[𝕜] E) :
    BddBelow (Set.range fun x : { x : E // x ≠ 0 } => RCLike.re (inner 𝕜 (T x) (x : E)) / ‖(x : E)‖ ^ 2) := by
  refine ⟨-‖LinearMap.toContinuousLinearMap T‖, ?_⟩
  rintro _ ⟨x, rfl⟩
  have h := (LinearMap.toContinuousLinearMap T).rayleighQuotient_le_norm (x : E)
  have := (abs_le.mp h).1
  simpa [ContinuousLinearMap.rayleighQuotient, ContinuousLinearMap.reApplyInnerSelf_apply] using this

/-- **`energy_ge_lambda_min`** (clause "it is never below the lowest eigenvalue of H in that sector").
For every Hermitian `T` on a non-trivial finite-dimensional sector there is a real number `μ` such that
* `μ` is an eigenvalue of `T`,
* `μ` is the lowest one: `μ ≤ ν` for every real eigenvalue `ν` (all eigenvalues of a Hermitian map are real),
* the energy `re ⟪T x, x⟫ / ‖x‖²` of EVERY non-zero state `x` (normalised or not, canonical or not, any bond dimension) is `≥ μ`. -/
theorem energy_ge_lambda_min [Nontrivial E] (T : E →ₗ[𝕜] E) (hT : T.IsSymmetric) :
    ∃ μ : ℝ, HasEigenvalue T (μ : 𝕜) ∧
      (∀ x : E, x ≠ 0 → μ ≤ RCLike.re (inner 𝕜 (T x) x) / ‖x‖ ^ 2) ∧
      (∀ ν : ℝ, HasEigenvalue T (ν : 𝕜) → μ ≤ ν) := by
  refine ⟨_, hT.hasEigenvalue_iInf_of_finiteDimensional, ?_, ?_⟩
  · intro x hx
    exact ciInf_le (rayleigh_bddBelow T) ⟨x, hx⟩
  · intro ν hν
    obtain ⟨v, hv⟩ := hν.exists_hasEigenvector
    have hv0 : v ≠ 0 := hv.2
    have h1 := ciInf_le (rayleigh_bddBelow T) ⟨v, hv0⟩
    have hTv : T v = (ν : 𝕜) • v := hv.apply_eq_smul
    have hn : ‖v‖ ^ 2 ≠ 0 := by positivity
    have : RCLike.re (inner 𝕜 (T v) v) / ‖v‖ ^ 2 = ν := by
      rw [hTv, inner_smul_left, inner_self_eq_norm_sq_to_K]
      simp only [RCLike.conj_ofReal]
      rw [← RCLike.ofReal_pow, ← RCLike.ofReal_mul, RCLike.ofReal_re]
      field_simp
    simpa [this] using h1

omit [FiniteDimensional 𝕜 E] in
/-- **`eigenstate_energy`** (clause "a converged run ends in an eigenstate … the reported energy equals the expectation
value"): the energy of an eigenvector is its eigenvalue, so for a converged run the reported energy is an eigenvalue of `H`
in the sector and the residual `‖T x − E x‖` the oracle evaluates is exactly zero in exact arithmetic. -/
theorem eigenstate_energy (T : E →ₗ[𝕜] E) (ν : ℝ) (v : E) (hv : HasEigenvector T (ν : 𝕜) v) :
    RCLike.re (inner 𝕜 (T v) v) / ‖v‖ ^ 2 = ν ∧ T v - ((RCLike.re (inner 𝕜 (T v) v) / ‖v‖ ^ 2 : ℝ) : 𝕜) • v = 0 := by
  have hv0 : v ≠ 0 := hv.2
  have hTv : T v = (ν : 𝕜) • v := hv.apply_eq_smul
  have hn : ‖v‖ ^ 2 ≠ 0 := by positivity
  have h : RCLike.re (inner 𝕜 (T v) v) / ‖v‖ ^ 2 = ν := by
    rw [hTv, inner_smul_left, inner_self_eq_norm_sq_to_K]
    simp only [RCLike.conj_ofReal]
    rw [← RCLike.ofReal_pow, ← RCLike.ofReal_mul, RCLike.ofReal_re]
    field_simp
  exact ⟨h, by rw [h, hTv, sub_self]⟩

/-! ### non-vacuity: the hypotheses are satisfiable on a concrete non-trivial sector -/

/-- the identity on ℝ² (Euclidean) is symmetric; the sector is non-trivial and finite-dimensional -/
example : (LinearMap.id : EuclideanSpace ℝ (Fin 2) →ₗ[ℝ] EuclideanSpace ℝ (Fin 2)).IsSymmetric := fun _ _ => rfl

example : ∃ μ : ℝ, HasEigenvalue (LinearMap.id : EuclideanSpace ℝ (Fin 2) →ₗ[ℝ] EuclideanSpace ℝ (Fin 2)) μ :=
  let ⟨μ, h, _⟩ := energy_ge_lambda_min (𝕜 := ℝ) (LinearMap.id : EuclideanSpace ℝ (Fin 2) →ₗ[ℝ] EuclideanSpace ℝ (Fin 2))
    (fun _ _ => rfl)
  ⟨μ, by simpa using h⟩

end YProofs.C09Var
