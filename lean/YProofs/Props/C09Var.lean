import Mathlib.Analysis.InnerProductSpace.Rayleigh
import Mathlib.Analysis.InnerProductSpace.Adjoint
/-!
# C09 — the variational clause ("the energy is never below the lowest eigenvalue of H in that sector")

The schedule / freshness part of C09 is in `YProofs/Props/C09.lean`.  This file carries the linear-algebra part, stated on
the abstract objects the harness observes on the real code: the sector of the Hilbert space is a finite-dimensional
inner-product space `E` over ℝ or ℂ (`numpy` float64 / complex128 runs), `H` restricted to the sector is a symmetric
(Hermitian) linear map `T`, the energy `dmrg_` reports for the returned state `x ≠ 0` is the Rayleigh quotient
`re ⟪T x, x⟫ / ‖x‖²` (that this is what `measure()` computes from fresh environments is `dmrg_exit_state` + the C06 recursion).

What ties it to /repo: the dense oracles of `harness/props/c09.py` evaluate exactly these quantities on real `dmrg_` runs
(`numpy.linalg.eigvalsh` of the dense sector block, dense `<psi|H|psi>/<psi|psi>`); the theorem says the inequality they test
is a mathematical necessity for EVERY Hermitian `H` and EVERY state, so an observed violation can only come from the code
(wrong environment, wrong sector, energy not the expectation value), never from the choice of the Hamiltonian.

Not modelled: floating-point round-off (the oracles use a stated tolerance), the Lanczos iteration itself (C18).
-/

open Module.End RCLike

namespace YProofs.C09Var

variable {𝕜 : Type*} [RCLike 𝕜] {E : Type*} [NormedAddCommGroup E] [InnerProductSpace 𝕜 E]
  [FiniteDimensional 𝕜 E]

/-- the Rayleigh quotient of a linear map on a finite-dimensional space is bounded below (by `-‖T‖`) -/
theorem rayleigh_bddBelow (T : E →ₗ[𝕜] E) :
    BddBelow (Set.range fun x : { x : E // x ≠ 0 } => RCLike.re (inner 𝕜 (T x) (x : E)) / ‖(x : E)‖ ^ 2) := by
  refine ⟨-‖LinearMap.toContinuousLinearMap T‖, ?_⟩
  rintro _ ⟨x, rfl⟩
  have h := (LinearMap.toContinuousLinearMap T).rayleighQuotient_le_norm (x : E)
  have := (abs_le.mp h).1
  simpa [ContinuousLinearMap.rayleighQuotient, ContinuousLinearMap.reApplyInnerSelf_apply] using this

/-- **`energy_ge_lambda_min`** (clause "it is never below the lowest eigenvalue of H in that sector").
For every Hermitian `T` on a non-trivial finite-dimensional sector there is a real number `μ` such that
* `μ` is an eigenvalue of `T`,
* `μ` is the lowest one: `μ ≤ ν` for every real eigenvalue `ν` (all eigenvalues of a Hermitian map are real),
* the energy `re ⟪T x, x⟫ / ‖x‖²` of EVERY non-zero state `x` (normalised or not, canonical or not, any bond dimension) is `≥ μ`. -/
theorem energy_ge_lambda_min [Nontrivial E] (T : E →ₗ[𝕜] E) (hT : T.IsSymmetric) :
    ∃ μ : ℝ, HasEigenvalue T (μ : 𝕜) ∧
      (∀ x : E, x ≠ 0 → μ ≤ RCLike.re (inner 𝕜 (T x) x) / ‖x‖ ^ 2) ∧
      (∀ ν : ℝ, HasEigenvalue T (ν : 𝕜) → μ ≤ ν) := by
  refine ⟨_, hT.hasEigenvalue_iInf_of_finiteDimensional, ?_, ?_⟩
  · intro x hx
    exact ciInf_le (rayleigh_bddBelow T) ⟨x, hx⟩
  · intro ν hν
    obtain ⟨v, hv⟩ := hν.exists_hasEigenvector
    have hv0 : v ≠ 0 := hv.2
    have h1 := ciInf_le (rayleigh_bddBelow T) ⟨v, hv0⟩
    have hTv : T v = (ν : 𝕜) • v := hv.apply_eq_smul
    have hn : ‖v‖ ^ 2 ≠ 0 := by positivity
    have : RCLike.re (inner 𝕜 (T v) v) / ‖v‖ ^ 2 = ν := by
      rw [hTv, inner_smul_left, inner_self_eq_norm_sq_to_K]
      simp only [RCLike.conj_ofReal]
      rw [← RCLike.ofReal_pow, ← RCLike.ofReal_mul, RCLike.ofReal_re]
      field_simp
    simpa [this] using h1

omit [FiniteDimensional 𝕜 E] in
/-- **`eigenstate_energy`** (clause "a converged run ends in an eigenstate … the reported energy equals the expectation
value"): the energy of an eigenvector is its eigenvalue, so for a converged run the reported energy is an eigenvalue of `H`
in the sector and the residual `‖T x − E x‖` the oracle evaluates is exactly zero in exact arithmetic. -/
theorem eigenstate_energy (T : E →ₗ[𝕜] E) (ν : ℝ) (v : E) (hv : HasEigenvector T (ν : 𝕜) v) :
    RCLike.re (inner 𝕜 (T v) v) / ‖v‖ ^ 2 = ν ∧ T v - ((RCLike.re (inner 𝕜 (T v) v) / ‖v‖ ^ 2 : ℝ) : 𝕜) • v = 0 := by
  have hv0 : v ≠ 0 := hv.2
  have hTv : T v = (ν : 𝕜) • v := hv.apply_eq_smul
  have hn : ‖v‖ ^ 2 ≠ 0 := by positivity
  have h : RCLike.re (inner 𝕜 (T v) v) / ‖v‖ ^ 2 = ν := by
    rw [hTv, inner_smul_left, inner_self_eq_norm_sq_to_K]
    simp only [RCLike.conj_ofReal]
    rw [← RCLike.ofReal_pow, ← RCLike.ofReal_mul, RCLike.ofReal_re]
    field_simp
  exact ⟨h, by rw [h, hTv, sub_self]⟩

/-! ### the local step ("it does not increase from sweep to sweep when no truncation binds")

With the environments fresh (`dmrg_reads_fresh`) and the other sites canonical (`dmrg_exit_gauge` and the sweep invariant),
the map `V` from the local tensor (one site, or two merged sites) to the full state is a linear isometry and the operator
`Heff1/Heff2` applies is `V† T V`.  The local ground state of that operator has an energy — in the FULL problem — that is
not above the energy of any other local tensor, in particular of the tensor the solve was started from. -/

section local_step
variable {F : Type*} [NormedAddCommGroup F] [InnerProductSpace 𝕜 F] [FiniteDimensional 𝕜 F]

/-- effective Hamiltonian of a local problem: `V† T V` for the isometry `V` embedding the local tensor space -/
noncomputable def heff (V : F →ₗᵢ[𝕜] E) (T : E →ₗ[𝕜] E) : F →ₗ[𝕜] F :=
  (LinearMap.adjoint V.toLinearMap) ∘ₗ T ∘ₗ V.toLinearMap

/-- matrix elements of the effective Hamiltonian are matrix elements of `H` between the embedded states -/
theorem heff_inner (V : F →ₗᵢ[𝕜] E) (T : E →ₗ[𝕜] E) (y z : F) :
    inner 𝕜 (heff V T y) z = inner 𝕜 (T (V y)) (V z) := by
  simp [heff, LinearMap.adjoint_inner_left]

/-- the effective Hamiltonian of a Hermitian `H` is Hermitian (what `eigs(hermitian=True)` relies on) -/
theorem heff_symmetric (V : F →ₗᵢ[𝕜] E) (T : E →ₗ[𝕜] E) (hT : T.IsSymmetric) : (heff V T).IsSymmetric := by
  intro y z
  rw [heff_inner, ← inner_conj_symm y (heff V T z), heff_inner, inner_conj_symm]
  exact hT _ _

/-- **`local_solve_nonincreasing`** (clause "does not increase from sweep to sweep when no truncation binds", one local
step): the local problem has a lowest eigenpair `(μ, y₁)`; the energy of the embedded state `V y₁` in the full problem is
`μ`, and it is ≤ the full-problem energy of `V y₀` for EVERY local tensor `y₀ ≠ 0` — in particular the current tensor, which
is the start vector of the local solve.  (That `eigs` returns this eigenpair is the validated solver contract, C18.) -/
theorem local_solve_nonincreasing [Nontrivial F] (V : F →ₗᵢ[𝕜] E) (T : E →ₗ[𝕜] E) (hT : T.IsSymmetric) :
    ∃ (μ : ℝ) (y₁ : F), HasEigenvector (heff V T) (μ : 𝕜) y₁ ∧
      RCLike.re (inner 𝕜 (T (V y₁)) (V y₁)) / ‖V y₁‖ ^ 2 = μ ∧
      ∀ y₀ : F, y₀ ≠ 0 → μ ≤ RCLike.re (inner 𝕜 (T (V y₀)) (V y₀)) / ‖V y₀‖ ^ 2 := by
  obtain ⟨μ, hμ, hle, -⟩ := energy_ge_lambda_min (heff V T) (heff_symmetric V T hT)
  obtain ⟨y₁, hy₁⟩ := hμ.exists_hasEigenvector
  refine ⟨μ, y₁, hy₁, ?_, ?_⟩
  · have := (eigenstate_energy (heff V T) μ y₁ hy₁).1
    rwa [heff_inner, ← V.norm_map y₁] at this
  · intro y₀ h0
    have := hle y₀ h0
    rwa [heff_inner, ← V.norm_map y₀] at this

end local_step

/-! ### non-vacuity: the hypotheses are satisfiable on a concrete non-trivial sector -/

/-- the identity on ℝ² (Euclidean) is symmetric; the sector is non-trivial and finite-dimensional -/
example : (LinearMap.id : EuclideanSpace ℝ (Fin 2) →ₗ[ℝ] EuclideanSpace ℝ (Fin 2)).IsSymmetric := fun _ _ => rfl

example : ∃ μ : ℝ, HasEigenvalue (LinearMap.id : EuclideanSpace ℝ (Fin 2) →ₗ[ℝ] EuclideanSpace ℝ (Fin 2)) μ :=
  let ⟨μ, h, _⟩ := energy_ge_lambda_min (𝕜 := ℝ) (LinearMap.id : EuclideanSpace ℝ (Fin 2) →ₗ[ℝ] EuclideanSpace ℝ (Fin 2))
    (fun _ _ => rfl)
  ⟨μ, by simpa using h⟩

/-- the identity embedding is a linear isometry: the local-step theorem applies (with `F = E`) -/
example : ∃ (μ : ℝ) (y₁ : EuclideanSpace ℝ (Fin 2)),
    HasEigenvector (heff (LinearIsometry.id) (LinearMap.id : EuclideanSpace ℝ (Fin 2) →ₗ[ℝ] EuclideanSpace ℝ (Fin 2))) (μ : ℝ) y₁ :=
  let ⟨μ, y₁, h, _⟩ := local_solve_nonincreasing (𝕜 := ℝ) (LinearIsometry.id)
    (LinearMap.id : EuclideanSpace ℝ (Fin 2) →ₗ[ℝ] EuclideanSpace ℝ (Fin 2)) (fun _ _ => rfl)
  ⟨μ, y₁, h⟩

end YProofs.C09Var
