import YProofs.Props.C03Elem
/-!
# C02/C03 (continued) — hard fusion preserves well-formedness

`wf_fuseHard`: for every well-formed tensor of every symmetry and every partition of its legs into groups (in any order), the
result of `fuse_legs(mode='hard')` is well-formed: signatures ±1, canonical charges, strictly ascending unique keys, keys and
shapes of the new rank, the selection rule under the group law (via the grouping law of C19), positive and consistent
dimensions.  Together with `eval_wf` (C02Prog) this extends "every value a program produces is well-formed" across a fusion.
-/
namespace YModel
variable {R : Type} {ms : List Nat}

theorem le_foldl_add (l : List Nat) (a : Nat) : a ≤ l.foldl (· + ·) a := by
  induction l generalizing a with
  | nil => exact Nat.le_refl _
  | cons x xs ih => exact Nat.le_trans (Nat.le_add_right a x) (ih (a + x))

theorem foldl_add_mono (l : List Nat) (a b : Nat) (h : a ≤ b) : l.foldl (· + ·) a ≤ l.foldl (· + ·) b := by
  induction l generalizing a b with
  | nil => exact h
  | cons x xs ih => exact ih _ _ (Nat.add_le_add_right h x)

theorem decSize_le_sectorDim (ds : List Dec) (d : Dec) (hd : d ∈ ds) : decSize d ≤ sectorDim ds := by
  unfold sectorDim
  induction ds with
  | nil => cases hd
  | cons x xs ih =>
    simp only [List.map_cons, List.foldl_cons, Nat.zero_add]
    cases hd with
    | head => exact le_foldl_add _ _
    | tail _ h => exact Nat.le_trans (ih h) (foldl_add_mono _ _ _ (Nat.zero_le _))

theorem prodL_pos (l : List Nat) (h : ∀ d ∈ l, 0 < d) : 0 < prodL l := by
  induction l with
  | nil => exact Nat.one_pos
  | cons x xs ih =>
    unfold prodL
    exact Nat.mul_pos (h x (by simp)) (ih (fun d hd => h d (by simp [hd])))

theorem mem_pick_of_lt {α} [Inhabited α] (l : List α) (g : List Nat) (hg : ∀ i ∈ g, i < l.length) :
    ∀ x ∈ pick l g, x ∈ l := by
  intro x hx
  unfold pick at hx
  obtain ⟨i, hi, rfl⟩ := List.mem_map.mp hx
  have := hg i hi
  rw [List.getD_eq_getElem?_getD, List.getElem?_eq_getElem this]
  exact List.getElem_mem this

/-- **hard fusion preserves well-formedness** -/
theorem wf_fuseHard [Zero R] {T F : Tensor R} (hd : WSym T.sym ms) (h : WF ms T) (groups : List (List Nat))
    (hf : fuseHard T groups = .ok F) : WF ms F := by
  have hstruct := charge_fuseHard hf
  have hsorted := sorted_fuseHard hf
  unfold fuseHard at hf
  split at hf; · cases hf
  rename_i hp
  split at hf; · cases hf
  cases hf
  have hpart : isPartition T.rank groups = true := by
    by_contra hc
    exact hp (Or.inl hc)
  have hgl : ∀ g ∈ groups, ∀ l ∈ g, l < T.rank := fun g hg l hl =>
    isPerm_lt hpart l (List.mem_flatten.mpr ⟨g, hg, hl⟩)
  -- every block of the fused tensor comes from a block of T
  have hfrom : ∀ x ∈ (sortDedup keyLt (T.blocks.map (fun kb => fusedKey T groups kb.1))).map (fun K =>
      (K, (⟨(List.range groups.length).map (fun i => sectorDim (sectorDecs T (groups.getD i []) (K.getD i []))),
            fusedVal T groups K⟩ : Block R))),
      ∃ kb ∈ T.blocks, x.1 = fusedKey T groups kb.1 ∧
        x.2.shape = (List.range groups.length).map (fun i => sectorDim (sectorDecs T (groups.getD i []) (x.1.getD i []))) := by
    intro x hx
    obtain ⟨K, hK, rfl⟩ := List.mem_map.mp hx
    obtain ⟨kb, hkb, rfl⟩ := List.mem_map.mp ((mem_sortDedup keyLt_strictTotal _ _).mp hK)
    exact ⟨kb, hkb, rfl, rfl⟩
  refine ⟨?_, h.ncanon, hsorted, ?_, ?_, ?_, ?_, ?_⟩
  · -- signatures
    intro x hx
    obtain ⟨g, _, rfl⟩ := List.mem_map.mp hx
    exact groupSig_sign h g
  · -- ranks of keys and shapes
    intro x hx
    obtain ⟨kb, _, h1, h2⟩ := hfrom x hx
    rw [h1, h2]
    simp [Tensor.rank, fusedKey]
  · -- canonical charges
    intro x hx c hc
    obtain ⟨kb, _, h1, _⟩ := hfrom x hx
    rw [h1] at hc
    unfold fusedKey at hc
    obtain ⟨g, _, rfl⟩ := List.mem_map.mp hc
    exact teff_canonical hd g _
  · -- selection rule
    intro x hx
    obtain ⟨kb, hkb, h1, _⟩ := hfrom x hx
    show chargeOfKey T.sym (groups.map (groupSig T)) x.1 = T.n
    rw [h1]
    exact fused_rule hd h groups hpart kb hkb
  · -- positive dimensions
    intro x hx d hdm
    obtain ⟨kb, hkb, h1, h2⟩ := hfrom x hx
    rw [h2] at hdm
    obtain ⟨i, hi, rfl⟩ := List.mem_map.mp hdm
    have hi' : i < groups.length := List.mem_range.mp hi
    have hg : groups[i] ∈ groups := List.getElem_mem hi'
    have hgi : groups.getD i [] = groups[i] := by
      rw [List.getD_eq_getElem?_getD, List.getElem?_eq_getElem hi']; rfl
    have hki : x.1.getD i [] = teffOf T groups[i] (pick kb.1 groups[i]) := by
      rw [h1]
      unfold fusedKey
      rw [List.getD_eq_getElem?_getD, List.getElem?_map, List.getElem?_eq_getElem hi']
      rfl
    rw [hgi, hki]
    have hmem : (pick kb.1 groups[i], pick kb.2.shape groups[i]) ∈
        sectorDecs T groups[i] (teffOf T groups[i] (pick kb.1 groups[i])) := by
      unfold sectorDecs decomps
      exact List.mem_filter.mpr ⟨mem_sectorProduct_pick hkb groups[i], by simp⟩
    have hsh := (h.keyRank kb hkb).2
    have hpos : 0 < decSize (pick kb.1 groups[i], pick kb.2.shape groups[i]) := by
      unfold decSize
      apply prodL_pos
      intro d hdd
      exact h.dimsPos kb hkb d (mem_pick_of_lt _ _ (fun l hl => by rw [hsh]; exact hgl _ hg l hl) d hdd)
    exact Nat.lt_of_lt_of_le hpos (decSize_le_sectorDim _ _ hmem)
  · -- consistent dimensions: the dimension of a fused sector depends on the group and the effective charge only
    intro x hx y hy i hxy
    obtain ⟨_, _, _, hx2⟩ := hfrom x hx
    obtain ⟨_, _, _, hy2⟩ := hfrom y hy
    rw [hx2, hy2]
    by_cases hi : i < groups.length
    · have hxy' : x.1[i]?.getD [] = y.1[i]?.getD [] := by simpa [List.getD_eq_getElem?_getD] using hxy
      simp [List.getD_eq_getElem?_getD, List.getElem?_map, List.getElem?_range hi, hxy']
    · have hi' : groups.length ≤ i := Nat.le_of_not_lt hi
      simp [List.getD_eq_getElem?_getD, List.getElem?_eq_none, hi']

end YModel

namespace YModel
/-! ### non-vacuity: the hypotheses are met by the example matrix and the fused result passes the executable check -/
example : (fuseHard exA [[1, 0]]).toOption.map (fun F => (wfCheck [0] F, F.keys, F.s)) = some (true, [[[0]]], [-1]) := by decide
end YModel
