import YProofs.Props.C03Elem
/-!
# C03 (continued) — `unfuse_legs(fuse_legs(x)) = x`

`fuseHard` defines the fused tensor through the backward index map.  Reading the fused tensor back through the forward map
(`unfuseAt`: block `fusedKey`, position `fusedIdx` — what `unfuse_legs` does with the recorded fusion history) returns every element
of every stored block of the original tensor: hard fusion followed by unfusing is the identity on the stored elements, for every
well-formed tensor of every symmetry and every partition of the legs in any order.
-/
namespace YModel
variable {R : Type} {ms : List Nat}

/-- the element of the original tensor at `(k, idx)` read back from the fused tensor `F` -/
def unfuseAt [Zero R] (F T0 : Tensor R) (groups : List (List Nat)) (k : Key) (shape idx : List Nat) : R :=
  match F.get? (fusedKey T0 groups k) with
  | some b => b.val (fusedIdx T0 groups k shape idx)
  | none => 0

theorem find?_map_keys {β : Type} (keys : List Key) (f : Key → β) (K : Key) (hK : K ∈ keys) :
    ((keys.map (fun K' => (K', f K'))).find? (fun kb => kb.1 == K)).map (·.2) = some (f K) := by
  induction keys with
  | nil => cases hK
  | cons x xs ih =>
    by_cases hx : x = K
    · subst hx; simp
    · have hK' : K ∈ xs := by
        cases hK with
        | head => exact absurd rfl hx
        | tail _ h => exact h
      have : (x == K) = false := by simpa using hx
      simp only [List.map_cons, List.find?_cons, this]
      exact ih hK'

/-- **unfuse ∘ fuse = id** on every stored element -/
theorem unfuse_fuse [Zero R] {T F : Tensor R} (h : WF ms T) (groups : List (List Nat))
    (hf : fuseHard T groups = .ok F) (kb : Key × Block R) (hkb : kb ∈ T.blocks)
    (idx : List Nat) (hidx : inRange kb.2.shape idx = true) :
    unfuseAt F T groups kb.1 kb.2.shape idx = kb.2.val idx := by
  unfold fuseHard at hf
  split at hf; · cases hf
  rename_i hp
  split at hf; · cases hf
  cases hf
  have hpart : isPartition T.rank groups = true := by
    by_contra hc
    exact hp (Or.inl hc)
  have hmem : fusedKey T groups kb.1 ∈ sortDedup keyLt (T.blocks.map (fun kb => fusedKey T groups kb.1)) :=
    (mem_sortDedup keyLt_strictTotal _ _).mpr (List.mem_map.mpr ⟨kb, hkb, rfl⟩)
  unfold unfuseAt Tensor.get?
  simp only
  rw [find?_map_keys _ _ _ hmem]
  exact fuse_element_preserved h groups hpart kb hkb idx hidx

theorem get_val_from_block [Zero R] (T : Tensor R) (k : Key) (idx : List Nat)
    (h : (match T.get? k with | some b => b.val idx | none => 0) ≠ 0) :
    ∃ kb ∈ T.blocks, ∃ idx', (match T.get? k with | some b => b.val idx | none => (0 : R)) = kb.2.val idx' := by
  unfold Tensor.get? at h ⊢
  cases hf : T.blocks.find? (fun kb => kb.1 == k) with
  | none => rw [hf] at h; exact absurd rfl h
  | some kb => exact ⟨kb, List.mem_of_find?_eq_some hf, idx, rfl⟩

/-- **fusion creates nothing**: every non-zero element of the fused tensor is an element of a stored block of the original tensor
(positions of a fused sector that no stored block maps to — sectors missing in the operand, the padding of `hard` fusion — hold zeros) -/
theorem fused_nonzero_from_block [Zero R] (T : Tensor R) (groups : List (List Nat)) (K : Key) (J : List Nat)
    (hne : fusedVal T groups K J ≠ 0) : ∃ kb ∈ T.blocks, ∃ idx, fusedVal T groups K J = kb.2.val idx := by
  unfold fusedVal at hne ⊢
  simp only at hne ⊢
  split
  · rename_i hall
    rw [if_pos hall] at hne
    exact get_val_from_block T _ _ hne
  · rename_i hall
    rw [if_neg hall] at hne
    exact absurd rfl hne

end YModel

namespace YModel
/-! ### non-vacuity: the well-formed example matrix, both legs fused in exchanged order, is read back element by element -/
example : (fuseHard exA [[1, 0]]).toOption.map (fun F =>
    (F.keys, unfuseAt F exA [[1, 0]] [[1], [1]] [2, 1] [1, 0], unfuseAt F exA [[1, 0]] [[0], [0]] [1, 2] [0, 1])) = some ([[[0]]], 2, 1) := by decide
end YModel
