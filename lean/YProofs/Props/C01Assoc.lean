import YProofs.Props.C01Dot
import YProofs.Lemmas.MultiSum
import Mathlib.Algebra.BigOperators.Ring.List
/-!
# C01 (continued) — the order of contractions does not matter

`matmul_assoc_dense`: for well-formed `a` (rank `na+1`), a matrix `b` and `c` (rank `nc+1`) of every symmetry and sector
content, `(a @ b) @ c` and `a @ (b @ c)` have the same dense array (on any outer leg spaces and common spaces `M1`, `M2`
holding the sectors of the contracted legs).  This is the two-step instance of "every contraction order of a network gives
the same tensor" (the claim behind `ncon` with any `order`); it follows from `toDense_matmul` and the exchange of the two
finite sums.
-/
namespace YModel
variable {R : Type} [CommRing R] {ms : List Nat}

/-- the last-leg sector of every block of `a @ b` (`b` a matrix) is the second-leg sector of a block of `b` -/
theorem sector_last_of_matmul {a b c : Tensor R} {na : Nat}
    (hra : a.rank = na + 1) (hrb : b.rank = 1 + 1) (h : tensordot a b [na] [0] = .ok c)
    (x : Key × Block R) (hx : x ∈ c.blocks) :
    ∃ kb ∈ b.blocks, sectorOfLast na x = (kb.1.getD 1 [], kb.2.shape.getD 1 0) := by
  obtain ⟨_, _, _, _, _, _, _, hc, _⟩ := tensordot_ok_iff h
  rw [hc] at hx
  simp only [List.mem_map] at hx
  obtain ⟨k, hk, rfl⟩ := hx
  have hk' := (mem_sortDedup keyLt_strictTotal k _).mp hk
  obtain ⟨cand, hcand, rfl⟩ := List.mem_map.mp hk'
  cases hf : (dotCands a b [na] [0]).filter (fun y => y.1 == cand.1) with
  | nil =>
    exfalso
    have : cand ∈ (dotCands a b [na] [0]).filter (fun y => y.1 == cand.1) := List.mem_filter.mpr ⟨hcand, by simp⟩
    rw [hf] at this; cases this
  | cons y ys =>
    have hy : y ∈ (dotCands a b [na] [0]).filter (fun z => z.1 == cand.1) := by rw [hf]; simp
    obtain ⟨hy1, hy2⟩ := List.mem_filter.mp hy
    have hyk : y.1 = cand.1 := by simpa using hy2
    obtain ⟨ka, hka, kb, hkb, _, h3, h4⟩ := mem_dotCands hy1
    refine ⟨kb, hkb, ?_⟩
    rw [hra, hrb, complement_last, complement_first] at h3 h4
    have hshape : (sumBlocks (List.map (fun x => x.2) (y :: ys))).shape = y.2.shape := rfl
    have e1 : (pick ka.1 (List.range na)).length = na := by simp [pick_length]
    have e2 : (pick ka.2.shape (List.range na)).length = na := by simp [pick_length]
    unfold sectorOfLast
    rw [hshape, ← hyk, h3, h4, getD_append_right' _ _ _ _ (by omega), getD_append_right' _ _ _ _ (by omega), e1, e2]
    simp [pick]
    rfl

/-- **(a @ b) @ c = a @ (b @ c)** on the dense arrays -/
theorem matmul_assoc_dense {a b c ab bc l r : Tensor R} {na nc : Nat}
    (ha : WF ms a) (hb : WF ms b) (hc : WF ms c) (hd : WSym a.sym ms)
    (hra : a.rank = na + 1) (hrb : b.rank = 1 + 1) (hrc : c.rank = nc + 1)
    (hab : tensordot a b [na] [0] = .ok ab) (hbc : tensordot b c [1] [0] = .ok bc)
    (hl : tensordot ab c [na] [0] = .ok l) (hr : tensordot a bc [na] [0] = .ok r)
    (La Lc : List LegSpace) (M1 M2 : LegSpace) (hLa : La.length = na) (hLc : Lc.length = nc)
    (hM1 : (M1.map (·.1)).Nodup) (hM2 : (M2.map (·.1)).Nodup)
    (hcovA : ∀ kb ∈ a.blocks, sectorOfLast na kb ∈ M1)
    (hcovB : ∀ kb ∈ b.blocks, (kb.1.getD 1 [], kb.2.shape.getD 1 0) ∈ M2)
    (i k : List Nat) (hi : i.length = na) (hk : k.length = nc) :
    toDenseOn (La ++ Lc) l (i ++ k) = toDenseOn (La ++ Lc) r (i ++ k) := by
  have hsab : ab.sym = a.sym := by
    obtain ⟨_, _, _, _, _, _, _, hceq, _⟩ := tensordot_ok_iff hab
    rw [hceq]
  have hsb : a.sym = b.sym := (tensordot_ok_iff hab).1
  have hwab : WF ms ab := wf_tensordot hd ha hb hab
  have hwbc : WF ms bc := wf_tensordot (by rw [← hsb]; exact hd) hb hc hbc
  have hrab : ab.rank = na + 1 := by
    obtain ⟨_, _, _, _, _, _, _, hceq, _⟩ := tensordot_ok_iff hab
    rw [hceq]
    simp only [Tensor.rank, List.length_append, pick_length]
    rw [show a.s.length = na + 1 from hra, show b.s.length = 1 + 1 from hrb, complement_last, complement_first]
    simp
  have hrbc : bc.rank = nc + 1 := by
    obtain ⟨_, _, _, _, _, _, _, hceq, _⟩ := tensordot_ok_iff hbc
    rw [hceq]
    simp only [Tensor.rank, List.length_append, pick_length]
    rw [show b.s.length = 1 + 1 from hrb, show c.s.length = nc + 1 from hrc, complement_last, complement_first]
    simp; omega
  -- cover of the intermediate `a @ b` on M2
  have hcovAB : ∀ x ∈ ab.blocks, sectorOfLast na x ∈ M2 := by
    intro x hx
    obtain ⟨kb, hkb, he⟩ := sector_last_of_matmul hra hrb hab x hx
    rw [he]; exact hcovB kb hkb
  -- left: ((a b) c)
  have hL := toDense_matmul hwab hc hrab hrc hl La Lc M2 hLa hLc hM2 hcovAB i k hi hk
  have hLin : ∀ m2, toDenseOn (La ++ [M2]) ab (i ++ [m2]) =
      ((List.range M1.dim).map (fun m1 => toDenseOn (La ++ [M1]) a (i ++ [m1]) * toDenseOn (M1 :: [M2]) b (m1 :: [m2]))).sum :=
    fun m2 => toDense_matmul ha hb hra hrb hab La [M2] M1 hLa rfl hM1 hcovA i [m2] hi rfl
  -- right: (a (b c))
  have hR := toDense_matmul ha hwbc hra hrbc hr La Lc M1 hLa hLc hM1 hcovA i k hi hk
  have hcovB' : ∀ kb ∈ b.blocks, sectorOfLast 1 kb ∈ M2 := hcovB
  have hRin : ∀ m1, toDenseOn (M1 :: Lc) bc (m1 :: k) =
      ((List.range M2.dim).map (fun m2 => toDenseOn ([M1] ++ [M2]) b ([m1] ++ [m2]) * toDenseOn (M2 :: Lc) c (m2 :: k))).sum :=
    fun m1 => toDense_matmul hb hc hrb hrc hbc [M1] Lc M2 rfl hLc hM2 hcovB' [m1] k rfl hk
  rw [hL, hR]
  simp only [hLin, hRin, List.singleton_append]
  -- Σ_{m2} (Σ_{m1} A m1 * B m1 m2) * C m2  =  Σ_{m1} A m1 * Σ_{m2} B m1 m2 * C m2
  have e1 : ∀ m2, ((List.range M1.dim).map (fun m1 => toDenseOn (La ++ [M1]) a (i ++ [m1]) * toDenseOn [M1, M2] b [m1, m2])).sum *
        toDenseOn (M2 :: Lc) c (m2 :: k) =
      ((List.range M1.dim).map (fun m1 => toDenseOn (La ++ [M1]) a (i ++ [m1]) * toDenseOn [M1, M2] b [m1, m2] *
        toDenseOn (M2 :: Lc) c (m2 :: k))).sum := by
    intro m2
    rw [← List.sum_map_mul_right]
  have e2 : ∀ m1, toDenseOn (La ++ [M1]) a (i ++ [m1]) *
        ((List.range M2.dim).map (fun m2 => toDenseOn [M1, M2] b [m1, m2] * toDenseOn (M2 :: Lc) c (m2 :: k))).sum =
      ((List.range M2.dim).map (fun m2 => toDenseOn (La ++ [M1]) a (i ++ [m1]) * toDenseOn [M1, M2] b [m1, m2] *
        toDenseOn (M2 :: Lc) c (m2 :: k))).sum := by
    intro m1
    rw [← List.sum_map_mul_left]
    apply congrArg
    apply List.map_congr_left
    intro m2 _
    ring
  rw [List.map_congr_left (fun m2 _ => e1 m2), List.map_congr_left (fun m1 _ => e2 m1)]
  exact sum_sum_comm (List.range M2.dim) (List.range M1.dim)
    (fun m2 m1 => toDenseOn (La ++ [M1]) a (i ++ [m1]) * toDenseOn [M1, M2] b [m1, m2] * toDenseOn (M2 :: Lc) c (m2 :: k))

end YModel

namespace YModel
open SymGen
/-! ### non-vacuity: three concrete well-formed operands meet every hypothesis and both orders evaluate to non-zero entries -/
def exC : Tensor Int :=
  { sym := sym_U1, s := [-1, 1], n := [0], isdiag := false,
    blocks := [([[0], [0]], ⟨[1, 2], fun i => 3 + i.getD 1 0⟩), ([[1], [1]], ⟨[3, 1], fun i => 1 + i.getD 0 0⟩)] }
example : WF [0] exC := wfCheck_sound (by decide)
example : ∀ kb ∈ exA.blocks, sectorOfLast 1 kb ∈ [([0], 2), ([1], 1)] := by decide
example : ∀ kb ∈ exB.blocks, (kb.1.getD 1 [], kb.2.shape.getD 1 0) ∈ [([0], 1), ([1], 3)] := by decide
example : (do let ab ← tensordot exA exB [1] [0]; let l ← tensordot ab exC [1] [0]
              pure ((List.range 3).flatMap fun i => (List.range 3).map fun j =>
                toDenseOn [[([0], 1), ([1], 2)], [([0], 2), ([1], 1)]] l [i, j])).toOption
    = some [0, 0, 12, 30, 40, 0, 30, 40, 0] := by decide
example : (do let bc ← tensordot exB exC [1] [0]; let r ← tensordot exA bc [1] [0]
              pure ((List.range 3).flatMap fun i => (List.range 3).map fun j =>
                toDenseOn [[([0], 1), ([1], 2)], [([0], 2), ([1], 1)]] r [i, j])).toOption
    = some [0, 0, 12, 30, 40, 0, 30, 40, 0] := by decide
end YModel
