import YProofs.Lemmas.SchedSweeps
import YProofs.Lemmas.SchedGauge
/-!
# C09 — DMRG is variational and self-consistent (schedule / environment-freshness part)

Model: `YModel/Sched.lean` (event traces of `_dmrg.py`, state machine of `_env.py`).  Tie to the source: the traces of
REAL `dmrg_` runs (run-time monitor, `harness/props/c09.py`) are diffed exactly against `dmrgRun` and stamp-checked.

`exec N pre st evs = (st', ok)`: `ok` is true iff **every** event of the trace passes `okEv`, i.e.
* every key read by `update_env_`, `Heff1`, `Heff2`, `measure` (and by `get_FL/get_FR` when a derived key is created) is
  present (no `KeyError`) and its stamp equals the *current* versions of all sites it was contracted from (not stale),
* no site is written / orthogonalised while a central block exists (`YastnError` in `orthogonalize_site_`).

What is NOT proved here (validated numerically by the harness on the real code): the variational inequality,
monotonicity, convergence to an eigenstate, the effect of the penalty terms (they are consequences of the contracts of
`eigs`/QR/SVD on top of the freshness proved here).
-/
namespace YModel.Sched

/-- **`dmrg_reads_fresh`** (clause "self-consistent": the environments stay in sync with the updated sites).
For every chain length `N ≥ 1`, every sequence of methods over the sweeps (switches via `yastn.Method` included), with and
without `precompute`, canonical or non-canonical initial state: no event of the run reads a missing or stale environment
(plain or precompute-derived key).  Several environments (`Env_sum` over MPOs, `Env_project`) each follow this trace. -/
theorem dmrg_reads_fresh (N : Nat) (hN : 1 ≤ N) (pre canon : Bool) (methods : List Method) :
    (exec N pre (init N canon) (dmrgRun N canon methods)).2 = true :=
  (dmrgRun_ok N hN pre canon methods _ (J_init N canon)).1

/-- **`dmrg_exit_state`** (clause "the reported energy equals the expectation value in the returned state", schedule part):
after the run there is no central block and both environments read by `measure()` at bond `(-1, 0)` are fresh for the
returned tensors, -/
theorem dmrg_exit_state (N : Nat) (hN : 1 ≤ N) (pre canon : Bool) (methods : List Method) :
    let st := (exec N pre (init N canon) (dmrgRun N canon methods)).1
    st.pC = none ∧ st.fresh N (.L 0) = true ∧ st.fresh N (.R 0) = true := by
  have h := (dmrgRun_ok N hN pre canon methods _ (J_init N canon)).2
  exact ⟨h.2, fresh_of_FreshK (h.1.l 0 (by omega)), fresh_of_FreshK (h.1.r 0 (by omega) (by omega))⟩

/-- … and the last event of every run with at least one sweep is that `measure` (no site is written after it). -/
theorem dmrg_ends_with_measure (N : Nat) (canon : Bool) (ms : List Method) (m : Method) :
    (dmrgRun N canon (ms ++ [m])).getLast? = some (.meas 0) := by
  have e : dmrgRun N canon (ms ++ [m]) =
      ((if canon then [] else canonizeFirst N) ++ (setupFirst N ++ [.meas 0]) ++
        ms.flatMap (fun m => dmrgSweep m N ++ [.meas 0]) ++ dmrgSweep m N) ++ [.meas 0] := by
    simp [dmrgRun, dmrgTrace, List.flatMap_append, List.append_assoc]
  rw [e, List.getLast?_concat]

/-- **`dmrg_exit_state`**, gauge part ("returns a canonical MPS"): after a run whose last sweep uses method `m` there is no
central block, every site `k ≥ 1` is right-canonical, and after a '1site' sweep so is site 0 (its trivial 1×1 central
block has modulus one).  After a '2site' sweep site 0 holds `U·S` (gauge `none` in the model): it is right-canonical iff the
kept Schmidt values have norm one — exactly where the known defect `c09:unnormalised-2site-truncation` lives. -/
theorem dmrg_exit_gauge (N : Nat) (hN : 1 ≤ N) (pre canon : Bool) (ms : List Method) (m : Method) :
    let st := (exec N pre (init N canon) (dmrgRun N canon (ms ++ [m]))).1
    st.pC = none ∧ (∀ k, 1 ≤ k → k < N → st.g k = .right) ∧ (m = .one → st.g 0 = .right) := by
  intro st
  have e : dmrgRun N canon (ms ++ [m]) =
      ((if canon then [] else canonizeFirst N) ++ (setupFirst N ++ ([.meas 0] ++
        ms.flatMap (fun m => dmrgSweep m N ++ [.meas 0])))) ++ (dmrgSweep m N ++ [.meas 0]) := by
    simp [dmrgRun, dmrgTrace, List.flatMap_append, List.append_assoc]
  have hgp : (st.pC, st.g) = gexec N (none, (init N canon).g) (dmrgRun N canon (ms ++ [m])) := exec_gp N pre (init N canon) _
  rw [e, gexec_append, gexec_append] at hgp
  -- the prefix leaves no central block
  have hpre : (gexec N (none, (init N canon).g) ((if canon then [] else canonizeFirst N) ++ (setupFirst N ++ ([.meas 0] ++
      ms.flatMap (fun m => dmrgSweep m N ++ [.meas 0]))))).1 = none := by
    rw [gexec_append, gexec_append, g_setup, gexec_append]
    apply g_sweeps_pn N hN
    have : ∀ s : GP, gexec N s [.meas 0] = s := fun s => rfl
    rw [this]
    cases canon with
    | true => rfl
    | false => exact g_canonize N _ rfl
  have hm : ∀ s : GP, gexec N s [.meas 0] = s := fun s => rfl
  rw [hm] at hgp
  cases m with
  | one =>
    have : Gg N 0 (gexec N _ (dmrgSweep .one N)) := g_sweep_one N _ hpre
    rw [← hgp] at this
    exact ⟨this.1, fun k hk hkN => this.2 k (by omega) hkN, fun _ => this.2 0 (by omega) (by omega)⟩
  | two =>
    have : Gg N 1 (gexec N _ (dmrgSweep .two N)) := g_sweep_two N hN _ hpre
    rw [← hgp] at this
    exact ⟨this.1, fun k hk hkN => this.2 k hk hkN, fun h => by cases h⟩
  | onetwo =>
    have : Gg N 1 (gexec N _ (dmrgSweep .onetwo N)) := g_sweep_two N hN _ hpre
    rw [← hgp] at this
    exact ⟨this.1, fun k hk hkN => this.2 k hk hkN, fun h => by cases h⟩

/- not proved (validated by the oracles on the real code): `sector_preserved`, `energy_nonincreasing`,
   `energy_ge_lambda_min`, convergence to an eigenstate, the effect of the penalty environments. -/

/-! ### non-vacuity: the checker does reject wrong schedules, and the hypotheses are satisfiable -/

/-- a site written after the right environment was built: the next `Heff1` reads a stale `F[(1,0)]` -/
example : (exec 3 false (init 3 true) (setupFirst 3 ++ [.w1 1, .h1 0])).2 = false := by decide

/-- `update_env_(n)` instead of `update_env_(n + dn)` in the backward 2-site sweep: `KeyError` (missing key) -/
example : (exec 3 false (init 3 true) (setupFirst 3 ++ [.h2 1, .w2 1, .abs .first, .clr [1, 2], .upd 1 .first])).2 = false := by
  decide

/-- forgetting to drop the derived key `(n, n+1, n+1)` in the precompute `clear_site_` is caught: with the real
`clear_site_` the second sweep is fine (theorem above); here the derived key written in sweep 1 is read stale -/
example : (exec 3 true (init 3 true) (setupFirst 3 ++ [.h2 1, .w2 1, .abs .last, .upd 1 .last, .h2 1])).2 = false := by
  decide

set_option maxRecDepth 20000 in
example : (exec 3 true (init 3 false) (dmrgRun 3 false [.two, .one])).2 = true := by decide

set_option maxRecDepth 20000 in
example : let st := (exec 3 true (init 3 false) (dmrgRun 3 false [.two, .one])).1
    (st.g 0, st.g 1, st.g 2) = (.right, .right, .right) := by decide

set_option maxRecDepth 20000 in
example : let st := (exec 3 false (init 3 true) (dmrgRun 3 true [.one, .two])).1
    (st.g 0, st.g 1, st.g 2) = (.none, .right, .right) := by decide

end YModel.Sched
