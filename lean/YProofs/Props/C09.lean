import YModel.Sched
namespace YModel.Sched
/-- placeholder (replaced below) -/
theorem c09_placeholder : (dmrgTrace 1 []).length = 2 := by decide
end YModel.Sched
