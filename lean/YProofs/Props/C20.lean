import YProofs.Lemmas.GeoSquare
import YProofs.Lemmas.GeoBonds
import YProofs.Lemmas.GeoContainer
import YProofs.Lemmas.GeoPattern
import YProofs.Lemmas.GeoCount
/-!
# C20 — Lattice geometry is a consistent indexing of the square lattice

All theorems are about the executable model `YModel/Geometry.lean`, which the check ties to
`yastn/tn/fpeps/_geometry.py` by exhaustive correspondence on every run.  They hold for **all**
`Nx, Ny ≥ 1` (no size bound), every boundary type, every site of ℤ² and every shift.

Interpretive decision (DESIGN.md §7): on a cylinder the bond across the seam `((Nx-1, y), (0, y))` is
listed in lattice order (`'tb'`) and is *not* fermionically ordered (its reverse is); for `Nx = 1` the
seam bond is a self-bond.  `bondsV_fOrdered_iff` states the exact characterisation.
-/
namespace YModel.Geo

/-! ## neighbour lookup is mutually inverse wherever defined -/

/-- **nnSite_inverse** (clause "neighbour lookup is mutually inverse wherever defined"), arbitrary shift
`(dx, dy)`: if `s` is a site of the lattice (inside `[0,N)` in every *open* direction; any integer in
infinite/periodic directions) and `nn_site(s, d) = s'` is defined, then `nn_site(s', -d)` is defined and
returns `s` itself (`obc`, `infinite`) resp. the representative `(x mod Nx, y)` of `s` in the stored cell
(cylinder). -/
theorem nnSite_inverse (g : Sq) (hx : 0 < g.Nx) (s s' : Site) (d : Int × Int)
    (hs : g.inLattice s) (h : g.nnSite s d = some s') :
    g.nnSite s' (-d.1, -d.2) = some (g.canon s) :=
  g.nnSite_inverse_shift hx s s' d hs h

/-- **nnSite_inverse** for the eight named directions `'t','b','l','r','tl','tr','bl','br'`. -/
theorem nnSite_inverse_dir (g : Sq) (hx : 0 < g.Nx) (s s' : Site) (d : Dir)
    (hs : g.inLattice s) (h : g.nnSite s d.vec = some s') :
    g.nnSite s' d.opp.vec = some (g.canon s) := by
  rw [Dir.opp_vec]
  exact g.nnSite_inverse_shift hx s s' d.vec hs h

/-- inside the stored cell the canonical representative is the site itself, for every boundary type -/
theorem nnSite_inverse_cell (g : Sq) (hx : 0 < g.Nx) (s s' : Site) (d : Dir)
    (hs : g.inCell s) (h : g.nnSite s d.vec = some s') : g.nnSite s' d.opp.vec = some s := by
  rw [nnSite_inverse_dir g hx s s' d (Sq.inLattice_of_inCell hs) h, Sq.canon_of_inCell hs]

/-- the hypothesis `inLattice` is needed: `nn_site` does not validate its argument (open boundary) -/
example : (⟨2, 2, .obc⟩ : Sq).nnSite (-1, 0) Dir.b.vec = some (0, 0) ∧
    (⟨2, 2, .obc⟩ : Sq).nnSite (0, 0) Dir.t.vec = none := by decide
/-- non-vacuity: across the cylinder seam, from a site outside the stored cell -/
example : (⟨3, 2, .cylinder⟩ : Sq).inLattice (5, 1) ∧ (⟨3, 2, .cylinder⟩ : Sq).nnSite (5, 1) (2, -1) = some (1, 0) ∧
    (⟨3, 2, .cylinder⟩ : Sq).nnSite (1, 0) (-2, 1) = some (2, 1) ∧ (⟨3, 2, .cylinder⟩ : Sq).canon (5, 1) = (2, 1) := by decide

/-! ## site-to-tensor indexing is invariant under the lattice periods, and only those -/

/-- congruence of two sites modulo the periods of the lattice: per direction, period `N` if that
direction is infinite or periodic, no period (equality) if it is open -/
def Sq.congruent (g : Sq) (s s' : Site) : Prop :=
  (if g.bd.px = .o then s.1 = s'.1 else (g.Nx : Int) ∣ s.1 - s'.1) ∧
  (if g.bd.py = .i then (g.Ny : Int) ∣ s.2 - s'.2 else s.2 = s'.2)

instance (g : Sq) (s s' : Site) : Decidable (g.congruent s s') := by unfold Sq.congruent; infer_instance

/-- **site2index_period_iff** (SquareLattice, every boundary): two sites get the same tensor index iff
they are congruent modulo the lattice periods. -/
theorem site2index_period_iff (g : Sq) (s s' : Site) :
    g.site2index s = g.site2index s' ↔ g.congruent s s' := by
  unfold Sq.site2index Sq.congruent
  rw [Prod.mk.injEq]
  cases hb : g.bd <;> simp [Boundary.px, Boundary.py, emod_eq_iff_dvd]

/-- per boundary type, spelled out -/
theorem site2index_period_iff_infinite (g : Sq) (hb : g.bd = .infinite) (s s' : Site) :
    g.site2index s = g.site2index s' ↔ (g.Nx : Int) ∣ s.1 - s'.1 ∧ (g.Ny : Int) ∣ s.2 - s'.2 := by
  rw [site2index_period_iff]; simp [Sq.congruent, hb, Boundary.px, Boundary.py]
theorem site2index_period_iff_obc (g : Sq) (hb : g.bd = .obc) (s s' : Site) :
    g.site2index s = g.site2index s' ↔ s = s' := by
  rw [site2index_period_iff]; simp [Sq.congruent, hb, Boundary.px, Boundary.py, Prod.ext_iff]
theorem site2index_period_iff_cylinder (g : Sq) (hb : g.bd = .cylinder) (s s' : Site) :
    g.site2index s = g.site2index s' ↔ (g.Nx : Int) ∣ s.1 - s'.1 ∧ s.2 = s'.2 := by
  rw [site2index_period_iff]; simp [Sq.congruent, hb, Boundary.px, Boundary.py]

/-- the index of a lattice site is a site of the stored cell, and `site2index` is idempotent -/
theorem site2index_inCell (g : Sq) (hx : 0 < g.Nx) (hy : 0 < g.Ny) (s : Site) (hs : g.inLattice s) :
    g.inCell (g.site2index s) := by
  have hX : (0 : Int) < g.Nx := by omega
  have hY : (0 : Int) < g.Ny := by omega
  obtain ⟨h1, h2⟩ := hs
  unfold Sq.inCell Sq.site2index
  cases hb : g.bd <;> simp only [hb, Boundary.px, Boundary.py, reduceCtorEq, or_false, or_true, if_true, if_false] at h1 h2 ⊢
  · exact ⟨(emod_in_range hX _).1, (emod_in_range hX _).2, (emod_in_range hY _).1, (emod_in_range hY _).2⟩
  · exact ⟨(h1 trivial).1, (h1 trivial).2, (h2 trivial).1, (h2 trivial).2⟩
  · exact ⟨(emod_in_range hX _).1, (emod_in_range hX _).2, (h2 trivial).1, (h2 trivial).2⟩

/-- `nn_site` lands on lattice sites whose index is the canonical neighbour: on a cylinder the result is
already in the stored cell -/
theorem nnSite_consistent_index (g : Sq) (hx : 0 < g.Nx) (s s' : Site) (d : Int × Int)
    (h : g.nnSite s d = some s') : g.site2index s' = g.site2index (s.1 + d.1, s.2 + d.2) := by
  have hX : (0 : Int) < g.Nx := by omega
  cases hb : g.bd with
  | infinite => rw [Sq.nnSite_infinite hb] at h; cases h; rfl
  | obc =>
    rw [Sq.nnSite_obc hb] at h
    split at h
    · cases h; rfl
    · exact absurd h (by simp)
  | cylinder =>
    rw [Sq.nnSite_cylinder hb hx] at h
    split at h
    · cases h
      simp only [Sq.site2index, hb, Boundary.px, Boundary.py, reduceCtorEq, or_true, if_true, if_false]
      rw [Int.emod_emod_of_dvd _ (Int.dvd_refl _)]
    · exact absurd h (by simp)

example : (⟨3, 2, .cylinder⟩ : Sq).site2index (7, 1) = (1, 1) ∧ (⟨3, 2, .cylinder⟩ : Sq).congruent (7, 1) (1, 1)
    ∧ ¬ (⟨3, 2, .cylinder⟩ : Sq).congruent (7, 1) (1, 3) := by decide
example : (⟨3, 2, .infinite⟩ : Sq).site2index (-1, 5) = (2, 1) := by decide

/-- **site2index_period_iff** (CheckerboardLattice): same index iff same parity of `x + y`; -/
theorem cbIndex_iff (s s' : Site) : cbIndex s = cbIndex s' ↔ (2 : Int) ∣ (s.1 + s.2) - (s'.1 + s'.2) := by
  unfold cbIndex; omega
/-- … hence invariance under the periods `(1,1)`, `(1,-1)`, `(2,0)`, `(0,2)` and under nothing smaller -/
theorem cbIndex_periods (s : Site) :
    cbIndex (s.1 + 1, s.2 + 1) = cbIndex s ∧ cbIndex (s.1 + 1, s.2 - 1) = cbIndex s ∧
    cbIndex (s.1 + 2, s.2) = cbIndex s ∧ cbIndex (s.1, s.2 + 2) = cbIndex s ∧
    cbIndex (s.1 + 1, s.2) ≠ cbIndex s ∧ cbIndex (s.1, s.2 + 1) ≠ cbIndex s := by
  unfold cbIndex; simp only []; omega
/-- the two listed checkerboard sites carry the two indices; every site has one of them -/
theorem cbIndex_sites (s : Site) : cbSites.map cbIndex = [0, 1] ∧ (cbIndex s = 0 ∨ cbIndex s = 1) := by
  refine ⟨by decide, ?_⟩
  unfold cbIndex; omega
example : cbIndex (3, -4) = 1 ∧ cbIndex (3, -3) = 0 := by decide

/-- **site2index_period_iff** (TriangularLattice, 3-site cell): same index iff `y - x` agree modulo 3 -/
theorem triIndex3_iff (g : Sq) (s s' : Site) :
    (⟨g, false⟩ : Tri).index s = (⟨g, false⟩ : Tri).index s' ↔ (3 : Int) ∣ (s.2 - s.1) - (s'.2 - s'.1) := by
  simp only [Tri.index, Bool.false_eq_true, if_false]; omega
/-- **site2index_period_iff** (TriangularLattice, `full_patch`): same index iff congruent modulo `(Nx, Ny)` -/
theorem triIndexFull_iff (g : Sq) (hy : 0 < g.Ny) (s s' : Site) :
    (⟨g, true⟩ : Tri).index s = (⟨g, true⟩ : Tri).index s' ↔ (g.Nx : Int) ∣ s.1 - s'.1 ∧ (g.Ny : Int) ∣ s.2 - s'.2 := by
  have hY : (0 : Int) < g.Ny := by omega
  simp only [Tri.index, if_true]
  rw [← emod_eq_iff_dvd, ← emod_eq_iff_dvd]
  constructor
  · intro h
    exact mixed_radix_inj (emod_in_range hY _) (emod_in_range hY _) h
  · rintro ⟨h1, h2⟩
    rw [h1, h2]
example : (⟨⟨3, 3, .infinite⟩, true⟩ : Tri).index (4, -1) = 5 ∧ (⟨⟨3, 3, .infinite⟩, false⟩ : Tri).index (4, -1) = 1 := by decide

/-- **index invariance** (RectangularUnitcell): the label is invariant under the cell periods `(Nx, 0)`, `(0, Ny)`
(and depends on the site only through `(x mod Nx, y mod Ny)`, by definition of `patIndex`) -/
theorem patIndex_periods (pat : Pattern) (Nx Ny : Nat) (s : Site) (k l : Int) :
    patIndex pat Nx Ny (s.1 + k * Nx, s.2 + l * Ny) = patIndex pat Nx Ny s := by
  unfold patIndex
  simp only []
  rw [Int.add_mul_emod_self_right, Int.add_mul_emod_self_right]
example : patIndex [[0, 1, 2], [1, 2, 0], [2, 0, 1]] 3 3 (-1, 4) = some 0 := by decide

/-! ## the fermionic order is a total order, and `sites()` is sorted by it -/

/-- **fOrdered_total_order**: reflexive, antisymmetric, transitive, total — on all of ℤ² -/
theorem fOrdered_total_order :
    (∀ a, fOrdered a a = true) ∧
    (∀ a b, fOrdered a b = true → fOrdered b a = true → a = b) ∧
    (∀ a b c, fOrdered a b = true → fOrdered b c = true → fOrdered a c = true) ∧
    (∀ a b, fOrdered a b = true ∨ fOrdered b a = true) := by
  unfold fOrdered
  simp only [Bool.or_eq_true, Bool.and_eq_true, decide_eq_true_eq]
  refine ⟨?_, ?_, ?_, ?_⟩
  · intro a; exact Or.inr ⟨trivial, Int.le_refl _⟩
  · intro a b h1 h2; ext <;> omega
  · intro a b c h1 h2; omega
  · intro a b; omega

/-- `f_ordered` is the column-major order (column first, then row) -/
theorem fOrdered_iff (a b : Site) : fOrdered a b = true ↔ a.2 < b.2 ∨ (a.2 = b.2 ∧ a.1 ≤ b.1) := by
  unfold fOrdered; simp

/-- **sites_sorted_fOrdered**: `sites()` is strictly increasing in the fermionic order
(every earlier site is f-ordered before every later one, and they are different) -/
theorem sites_sorted_fOrdered (g : Sq) : g.sites.Pairwise (fun a b => fOrdered a b = true ∧ a ≠ b) :=
  g.sites_pairwise_fLt

example : (⟨2, 2, .obc⟩ : Sq).sites = [(0, 0), (1, 0), (0, 1), (1, 1)] := by decide
example : fOrdered (1, 0) (0, 1) = true ∧ fOrdered (0, 1) (1, 0) = false := by decide

/-! ## each unique site is listed exactly once -/

/-- **sites_once**: `sites()` has no duplicates, lists exactly the cell `[0,Nx) × [0,Ny)`, `Nx·Ny` sites -/
theorem sites_once (g : Sq) :
    g.sites.Nodup ∧ (∀ s, s ∈ g.sites ↔ g.inCell s) ∧ g.sites.length = g.Nx * g.Ny :=
  ⟨g.sites_nodup, fun _ => Sq.mem_sites, g.length_sites⟩

/-- every lattice site has exactly one representative among the listed sites: its index -/
theorem sites_represent (g : Sq) (hx : 0 < g.Nx) (hy : 0 < g.Ny) (s : Site) (hs : g.inLattice s) :
    g.site2index s ∈ g.sites ∧ ∀ u ∈ g.sites, g.site2index u = g.site2index s → u = g.site2index s := by
  have hc := site2index_inCell g hx hy s hs
  refine ⟨Sq.mem_sites.mpr hc, ?_⟩
  intro u hu h
  have hu' := Sq.mem_sites.mp hu
  rw [← h]
  unfold Sq.site2index
  obtain ⟨h1, h2, h3, h4⟩ := hu'
  rw [Int.emod_eq_of_lt h1 h2, Int.emod_eq_of_lt h3 h4]
  simp

example : (⟨2, 3, .cylinder⟩ : Sq).sites.length = 6 ∧ (⟨2, 3, .cylinder⟩ : Sq).inCell (1, 2) := by decide


/-! ## every listed bond joins nearest neighbours in lattice order and in fermionic order -/

/-- **bonds_nn_ordered** (horizontal bonds): every bond of `bonds('h')` starts at a site of the cell, is what
`nn_site(·, 'r')` returns, has `nn_bond_dirn = 'lr'` (lattice order) and is strictly fermionically ordered —
for every boundary type. -/
theorem bondsH_nn_ordered (g : Sq) (hx : 0 < g.Nx) (b : Bond) (hb : b ∈ g.bondsH) :
    g.inCell b.1 ∧ g.nnSite b.1 Dir.r.vec = some b.2 ∧ g.nnBondDirn b.1 b.2 = some .lr ∧
    fOrdered b.1 b.2 = true ∧ fOrdered b.2 b.1 = false := by
  obtain ⟨hs, hn⟩ := Sq.mem_bondsTo.mp hb
  have hc := Sq.mem_sites.mp hs
  have hy : b.2.2 = b.1.2 + 1 := Sq.nnSite_snd hn
  refine ⟨hc, hn, ?_, ?_, ?_⟩
  · unfold Sq.nnBondDirn
    rw [Sq.isNN_of_nn hx hc hn]; rfl
  · rw [fOrdered_iff]; omega
  · rw [Bool.eq_false_iff]; intro h; rw [fOrdered_iff] at h; omega

/-- **bonds_nn_ordered** (vertical bonds) with the exact seam characterisation
**`f_ordered b ↔ ¬ crossesSeam b`** (for `Nx > 1`; for `Nx = 1` the seam bond is a self-bond, which
`f_ordered` accepts as "identical"):
every bond of `bonds('v')` starts at a site of the cell, is what `nn_site(·, 'b')` returns and has
`nn_bond_dirn = 'tb'` (lattice order), for every boundary type.  It is strictly f-ordered unless it crosses
the cylinder seam; a seam bond of a cylinder with `Nx > 1` is strictly f-ordered in the *reverse* direction;
for `Nx = 1` it is the self-bond `(s, s)`. -/
theorem bondsV_nn_ordered (g : Sq) (hx : 0 < g.Nx) (b : Bond) (hb : b ∈ g.bondsV) :
    g.inCell b.1 ∧ g.nnSite b.1 Dir.b.vec = some b.2 ∧ g.nnBondDirn b.1 b.2 = some .tb ∧
    (fOrdered b.1 b.2 = true ↔ ¬ (g.crossesSeam b ∧ 1 < g.Nx)) ∧
    (¬ g.crossesSeam b → fOrdered b.2 b.1 = false) ∧
    (g.crossesSeam b → 1 < g.Nx → fOrdered b.2 b.1 = true ∧ b.1 ≠ b.2) ∧
    (g.crossesSeam b → g.Nx = 1 → b.1 = b.2) := by
  obtain ⟨hs, hn⟩ := Sq.mem_bondsTo.mp hb
  have hc := Sq.mem_sites.mp hs
  obtain ⟨hy, hcase⟩ := Sq.nnSite_b_cell hx hc hn
  obtain ⟨c1, c2, c3, c4⟩ := hc
  refine ⟨⟨c1, c2, c3, c4⟩, hn, ?_, ?_, ?_, ?_, ?_⟩
  · unfold Sq.nnBondDirn
    rw [Sq.isNN_false_of_snd (d := .r) (by show b.2.2 ≠ b.1.2 + 1; omega), Sq.isNN_of_nn hx ⟨c1, c2, c3, c4⟩ hn]
    rfl
  · rw [fOrdered_iff]
    unfold Sq.crossesSeam
    rcases hcase with ⟨h1, h2⟩ | ⟨h1, h2, h3⟩ | ⟨h1, h2, h3⟩
    · constructor
      · intro _ hh; omega
      · intro _; omega
    · constructor
      · intro _ hh; rw [h2] at hh; exact absurd hh.1.1 (by simp)
      · intro _; omega
    · constructor
      · intro hh hh2; omega
      · intro hh
        have : ¬ (1 < g.Nx) := fun h => hh ⟨⟨h2, by omega, h3⟩, h⟩
        omega
  · intro hns
    rw [Bool.eq_false_iff]; intro h; rw [fOrdered_iff] at h
    unfold Sq.crossesSeam at hns
    rcases hcase with ⟨h1, h2⟩ | ⟨h1, h2, h3⟩ | ⟨h1, h2, h3⟩
    · omega
    · omega
    · exact hns ⟨h2, by omega, h3⟩
  · intro hseam hN
    unfold Sq.crossesSeam at hseam
    obtain ⟨_, s1, s2⟩ := hseam
    refine ⟨by rw [fOrdered_iff]; omega, ?_⟩
    intro e
    rw [e] at s1
    omega
  · intro hseam hN
    unfold Sq.crossesSeam at hseam
    obtain ⟨_, s1, s2⟩ := hseam
    ext <;> omega

/-- the cylinder seam bonds exist and are listed: the hypothesis `crossesSeam` is satisfiable, for `Nx > 1` and `Nx = 1` -/
example : (((2, 1), (0, 1)) : Bond) ∈ (⟨3, 2, .cylinder⟩ : Sq).bondsV ∧ (⟨3, 2, .cylinder⟩ : Sq).crossesSeam ((2, 1), (0, 1)) ∧
    fOrdered (2, 1) (0, 1) = false ∧ (⟨3, 2, .cylinder⟩ : Sq).nnBondDirn (2, 1) (0, 1) = some .tb := by decide
example : (⟨1, 2, .cylinder⟩ : Sq).bondsV = [((0, 0), (0, 0)), ((0, 1), (0, 1))] ∧
    (⟨1, 2, .cylinder⟩ : Sq).crossesSeam ((0, 1), (0, 1)) ∧ (⟨1, 2, .cylinder⟩ : Sq).nnBondDirn (0, 1) (0, 1) = some .tb := by decide
example : (⟨2, 2, .obc⟩ : Sq).bondsH = [((0, 0), (0, 1)), ((1, 0), (1, 1))] ∧
    (⟨2, 2, .obc⟩ : Sq).bondsV = [((0, 0), (1, 0)), ((0, 1), (1, 1))] := by decide

/-! ## each unique bond is listed exactly once -/

/-- **bonds_once**: the horizontal (vertical) listing has no duplicates, and a pair `(s, s')` is listed iff `s` is a
site of the cell and `s'` its right (bottom) neighbour — so every nearest-neighbour pair of the lattice, taken
modulo the lattice periods (i.e. starting in the cell), appears exactly once. -/
theorem bonds_once (g : Sq) :
    g.bondsH.Nodup ∧ g.bondsV.Nodup ∧
    (∀ b, b ∈ g.bondsH ↔ g.inCell b.1 ∧ g.nnSite b.1 Dir.r.vec = some b.2) ∧
    (∀ b, b ∈ g.bondsV ↔ g.inCell b.1 ∧ g.nnSite b.1 Dir.b.vec = some b.2) ∧
    (∀ b ∈ g.bondsH, b ∉ g.bondsV) := by
  refine ⟨Sq.bondsTo_nodup g.sites_nodup, Sq.bondsTo_nodup g.sites_nodup, ?_, ?_, ?_⟩
  · intro b; unfold Sq.bondsH; rw [Sq.mem_bondsTo, Sq.mem_sites]
  · intro b; unfold Sq.bondsV; rw [Sq.mem_bondsTo, Sq.mem_sites]
  · intro b hb hv
    have h1 := Sq.nnSite_snd (Sq.mem_bondsTo.mp hb).2
    have h2 := Sq.nnSite_snd (Sq.mem_bondsTo.mp hv).2
    have e1 : Dir.r.vec.2 = 1 := rfl
    have e2 : Dir.b.vec.2 = 0 := rfl
    omega


/-! ## a Lattice/Peps container stores and returns objects consistently with the indexing, including patches

The container is `index ↦ object` (`_site_data`) plus a patch map `site ↦ object` (`_patch`). -/

/-- **lattice_container** (get after set): after a successful `c[s] = v`,
* `c[s]` returns `v`;
* if `s` was patched, nothing else changes (every other site returns what it returned before, and the stored
  `_site_data` is untouched — the patched copy is independent of the stored object);
* if `s` was not patched, every unpatched site `s'` with `site2index s' = site2index s` returns `v`, and every
  site that is patched or has a different index returns what it returned before. -/
theorem container_get_set (c c' : Lat) (s : Site) (v : Option Obj) (h : c.set s v = .ok c') :
    c'.geom = c.geom ∧ c'.get s = .ok v ∧
    (c.isPatched s = true → c'.data = c.data ∧ ∀ s', s' ≠ s → c'.get s' = c.get s') ∧
    (c.isPatched s = false → c'.patch = c.patch ∧
      (∀ s', c.isPatched s' = false → c.geom.site2index s' = c.geom.site2index s → c'.get s' = .ok v) ∧
      (∀ s', c.isPatched s' = true → c'.get s' = c.get s') ∧
      (∀ s' i i', c.geom.site2index s' = .ok i' → c.geom.site2index s = .ok i → i' ≠ i → c'.get s' = c.get s')) := by
  unfold Lat.set at h
  cases hp : alGet s c.patch with
  | some w =>
    rw [hp] at h
    cases h
    refine ⟨rfl, ?_, ?_, ?_⟩
    · simp [Lat.get, alGet_alSet]
    · intro _
      refine ⟨rfl, ?_⟩
      intro s' hne
      simp [Lat.get, alGet_alSet, hne]
    · intro hnp
      simp [Lat.isPatched, hp] at hnp
  | none =>
    rw [hp] at h
    cases hi : c.geom.site2index s with
    | error e => rw [hi] at h; exact absurd h (by simp)
    | ok i =>
      rw [hi] at h
      cases h
      refine ⟨rfl, ?_, ?_, ?_⟩
      · simp [Lat.get, hp, hi, alGet_alSet]
      · intro hpt
        simp [Lat.isPatched, hp] at hpt
      · intro _
        refine ⟨rfl, ?_, ?_, ?_⟩
        · intro s' hnp hidx
          have hp' : alGet s' c.patch = none := by
            simpa [Lat.isPatched] using hnp
          simp [Lat.get, hp', hidx, alGet_alSet]
        · intro s' hpt
          cases hp' : alGet s' c.patch with
          | none => simp [Lat.isPatched, hp'] at hpt
          | some w => simp [Lat.get, hp']
        · intro s' i0 i' hi' hi0 hne
          cases hi0
          cases hp' : alGet s' c.patch with
          | some w => simp [Lat.get, hp']
          | none => simp [Lat.get, hp', hi', alGet_alSet, hne]

/-- **lattice_container** (`apply_patch`): the patch becomes empty and every patch entry is moved to its index —
afterwards a site `s'` with index `i` returns the object of the *last* patched site with index `i`
(`lastPatch`), and what was stored before if no patched site has that index.  On a periodic lattice this
repeats the patched tensor across the lattice. -/
theorem container_apply_patch (c c' : Lat) (h : c.applyPatch = .ok c') :
    c'.geom = c.geom ∧ c'.patch = [] ∧
    ∀ s' i, c.geom.site2index s' = .ok i →
      c'.get s' = match lastPatch c.geom c.patch i with
        | some w => .ok w
        | none => match alGet i c.data with
          | some w => .ok w
          | none => .error "KeyError" := by
  unfold Lat.applyPatch at h
  cases hg : applyPatchGo c.geom c.patch c.data with
  | error e => rw [hg] at h; exact absurd h (by simp)
  | ok data' =>
    rw [hg] at h
    cases h
    refine ⟨rfl, rfl, ?_⟩
    intro s' i hi
    simp only [Lat.get, alGet, hi]
    rw [applyPatchGo_get c.geom c.patch c.data data' i hg]
    cases lastPatch c.geom c.patch i <;> rfl

/-- **lattice_container** (`move_to_patch` of one site): the site gets a patch entry holding a shallow copy of what
it returned, the stored objects (`_site_data`) are untouched, and every other site returns what it returned
before.  Together with `container_get_set` (patched case) the patched copy is independent of the stored object. -/
theorem container_move_one (copy : Obj → Obj) (c c' : Lat) (s : Site) (h : c.moveOne copy s = .ok c') :
    c'.geom = c.geom ∧ c'.data = c.data ∧ c'.isPatched s = true ∧
    (∃ o, c.get s = .ok (some o) ∧ c'.get s = .ok (some (copy o))) ∧
    ∀ s', s' ≠ s → c'.get s' = c.get s' ∧ c'.isPatched s' = c.isPatched s' := by
  unfold Lat.moveOne at h
  cases hg : c.get s with
  | error e => rw [hg] at h; exact absurd h (by simp)
  | ok w =>
    rw [hg] at h
    cases w with
    | none => exact absurd h (by simp)
    | some o =>
      cases h
      refine ⟨rfl, rfl, ?_, ⟨o, rfl, ?_⟩, ?_⟩
      · simp [Lat.isPatched, alGet_alSet]
      · simp [Lat.get, alGet_alSet]
      · intro s' hne
        simp [Lat.get, Lat.isPatched, alGet_alSet, hne]

/-- **lattice_container** (`move_to_patch` of a list of sites): stored objects untouched; every listed site is
patched afterwards; sites outside the list keep their patch status and return what they returned before. -/
theorem container_move_to_patch (copy : Obj → Obj) (sites : List Site) :
    ∀ (c c' : Lat), c.moveToPatch copy sites = .ok c' →
    c'.geom = c.geom ∧ c'.data = c.data ∧ (∀ s ∈ sites, c'.isPatched s = true) ∧
    ∀ s', s' ∉ sites → c'.get s' = c.get s' ∧ c'.isPatched s' = c.isPatched s' := by
  induction sites with
  | nil =>
    intro c c' h
    simp only [Lat.moveToPatch] at h
    cases h
    exact ⟨rfl, rfl, by simp, fun _ _ => ⟨rfl, rfl⟩⟩
  | cons s rest ih =>
    intro c c' h
    simp only [Lat.moveToPatch] at h
    cases h1 : c.moveOne copy s with
    | error e => rw [h1] at h; exact absurd h (by simp)
    | ok c1 =>
      rw [h1] at h
      obtain ⟨g1, d1, p1, _, o1⟩ := container_move_one copy c c1 s h1
      obtain ⟨g2, d2, p2, o2⟩ := ih c1 c' h
      refine ⟨g2.trans g1, d2.trans d1, ?_, ?_⟩
      · intro u hu
        rcases List.mem_cons.mp hu with rfl | hu
        · by_cases hin : u ∈ rest
          · exact p2 u hin
          · rw [(o2 u hin).2]; exact p1
        · exact p2 u hu
      · intro s' hs'
        have hne : s' ≠ s := fun e => hs' (by rw [e]; exact List.mem_cons_self)
        have hnr : s' ∉ rest := fun e => hs' (List.mem_cons_of_mem _ e)
        exact ⟨(o2 s' hnr).1.trans (o1 s' hne).1, (o2 s' hnr).2.trans (o1 s' hne).2⟩

/-- non-vacuity: checkerboard container, patch at (2,2), set through the patch, apply -/
example :
    (do let c ← Lat.init .checker (.single 5)
        let c ← c.moveToPatch (· + 1000) [(2, 2)]
        let c ← c.set (2, 2) (some 7)
        let a ← c.get (0, 0)
        let b ← c.get (2, 2)
        let c ← c.applyPatch
        let d ← c.get (4, 0)
        let e ← c.get (0, 1)
        pure [a, b, d, e] : Except String (List (Option Obj))).toOption = some [some 5, some 7, some 7, some 5] := by decide


/-! ## geometries that would give a tensor two different neighbourhoods are rejected -/

theorem mem_patCells {Nx Ny : Nat} {c : Site} : c ∈ patCells Nx Ny ↔ 0 ≤ c.1 ∧ c.1 < Nx ∧ 0 ≤ c.2 ∧ c.2 < Ny := by
  unfold patCells
  simp only [List.mem_flatMap, List.mem_map, List.mem_range]
  constructor
  · rintro ⟨nx, hnx, ny, hny, rfl⟩
    simp only []
    omega
  · rintro ⟨h1, h2, h3, h4⟩
    refine ⟨c.1.toNat, by omega, c.2.toNat, by omega, ?_⟩
    ext <;> simp <;> omega

/-- all cells with equal label have equal 4-neighbour label tuples `(top, left, bottom, right)` -/
def PatConsistent (pat : Pattern) (Nx Ny : Nat) : Prop :=
  ∀ c ∈ patCells Nx Ny, ∀ c' ∈ patCells Nx Ny, ∀ l, patIndex pat Nx Ny c = some l → patIndex pat Nx Ny c' = some l →
    patEnv pat Nx Ny c = patEnv pat Nx Ny c'

theorem conflict_labelled_iff (pat : Pattern) (Nx Ny : Nat) :
    Conflict ((patLabelled pat Nx Ny).map fun lc => (lc.1, patEnv pat Nx Ny lc.2)) ↔ ¬ PatConsistent pat Nx Ny := by
  have hmem : ∀ k e, (k, e) ∈ ((patLabelled pat Nx Ny).map fun lc => (lc.1, patEnv pat Nx Ny lc.2)) ↔
      ∃ c ∈ patCells Nx Ny, patIndex pat Nx Ny c = some k ∧ e = patEnv pat Nx Ny c := by
    intro k e
    unfold patLabelled
    simp only [List.mem_map, List.mem_filterMap, Prod.mk.injEq]
    constructor
    · rintro ⟨⟨l, c⟩, ⟨c0, hc0, hl⟩, rfl, rfl⟩
      cases hp : patIndex pat Nx Ny c0 with
      | none => rw [hp] at hl; exact absurd hl (by simp)
      | some l0 =>
        rw [hp] at hl
        simp only [Option.map_some, Option.some.injEq, Prod.mk.injEq] at hl
        obtain ⟨rfl, rfl⟩ := hl
        exact ⟨c0, hc0, hp, rfl⟩
    · rintro ⟨c, hc, hp, rfl⟩
      exact ⟨(k, c), ⟨c, hc, by rw [hp]; rfl⟩, rfl, rfl⟩
  unfold Conflict PatConsistent
  constructor
  · rintro ⟨k, e1, e2, h1, h2, hne⟩ hcons
    obtain ⟨c1, hc1, hp1, rfl⟩ := (hmem k e1).mp h1
    obtain ⟨c2, hc2, hp2, rfl⟩ := (hmem k e2).mp h2
    exact hne (hcons c1 hc1 c2 hc2 k hp1 hp2)
  · intro hn
    apply Classical.byContradiction
    intro hno
    apply hn
    intro c hc c' hc' l hl hl'
    apply Classical.byContradiction
    intro hne
    exact hno ⟨l, _, _, (hmem l _).mpr ⟨c, hc, hl, rfl⟩, (hmem l _).mpr ⟨c', hc', hl', rfl⟩, hne⟩

/-- **pattern_valid_iff**: the constructor accepts a pattern (a sequence of rows of integer labels) iff it is a
non-empty sequence of rows of equal length and all cells with equal label have equal 4-neighbour label tuples
(neighbours taken periodically). -/
theorem pattern_valid_iff (pat : Pattern) :
    (∃ r, Rect.mk? pat = .ok r) ↔
      ∃ row0 rest, pat = row0 :: rest ∧ (∀ row ∈ pat, row.length = row0.length) ∧
        PatConsistent pat pat.length row0.length := by
  cases pat with
  | nil => simp [Rect.mk?]
  | cons row0 rest =>
    simp only [Rect.mk?]
    by_cases hrows : ((row0 :: rest).any fun row => decide (row.length ≠ row0.length)) = true
    · rw [if_pos hrows]
      constructor
      · rintro ⟨r, hr⟩; exact absurd hr (by simp)
      · rintro ⟨r0, rs, he, hall, _⟩
        cases he
        rw [List.any_eq_true] at hrows
        obtain ⟨row, hrow, hlen⟩ := hrows
        exact absurd (hall row hrow) (by simpa using hlen)
    · rw [if_neg hrows]
      have hall : ∀ row ∈ row0 :: rest, row.length = row0.length := by
        intro row hrow
        apply Classical.byContradiction
        intro hne
        exact hrows (List.any_eq_true.mpr ⟨row, hrow, by simpa using hne⟩)
      have hc := anyConflict_groupAll ((patLabelled (row0 :: rest) (row0 :: rest).length row0.length).map
        fun lc => (lc.1, patEnv (row0 :: rest) (row0 :: rest).length row0.length lc.2))
      rw [conflict_labelled_iff] at hc
      unfold anyConflict at hc
      constructor
      · rintro ⟨r, hr⟩
        split at hr
        · exact absurd hr (by simp)
        · rename_i hno
          refine ⟨row0, rest, rfl, hall, ?_⟩
          apply Classical.byContradiction
          intro hnc
          exact hno (hc.mpr hnc)
      · rintro ⟨r0, rs, he, _, hcons⟩
        cases he
        rw [if_neg (fun h => (hc.mp h) hcons)]
        exact ⟨_, rfl⟩

/-- the rejection is the dedicated error -/
theorem pattern_rejected_neighbors (pat : Pattern) (row0 : List Int) (rest : List (List Int)) (he : pat = row0 :: rest)
    (hall : ∀ row ∈ pat, row.length = row0.length) (hbad : ¬ PatConsistent pat pat.length row0.length) :
    Rect.mk? pat = .error .neighbors := by
  subst he
  simp only [Rect.mk?]
  have hrows : ¬ ((row0 :: rest).any fun row => decide (row.length ≠ row0.length)) = true := by
    intro h
    rw [List.any_eq_true] at h
    obtain ⟨row, hrow, hlen⟩ := h
    exact absurd (hall row hrow) (by simpa using hlen)
  rw [if_neg hrows]
  have hc := anyConflict_groupAll ((patLabelled (row0 :: rest) (row0 :: rest).length row0.length).map
    fun lc => (lc.1, patEnv (row0 :: rest) (row0 :: rest).length row0.length lc.2))
  rw [conflict_labelled_iff] at hc
  unfold anyConflict at hc
  rw [if_pos (hc.mpr hbad)]

/-- non-vacuity: the bipartite and the diagonal-stripe pattern are accepted, the example excluded by the docstring
(`[[0, 1], [1, 1]]`) is rejected with the dedicated error, a ragged pattern with another -/
example : (Rect.mk? [[0, 1], [1, 0]]).toOption.map (·.sites) = some [(0, 0), (0, 1)] ∧
    (Rect.mk? [[0, 1, 2], [1, 2, 0], [2, 0, 1]]).toOption.map (·.sites) = some [(0, 0), (0, 1), (0, 2)] ∧
    (match Rect.mk? [[0, 1], [1, 1]] with | .error .neighbors => true | _ => false) = true ∧
    (match Rect.mk? [[0, 1], [1]] with | .error .notMatrix => true | _ => false) = true := by decide


/-- **bonds_once** (counts): number of listed bonds per boundary type, for all `Nx ≥ 1`, `Ny`:
`h`: `Nx·Ny` (infinite), `Nx·(Ny−1)` (obc, cylinder); `v`: `Nx·Ny` (infinite, cylinder), `(Nx−1)·Ny` (obc). -/
theorem bonds_count (g : Sq) (hx : 0 < g.Nx) :
    (g.bondsH.length = match g.bd with
      | .infinite => g.Nx * g.Ny
      | .obc => g.Nx * (g.Ny - 1)
      | .cylinder => g.Nx * (g.Ny - 1)) ∧
    (g.bondsV.length = match g.bd with
      | .infinite => g.Nx * g.Ny
      | .obc => (g.Nx - 1) * g.Ny
      | .cylinder => g.Nx * g.Ny) :=
  ⟨g.length_bondsH hx, g.length_bondsV hx⟩

example : (⟨3, 4, .cylinder⟩ : Sq).bondsH.length = 9 ∧ (⟨3, 4, .cylinder⟩ : Sq).bondsV.length = 12 ∧
    (⟨3, 4, .obc⟩ : Sq).bondsV.length = 8 := by decide

/-! ## remaining lattice classes: listed bonds, one neighbourhood per unique tensor -/

theorem Sq.isNN_infinite {g : Sq} (hb : g.bd = .infinite) (s0 s1 : Site) (d : Dir) :
    g.isNN s0 s1 d = decide (s1 = (s0.1 + d.vec.1, s0.2 + d.vec.2)) := by
  unfold Sq.isNN
  rw [Sq.nnSite_infinite hb, Sq.nnSite_infinite hb, Dir.opp_vec]
  by_cases h : s1 = (s0.1 + d.vec.1, s0.2 + d.vec.2)
  · subst h
    simp only [beq_self_eq_true, Bool.true_and, decide_true]
    have : ((s0.1 + d.vec.1, s0.2 + d.vec.2).1 + (-d.vec.1, -d.vec.2).1, (s0.1 + d.vec.1, s0.2 + d.vec.2).2 + (-d.vec.1, -d.vec.2).2) = s0 := by
      ext <;> simp <;> omega
    rw [this]; simp
  · have : ¬ (s0.1 + d.vec.1, s0.2 + d.vec.2) = s1 := fun e => h e.symm
    simp [h, this]

/-- **bonds_nn_ordered** for bond lists built on an infinite lattice from an arbitrary list of sites
(`RectangularUnitcell._bonds_h/_bonds_v`): lattice order `'lr'`/`'tb'` and strictly f-ordered -/
theorem bondsTo_infinite_nn_ordered (g : Sq) (hb : g.bd = .infinite) (ss : List Site) (b : Bond) :
    (b ∈ g.bondsTo .r ss → b.1 ∈ ss ∧ b.2 = (b.1.1, b.1.2 + 1) ∧ g.nnBondDirn b.1 b.2 = some .lr ∧
      fOrdered b.1 b.2 = true ∧ fOrdered b.2 b.1 = false) ∧
    (b ∈ g.bondsTo .b ss → b.1 ∈ ss ∧ b.2 = (b.1.1 + 1, b.1.2) ∧ g.nnBondDirn b.1 b.2 = some .tb ∧
      fOrdered b.1 b.2 = true ∧ fOrdered b.2 b.1 = false) := by
  constructor
  · intro h
    obtain ⟨hs, hn⟩ := Sq.mem_bondsTo.mp h
    rw [Sq.nnSite_infinite hb] at hn
    have e : b.2 = (b.1.1, b.1.2 + 1) := by
      have := (Option.some.inj hn).symm
      rw [this]; ext <;> simp [Dir.vec]
    refine ⟨hs, e, ?_, ?_, ?_⟩
    · unfold Sq.nnBondDirn
      rw [Sq.isNN_infinite hb, e]
      simp [Dir.vec]
    · rw [fOrdered_iff, e]; simp only []; omega
    · rw [Bool.eq_false_iff, e]; intro hh; rw [fOrdered_iff] at hh; simp only [] at hh; omega
  · intro h
    obtain ⟨hs, hn⟩ := Sq.mem_bondsTo.mp h
    rw [Sq.nnSite_infinite hb] at hn
    have e : b.2 = (b.1.1 + 1, b.1.2) := by
      have := (Option.some.inj hn).symm
      rw [this]; ext <;> simp [Dir.vec]
    refine ⟨hs, e, ?_, ?_, ?_⟩
    · unfold Sq.nnBondDirn
      rw [Sq.isNN_infinite hb, Sq.isNN_infinite hb, e]
      simp only [Dir.vec, Prod.mk.injEq]
      simp only [Int.add_zero]
      have : ¬ (b.1.1 + 1 = b.1.1 ∧ b.1.2 = b.1.2 + 1) := by omega
      simp [this]
    · rw [fOrdered_iff, e]; simp only []; exact Or.inr ⟨trivial, by omega⟩
    · rw [Bool.eq_false_iff, e]; intro hh; rw [fOrdered_iff] at hh; simp only [] at hh; omega

/-- RectangularUnitcell: one horizontal and one vertical bond per unique site, no duplicates -/
theorem rect_bonds (r : Rect) (hs : r.sites.Nodup) :
    r.bondsH.Nodup ∧ r.bondsV.Nodup ∧ r.bondsH.length = r.sites.length ∧ r.bondsV.length = r.sites.length := by
  have key : ∀ d : Dir, (r.base.bondsTo d r.sites).length = r.sites.length := by
    intro d
    unfold Sq.bondsTo
    have : ∀ d : Dir, (fun s => (r.base.nnSite s d.vec).map fun s' => (s, s')) =
        (some ∘ fun s => (s, ((s.1 + d.vec.1, s.2 + d.vec.2) : Site))) := by
      intro d; funext s; rw [Sq.nnSite_infinite rfl]; rfl
    rw [this, List.filterMap_eq_map, List.length_map]
  exact ⟨Sq.bondsTo_nodup hs, Sq.bondsTo_nodup hs, key .r, key .b⟩

/-- the fixed bond tables of CheckerboardLattice and of the 3-site TriangularLattice (finite tables): lattice order,
strictly f-ordered, one bond per pair of tensor indices; diagonal bonds join `'tr'` neighbours -/
theorem table_bonds_nn_ordered :
    (∀ b ∈ cbBondsH, cbBase.nnBondDirn b.1 b.2 = some .lr ∧ fOrdered b.1 b.2 = true ∧ fOrdered b.2 b.1 = false) ∧
    (∀ b ∈ cbBondsV, cbBase.nnBondDirn b.1 b.2 = some .tb ∧ fOrdered b.1 b.2 = true ∧ fOrdered b.2 b.1 = false) ∧
    (cbBondsH.map fun b => (cbIndex b.1, cbIndex b.2)).Nodup ∧ (cbBondsV.map fun b => (cbIndex b.1, cbIndex b.2)).Nodup ∧
    (∀ b ∈ triBondsH3, (⟨3, 3, .infinite⟩ : Sq).nnBondDirn b.1 b.2 = some .lr ∧ fOrdered b.1 b.2 = true ∧ fOrdered b.2 b.1 = false) ∧
    (∀ b ∈ triBondsV3, (⟨3, 3, .infinite⟩ : Sq).nnBondDirn b.1 b.2 = some .tb ∧ fOrdered b.1 b.2 = true ∧ fOrdered b.2 b.1 = false) ∧
    (∀ b ∈ triBondsD3, (⟨3, 3, .infinite⟩ : Sq).nnSite b.1 Dir.tr.vec = some b.2 ∧ fOrdered b.1 b.2 = true ∧ fOrdered b.2 b.1 = false) ∧
    (∀ l ∈ [triBondsH3, triBondsV3, triBondsD3],
      (l.map fun b => ((⟨⟨3, 3, .infinite⟩, false⟩ : Tri).index b.1, (⟨⟨3, 3, .infinite⟩, false⟩ : Tri).index b.2)).Nodup) := by
  decide

/-- **one neighbourhood per unique tensor** (SquareLattice, any boundary; also `full_patch` triangular): if two sites
have the same tensor index, so have their images under any shift — hence, with `nnSite_consistent_index`, the
neighbours returned by `nn_site` in any direction carry the same tensor index. -/
theorem index_shift_invariant (g : Sq) (s s' : Site) (d : Int × Int) (h : g.site2index s = g.site2index s') :
    g.site2index (s.1 + d.1, s.2 + d.2) = g.site2index (s'.1 + d.1, s'.2 + d.2) := by
  rw [site2index_period_iff] at h ⊢
  unfold Sq.congruent at h ⊢
  obtain ⟨h1, h2⟩ := h
  have e1 : s.1 + d.1 - (s'.1 + d.1) = s.1 - s'.1 := by omega
  have e2 : s.2 + d.2 - (s'.2 + d.2) = s.2 - s'.2 := by omega
  constructor
  · split
    · rename_i hc; rw [if_pos hc] at h1; simp only []; omega
    · rename_i hc; rw [if_neg hc] at h1; simp only []; rw [e1]; exact h1
  · split
    · rename_i hc; rw [if_pos hc] at h2; simp only []; rw [e2]; exact h2
    · rename_i hc; rw [if_neg hc] at h2; simp only []; omega

theorem nn_index_consistent (g : Sq) (hx : 0 < g.Nx) (s s' t t' : Site) (d : Int × Int)
    (h : g.site2index s = g.site2index s') (ht : g.nnSite s d = some t) (ht' : g.nnSite s' d = some t') :
    g.site2index t = g.site2index t' := by
  rw [nnSite_consistent_index g hx s t d ht, nnSite_consistent_index g hx s' t' d ht']
  exact index_shift_invariant g s s' d h

/-- one neighbourhood per unique tensor, checkerboard and 3-site triangular index -/
theorem cb_tri_index_shift (g : Sq) (s : Site) (d : Int × Int) :
    cbIndex (s.1 + d.1, s.2 + d.2) = (cbIndex s + d.1 + d.2) % 2 ∧
    (⟨g, false⟩ : Tri).index (s.1 + d.1, s.2 + d.2) = ((⟨g, false⟩ : Tri).index s + d.2 - d.1) % 3 := by
  simp only [cbIndex, Tri.index, Bool.false_eq_true, if_false]
  omega


example : (Rect.mk? [[0, 1], [1, 0]]).toOption.map (fun r => (r.bondsH, r.bondsV)) =
    some ([((0, 0), (0, 1)), ((0, 1), (0, 2))], [((0, 0), (1, 0)), ((0, 1), (1, 1))]) := by decide
example : (⟨2, 2, .infinite⟩ : Sq).site2index (0, 1) = (⟨2, 2, .infinite⟩ : Sq).site2index (2, -1) ∧
    (⟨2, 2, .infinite⟩ : Sq).site2index (1, 1) = (⟨2, 2, .infinite⟩ : Sq).site2index (3, -1) := by decide

/-! ## TriangularLattice(full_patch=True): diagonal bonds -/

theorem mem_triFull_bondsD {g : Sq} {b : Bond} :
    b ∈ (⟨g, true⟩ : Tri).bondsD ↔ ∃ s, g.inCell s ∧ g.nnSite s Dir.b.vec = some b.1 ∧ g.nnSite s Dir.r.vec = some b.2 := by
  simp only [Tri.bondsD, if_true, List.mem_filterMap, Sq.mem_sites]
  constructor
  · rintro ⟨s, hs, h⟩
    refine ⟨s, hs, ?_⟩
    cases hr : g.nnSite s Dir.r.vec with
    | none => rw [hr] at h; exact absurd h (by simp)
    | some sr =>
      cases hbm : g.nnSite s Dir.b.vec with
      | none => rw [hr, hbm] at h; exact absurd h (by simp)
      | some sb =>
        rw [hr, hbm] at h
        simp only [Option.some.injEq] at h
        subst h
        exact ⟨rfl, rfl⟩
  · rintro ⟨s, hs, h1, h2⟩
    exact ⟨s, hs, by rw [h1, h2]⟩

theorem Sq.diag_of_cell (g : Sq) (hx : 0 < g.Nx) (s sb sr : Site) (hs : g.inCell s)
    (h1 : g.nnSite s (1, 0) = some sb) (h2 : g.nnSite s (0, 1) = some sr) :
    g.nnSite sb (-1, 1) = some sr ∧ g.nnSite sr (1, -1) = some sb := by
  obtain ⟨c1, c2, c3, c4⟩ := hs
  cases hbd : g.bd with
  | infinite =>
    rw [Sq.nnSite_infinite hbd] at h1 h2 ⊢
    rw [Sq.nnSite_infinite hbd]
    cases h1; cases h2
    constructor <;> (congr 1; ext <;> simp <;> omega)
  | obc =>
    rw [Sq.nnSite_obc hbd] at h1 h2 ⊢
    rw [Sq.nnSite_obc hbd]
    split at h1
    · split at h2
      · rename_i k1 k2
        cases h1; cases h2
        simp only [] at k1 k2
        constructor
        · rw [if_pos (by (try dsimp only); omega)]; congr 1; ext <;> simp <;> omega
        · rw [if_pos (by (try dsimp only); omega)]; congr 1; ext <;> simp <;> omega
      · exact absurd h2 (by simp)
    · exact absurd h1 (by simp)
  | cylinder =>
    rw [Sq.nnSite_cylinder hbd hx] at h1 h2 ⊢
    rw [Sq.nnSite_cylinder hbd hx]
    split at h1
    · split at h2
      · rename_i k1 k2
        cases h1; cases h2
        simp only [] at k1 k2
        constructor
        · rw [if_pos (by (try dsimp only); omega)]
          congr 1
          ext
          · show ((s.1 + 1) % (g.Nx : Int) + -1) % (g.Nx : Int) = (s.1 + 0) % (g.Nx : Int)
            rw [← Int.sub_eq_add_neg, emod_sub_cancel, Int.add_zero]
          · show s.2 + 0 + 1 = s.2 + 1
            omega
        · rw [if_pos (by (try dsimp only); omega)]
          congr 1
          ext
          · show ((s.1 + 0) % (g.Nx : Int) + 1) % (g.Nx : Int) = (s.1 + 1) % (g.Nx : Int)
            rw [Int.add_zero, Int.emod_add_emod]
          · show s.2 + 1 + -1 = s.2 + 0
            omega
      · exact absurd h2 (by simp)
    · exact absurd h1 (by simp)

/-- **bonds_nn_ordered** (diagonal bonds of `TriangularLattice(full_patch=True)`, every boundary type): each listed
diagonal bond is `(nn_site(s,'b'), nn_site(s,'r'))` for a site `s` of the cell with **both** neighbours defined, its
end points are mutual `'tr'`/`'bl'` nearest neighbours, and it is strictly fermionically ordered. -/
theorem triFull_bondsD_nn_ordered (g : Sq) (hx : 0 < g.Nx) (b : Bond) (hb : b ∈ (⟨g, true⟩ : Tri).bondsD) :
    (∃ s, g.inCell s ∧ g.nnSite s Dir.b.vec = some b.1 ∧ g.nnSite s Dir.r.vec = some b.2) ∧
    g.nnSite b.1 Dir.tr.vec = some b.2 ∧ g.nnSite b.2 Dir.bl.vec = some b.1 ∧
    fOrdered b.1 b.2 = true ∧ fOrdered b.2 b.1 = false := by
  obtain ⟨s, hs, h1, h2⟩ := mem_triFull_bondsD.mp hb
  have y1 : b.1.2 = s.2 + 0 := Sq.nnSite_snd h1
  have y2 : b.2.2 = s.2 + 1 := Sq.nnSite_snd h2
  obtain ⟨d1, d2⟩ := g.diag_of_cell hx s b.1 b.2 hs h1 h2
  refine ⟨⟨s, hs, h1, h2⟩, d1, d2, ?_, ?_⟩
  · rw [fOrdered_iff]; omega
  · rw [Bool.eq_false_iff]; intro h; rw [fOrdered_iff] at h; omega

/-- diagonal bonds are listed once -/
theorem triFull_bondsD_nodup (g : Sq) (hx : 0 < g.Nx) : (⟨g, true⟩ : Tri).bondsD.Nodup := by
  simp only [Tri.bondsD, if_true]
  have hp : g.sites.Pairwise (fun a a' => g.inCell a ∧ g.inCell a' ∧ a ≠ a') := by
    have h := g.sites_nodup
    rw [List.nodup_iff_pairwise_ne] at h
    exact List.Pairwise.and_mem.mp h |>.imp (fun ⟨ha, ha', hne⟩ => ⟨Sq.mem_sites.mp ha, Sq.mem_sites.mp ha', hne⟩)
  rw [List.nodup_iff_pairwise_ne]
  refine List.Pairwise.filterMap _ ?_ hp
  rintro a a' ⟨hc, hc', hne⟩ b hb b' hb' e
  subst e
  cases h1 : g.nnSite a Dir.r.vec with
  | none => rw [h1] at hb; exact absurd hb (by simp)
  | some ar =>
    cases h3 : g.nnSite a' Dir.r.vec with
    | none => rw [h3] at hb'; exact absurd hb' (by simp)
    | some ar' =>
      cases h2 : g.nnSite a Dir.b.vec with
      | none => rw [h1, h2] at hb; exact absurd hb (by simp)
      | some ab =>
        cases h4 : g.nnSite a' Dir.b.vec with
        | none => rw [h3, h4] at hb'; exact absurd hb' (by simp)
        | some ab' =>
          rw [h1, h2] at hb; rw [h3, h4] at hb'
          simp only [Option.some.injEq] at hb hb'
          rw [← hb] at hb'
          have e : ar' = ar := by cases hb'; rfl
          rw [e] at h3
          have i1 := nnSite_inverse_cell g hx a ar .r hc h1
          have i2 := nnSite_inverse_cell g hx a' ar .r hc' h3
          rw [i1] at i2
          exact hne (Option.some.inj i2)

example : (⟨⟨2, 2, .obc⟩, true⟩ : Tri).bondsD = [((1, 0), (0, 1))] ∧
    (⟨⟨2, 2, .cylinder⟩, true⟩ : Tri).bondsD = [((1, 0), (0, 1)), ((0, 0), (1, 1))] ∧
    ((Geom.tri ⟨⟨2, 2, .obc⟩, true⟩).bonds none false).length = 5 := by decide


/-!
## Not proved at full strength (kept visible)

* `rect_one_neighbourhood` (full statement): for an accepted pattern, **every two sites of ℤ²** with the same label have
  the same 4-neighbour labels:
  `Rect.mk? pat = .ok r → r.index s = r.index s' → r.index s ≠ none → patEnv r.pat r.Nx r.Ny s = patEnv r.pat r.Nx r.Ny s'`.
  Proved (`pattern_valid_iff`): the same statement for all sites of the unit cell (`PatConsistent`), together with
  `patIndex_periods` (the label is invariant under the cell periods); the reduction of `patEnv` modulo the periods is not
  carried out in Lean.  The check evaluates the full statement on the real class over a window of two periods (oracle
  `two-neighbourhoods`).
* `rect_sites_once` (full statement): `Rect.mk? pat = .ok r → (r.sites.map r.index).Nodup ∧ ∀ s, r.index s ∈ r.sites.map r.index`
  (one listed site — the tuple-minimal one — per label).  Proved: `rect_bonds` under the hypothesis `r.sites.Nodup`,
  `bondsTo_infinite_nn_ordered` for arbitrary site lists.  The check evaluates the full statement on the real class for every
  accepted pattern of the enumeration (oracles `sites-index-dup`, `sites-missing-index`).
* `sites_sorted_fOrdered` holds for SquareLattice / Checkerboard / Triangular; `RectangularUnitcell` lists its unique sites
  in tuple (row-major) order, which is *not* the fermionic order (e.g. `[[0,1],[2,3]]`: `(0,1)` before `(1,0)`); the
  property does not demand it and the check only records it.
-/

end YModel.Geo
