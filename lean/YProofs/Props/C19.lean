import YProofs.Lemmas.SymLaws
/-!
# C19 — Symmetry rules are abelian groups (part 1: the fusion rule)

Every theorem below is stated for an arbitrary `SymDef` whose expression is in canonical shape
(`WSym d ms`), and `generated_rules_canonical` shows by kernel evaluation that **each rule
regenerated from `yastn/sym/*.py` on this run** is in canonical shape with exactly the moduli
its name promises.  The laws hold for all charge vectors in ℤ^NSYM, all signature vectors and
all groupings – no box.
-/
namespace YModel
open Int

/-- `d`'s rule is in canonical shape with moduli `ms` -/
def WSym (d : SymDef) (ms : List Nat) : Prop := d.expr.moduli d.nsym = some ms

/-- (tie to source) every generated rule is canonical with the moduli its SYM_ID denotes -/
theorem generated_rules_canonical :
    ∀ d ∈ SymGen.all, (expectedModuli d.id).isSome ∧ d.expr.moduli d.nsym = expectedModuli d.id := by
  decide

/-- (tie to source) the seven shipped symmetries are all present -/
theorem generated_rules_complete :
    ∀ n ∈ ["dense", "Z2", "Z3", "U1", "U1xU1", "Z2xU1", "U1xU1xZ2"], ∃ d ∈ SymGen.all, d.id = n := by
  decide

theorem wsym_of_generated {d : SymDef} (h : d ∈ SymGen.all) : ∃ ms, WSym d ms ∧ expectedModuli d.id = some ms := by
  obtain ⟨h1, h2⟩ := generated_rules_canonical d h
  obtain ⟨ms, hms⟩ := Option.isSome_iff_exists.mp h1
  exact ⟨ms, by rw [WSym, h2, hms], hms⟩

section laws
variable {d : SymDef} {ms : List Nat} (hd : WSym d ms)
include hd

theorem fuse_length (cs : List Charge) (ss : List Int) (sn : Int) : (d.fuse cs ss sn).length = ms.length := by
  rw [fuse_eq_canon d ms hd, canonFuse_length]

/-- results are always in the canonical range of the group -/
theorem fuse_range (cs : List Charge) (ss : List Int) (sn : Int) :
    isCanonical ms (d.fuse cs ss sn) = true := by
  rw [fuse_eq_canon d ms hd]
  unfold isCanonical
  simp only [canonFuse_length, decide_true, Bool.true_and]
  rw [List.all_eq_true]
  intro b hb
  obtain ⟨i, hi, rfl⟩ := List.getElem_of_mem hb
  simp only [List.length_zipWith, canonFuse_length, Nat.min_self] at hi
  simp only [List.getElem_zipWith, id]
  simp only [canonFuse, List.getElem_map, List.getElem_range, canonComp]
  have : ms[i] = ms.getD i 0 := by simp [List.getD, hi]
  rw [this]
  exact canonRange_emod _ _

theorem canon_getD {t : Charge} (ht : isCanonical ms t = true) (j : Nat) (hj : j < ms.length) :
    canonRange (ms.getD j 0) (t.getD j 0) = true := by
  unfold isCanonical at ht
  simp only [Bool.and_eq_true, decide_eq_true_eq, List.all_eq_true] at ht
  obtain ⟨hl, hall⟩ := ht
  have hjt : j < t.length := by omega
  have := hall (canonRange ms[j] t[j]) (by
    apply List.mem_iff_getElem.mpr
    exact ⟨j, by simp [hj, hjt], by simp⟩)
  simpa [List.getD, hj, hjt] using this

/-- canonical charges are fixed points of `fuse [t] [s] s` (what `Leg.__post_init__` tests) -/
theorem fuse_idem {t : Charge} (ht : isCanonical ms t = true) {s : Int} (hs : s = 1 ∨ s = -1) :
    d.fuse [t] [s] s = t := by
  rw [fuse_eq_canon d ms hd]
  have hl : t.length = ms.length := by
    unfold isCanonical at ht; simp at ht; exact ht.1
  apply charge_ext _ _ (by rw [canonFuse_length, hl])
  intro j hj
  rw [canonFuse_length] at hj
  rw [canonFuse_getD, if_pos hj, canonComp, rawComp_cons, rawComp_nil]
  have : s * (s * t.getD j 0 + 0) = t.getD j 0 := by
    rw [Int.add_zero, ← Int.mul_assoc, sign_sq hs, Int.one_mul]
  rw [this]
  exact emod_of_canonRange (canon_getD hd ht j hj)

/-- group addition as yastn performs it -/
abbrev gadd (d : SymDef) (a b : Charge) : Charge := d.fuse [a, b] [1, 1] 1
/-- inverse by signature flip -/
abbrev gneg (d : SymDef) (a : Charge) : Charge := d.fuse [a] [1] (-1)

theorem gadd_getD (a b : Charge) (j : Nat) (hj : j < ms.length) :
    (gadd d a b).getD j 0 = (a.getD j 0 + b.getD j 0) % (ms.getD j 0 : Int) := by
  rw [gadd, fuse_eq_canon d ms hd, canonFuse_getD, if_pos hj, canonComp, rawComp_cons, rawComp_cons, rawComp_nil]
  congr 1; ring

theorem add_comm (a b : Charge) : gadd d a b = gadd d b a := by
  apply charge_ext _ _ (by rw [fuse_length hd, fuse_length hd])
  intro j hj
  rw [fuse_length hd] at hj
  rw [gadd_getD hd _ _ _ hj, gadd_getD hd _ _ _ hj, Int.add_comm]

theorem add_assoc (a b c : Charge) : gadd d (gadd d a b) c = gadd d a (gadd d b c) := by
  apply charge_ext _ _ (by rw [fuse_length hd, fuse_length hd])
  intro j hj
  rw [fuse_length hd] at hj
  rw [gadd_getD hd _ _ _ hj, gadd_getD hd _ _ _ hj, gadd_getD hd _ _ _ hj, gadd_getD hd _ _ _ hj,
    Int.emod_add_emod, Int.add_emod_emod, Int.add_assoc]

theorem zero_getD (j : Nat) : (d.zero).getD j 0 = 0 := by
  unfold SymDef.zero
  by_cases h : j < d.nsym <;> simp [List.getD, h]

/-- the zero charge is the identity (on canonical charges) -/
theorem add_zero {a : Charge} (ha : isCanonical ms a = true) : gadd d a d.zero = a := by
  have hl : a.length = ms.length := by
    unfold isCanonical at ha; simp at ha; exact ha.1
  apply charge_ext _ _ (by rw [fuse_length hd, hl])
  intro j hj
  rw [fuse_length hd] at hj
  rw [gadd_getD hd _ _ _ hj, zero_getD hd, Int.add_zero]
  exact emod_of_canonRange (canon_getD hd ha j hj)

theorem zero_canonical : isCanonical ms d.zero = true := by
  obtain ⟨hl, _⟩ := moduli_some hd
  unfold isCanonical SymDef.zero
  simp only [List.length_replicate, hl, decide_true, Bool.true_and, List.all_eq_true]
  intro b hb
  obtain ⟨i, hi, rfl⟩ := List.getElem_of_mem hb
  simp [canonRange]
  omega

/-- flipping the signature of the result yields the inverse:
`a + fuse [a] [s] (-s) = 0` for both signatures -/
theorem flip_signature_is_inverse (a : Charge) {s : Int} (hs : s = 1 ∨ s = -1) :
    gadd d a (d.fuse [a] [s] (-s)) = d.zero := by
  obtain ⟨hl, _⟩ := moduli_some hd
  apply charge_ext _ _ (by rw [fuse_length hd, SymDef.zero, List.length_replicate, hl])
  intro j hj
  rw [fuse_length hd] at hj
  rw [gadd_getD hd _ _ _ hj, zero_getD hd, fuse_eq_canon d ms hd, canonFuse_getD, if_pos hj, canonComp,
    rawComp_cons, rawComp_nil, Int.add_emod_emod]
  have : a.getD j 0 + -s * (s * a.getD j 0 + 0) = 0 := by
    have := sign_sq hs
    have h2 : -s * (s * a.getD j 0 + 0) = -((s * s) * a.getD j 0) := by ring
    rw [h2, this]; ring
  rw [this]; simp

theorem add_neg (a : Charge) : gadd d a (gneg d a) = d.zero :=
  flip_signature_is_inverse hd a (Or.inl rfl)

/-- **grouping law**: fusing groups first (each with its own signature `σ_g`) and then fusing the
results with signatures `σ_g` equals fusing everything at once – for every partition into
consecutive groups.  This is what hard fusion, `leg_product` and merge-to-matrix rely on. -/
theorem fuse_grouping (G : List FGroup) (hG : ∀ g ∈ G, g.ok) (sn : Int) :
    d.fuse (G.map (fun g => d.fuse g.cs g.ss g.σ)) (G.map (·.σ)) sn
      = d.fuse (G.flatMap (·.cs)) (G.flatMap (·.ss)) sn := by
  apply charge_ext _ _ (by rw [fuse_length hd, fuse_length hd])
  intro j hj
  rw [fuse_length hd] at hj
  rw [fuse_eq_canon d ms hd, fuse_eq_canon d ms hd, canonFuse_getD, canonFuse_getD, if_pos hj, if_pos hj]
  unfold canonComp
  have h1 := rawComp_outer (ms.getD j 0) G hG j (fun g => d.fuse g.cs g.ss g.σ) (by
    intro g _
    show (d.fuse g.cs g.ss g.σ).getD j 0 = _
    rw [fuse_eq_canon d ms hd, canonFuse_getD, if_pos hj, canonComp])
  rw [← rawComp_flat G hG j] at h1
  exact Int.ModEq.mul_left sn h1

omit hd in
/-- `add_charges` is `fuse` with default signatures; no argument gives the zero charge -/
theorem add_charges_spec (cs : List Charge) (sn : Int) :
    d.addCharges cs none sn = if cs = [] then d.zero else d.fuse cs (List.replicate cs.length 1) sn := by
  unfold SymDef.addCharges
  cases cs <;> simp

end laws

/-! ### Instantiation for the rules regenerated from the source on this run -/

theorem generated_abelian_group (d : SymDef) (h : d ∈ SymGen.all) :
    ∃ ms, expectedModuli d.id = some ms ∧
      (∀ cs ss sn, isCanonical ms (d.fuse cs ss sn) = true) ∧
      (∀ a b, gadd d a b = gadd d b a) ∧
      (∀ a b c, gadd d (gadd d a b) c = gadd d a (gadd d b c)) ∧
      (∀ a, isCanonical ms a = true → gadd d a d.zero = a) ∧
      (∀ a s, (s = 1 ∨ s = -1) → gadd d a (d.fuse [a] [s] (-s)) = d.zero) ∧
      (∀ (G : List FGroup) (sn : Int), (∀ g ∈ G, FGroup.ok g) →
        d.fuse (G.map (fun g => d.fuse g.cs g.ss g.σ)) (G.map (·.σ)) sn
          = d.fuse (G.flatMap (·.cs)) (G.flatMap (·.ss)) sn) := by
  obtain ⟨ms, hw, he⟩ := wsym_of_generated h
  exact ⟨ms, he, fuse_range hw, add_comm hw, add_assoc hw, fun a => add_zero hw,
    fun a s hs => flip_signature_is_inverse hw a hs, fun G sn hG => fuse_grouping hw G hG sn⟩

/-- non-vacuity: a concrete non-trivial instance (U1xU1xZ2, charges outside [0,2) in the Z2 slot
get reduced; grouping of 3 charges as (2)+(1) with a negative group signature). -/
example : SymGen.sym_U1xU1xZ2.fuse [[1, -2, 1], [3, 0, 1], [0, 5, 1]] [1, -1, 1] (-1) = [2, -3, 1] := by decide
example : (⟨[[1, -2, 1], [3, 0, 1]], [1, -1], -1⟩ : FGroup).ok := ⟨rfl, Or.inr rfl⟩

end YModel
