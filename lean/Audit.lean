import Lean
/-!
`lake env lean --run Audit.lean Mod1 Mod2 …` : for every theorem declared in the given modules
print one JSON line {"module":…, "thm":…, "axioms":[…]}.  Used by ./check to count proof
obligations and to enforce axioms ⊆ {propext, Classical.choice, Quot.sound}.
-/
open Lean

def isAuxName (n : Name) : Bool :=
  n.isInternal || n.hasMacroScopes ||
  (match n with
   | .str _ s => s.startsWith "_" || s.startsWith "match_" || s.startsWith "proof_" || s == "eq_def" || s.startsWith "eq_"
   | _ => false)

def main (args : List String) : IO UInt32 := do
  initSearchPath (← findSysroot)
  let mods := args.map String.toName
  let env ← importModules (mods.map (fun m => ({ module := m } : Import))).toArray {} (trustLevel := 1024) (loadExts := false)
  for m in mods do
    match env.getModuleIdx? m with
    | none => IO.eprintln s!"module {m} not found"; return 1
    | some idx =>
      let consts := env.constants.map₁.toList
      let mut n := 0
      for (name, ci) in consts do
        if env.getModuleIdxFor? name == some idx then
          match ci with
          | .thmInfo _ =>
            if !isAuxName name then
              let ctx : Core.Context := { fileName := "<audit>", fileMap := default }
              let cst : Core.State := { env := env }
              let (axsA, _) ← (collectAxioms name : CoreM (Array Name)).toIO ctx cst
              let axs := axsA.toList.map (fun a => Json.str a.toString)
              IO.println (Json.compress (Json.mkObj [("module", Json.str m.toString), ("thm", Json.str name.toString), ("axioms", Json.arr axs.toArray)]))
              n := n + 1
          | _ => pure ()
      IO.println (Json.compress (Json.mkObj [("module", Json.str m.toString), ("count", Json.num (JsonNumber.fromNat n))]))
  return 0
