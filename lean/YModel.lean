import YModel.Sym
import YModel.SymGen
import YModel.Sort
import YModel.Leg
import YModel.JsonUtil
import YModel.DriverCore
import YModel.Drv.C19
